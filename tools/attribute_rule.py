#!/venv/bin/python
"""Developer tool: add properties to a rule's attribution.  usage: attribute_rule.py RULE-ID C02 C13 ..."""
import glob, os, re, sys
rid, add = sys.argv[1], sys.argv[2:]
root = os.path.join(os.path.dirname(os.path.dirname(os.path.abspath(__file__))), 'lt_static', 'rules')
for p in glob.glob(os.path.join(root, '*.py')):
    s = open(p).read()
    m = re.search(r"@rule\('" + re.escape(rid) + r"', (\[[^\]]*\])", s)
    if not m:
        continue
    props = eval(m.group(1))
    new = props + [a for a in add if a not in props]
    s = s[:m.start(1)] + repr(new) + s[m.end(1):]
    open(p, 'w').write(s)
    print(p, rid, new)
    break
else:
    print('rule not found', rid); sys.exit(1)
