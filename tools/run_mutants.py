#!/venv/bin/python
"""Developer tool: run the checks against seeded changes.

For each <dir>/<Cxx>/<k>/patch.diff (default: /verif/seeded, also accepts /tmp/mut) the patch is applied
to a scratch git worktree of /repo (never /repo itself), every claimed property's quick check
is run with --repo <scratch>, and the worktree is reset.  Prints which properties fire.
"""
import glob
import json
import os
import subprocess
import sys

HERE = os.path.dirname(os.path.abspath(__file__))
ROOT = os.path.dirname(HERE)
sys.path.insert(0, ROOT)
SCRATCH = os.environ.get('LT_SCRATCH', '/tmp/wt/scratch')


def sh(*a, **kw):
    return subprocess.run(a, capture_output=True, text=True, **kw)


def main():
    args = [a for a in sys.argv[1:] if not a.startswith('--')]
    target_only = '--target-only' in sys.argv
    base = args[0] if args else os.path.join(ROOT, 'seeded')
    only = args[1:]
    from lt_static import runner
    from lt_static.registry import PROPERTIES
    runner.load_rules()
    props = [p for p in sorted(PROPERTIES) if runner.rules_for(p, 'quick')]
    if not os.path.isdir(SCRATCH):
        r = sh('git', '-C', '/repo', 'worktree', 'add', '--detach', SCRATCH, 'HEAD')
        if r.returncode:
            print(r.stderr)
            return 2
    sh('git', '-C', SCRATCH, 'checkout', '-q', '--detach', sh('git', '-C', '/repo', 'rev-parse', 'HEAD').stdout.strip())
    sh('git', '-C', SCRATCH, 'checkout', '--', '.')
    patches = sorted(glob.glob(os.path.join(base, '*', '*', 'patch.diff')) + glob.glob(os.path.join(base, '*', 'patch.diff')))
    missed = 0
    for p in patches:
        d = os.path.dirname(p)
        name = os.path.relpath(d, base)
        if only and not any(o in name for o in only):
            continue
        meta = {}
        try:
            meta = json.load(open(os.path.join(d, 'meta.json')))
        except Exception:
            pass
        target = meta.get('property') or name.split('/')[0].split('-')[0]
        r = sh('git', '-C', SCRATCH, 'apply', p)
        if r.returncode:
            print(f'{name}: PATCH DOES NOT APPLY: {r.stderr.strip()[:200]}')
            continue
        fired, errs, details = [], [], []
        from concurrent.futures import ThreadPoolExecutor
        plist = [target] if target_only else props
        with ThreadPoolExecutor(max_workers=14) as ex:
            results = list(ex.map(lambda pid: sh('/venv/bin/python', os.path.join(ROOT, 'check.py'), pid, '--repo', SCRATCH, '--no-evidence'), plist))
        for pid, rr in zip(plist, results):
            if rr.returncode == 1:
                fired.append(pid)
            elif rr.returncode == 2:
                errs.append(pid)
            if rr.returncode and pid == target:
                details = [l for l in rr.stdout.splitlines() if 'rule ' in l or 'ANALYSIS-ERROR' in l][:4]
            elif rr.returncode and '--details' in sys.argv:
                details += [pid + ' ' + l.strip() for l in rr.stdout.splitlines() if 'rule ' in l or 'ANALYSIS-ERROR' in l][:2]
        sh('git', '-C', SCRATCH, 'checkout', '--', '.')
        status = 'CAUGHT' if target in fired else ('ERROR ' if target in errs else 'MISSED')
        if status != 'CAUGHT':
            missed += 1
        print(f'{name:12s} target={target} {status} fired={fired} errors={errs} :: {meta.get("summary", "")[:110]}')
        for l in details:
            print('      ', l[:220])
    print('not caught:', missed)
    return 0


if __name__ == '__main__':
    sys.exit(main())
