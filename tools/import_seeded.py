#!/venv/bin/python
"""Developer tool: copy verified sub-agent changes from /tmp/mut into /verif/seeded/<id>/ and record which
rules report them (patch applied to a scratch worktree, never to /repo)."""
import glob, json, os, re, shutil, subprocess, sys
ROOT = os.path.dirname(os.path.dirname(os.path.abspath(__file__)))
SCRATCH = '/tmp/wt/scratch'
SRC = sys.argv[1] if len(sys.argv) > 1 else '/tmp/mut'
OFFSET = int(sys.argv[2]) if len(sys.argv) > 2 else 0
ROUND = sys.argv[3] if len(sys.argv) > 3 else '1'
FIRST = json.load(open(os.path.join(SRC, 'firstrun.json'))) if os.path.exists(os.path.join(SRC, 'firstrun.json')) else {}

def sh(*a):
    return subprocess.run(a, capture_output=True, text=True)

for p in sorted(glob.glob(os.path.join(SRC, 'C*', '*', 'patch.diff'))):
    d = os.path.dirname(p)
    pid, k = d.split('/')[-2:]
    v = json.load(open(os.path.join(d, 'verify.json')))
    if not (v.get('applies') and v['suite'].startswith('103 passed') and v['demo_rc_with_change'] != 0 and v['demo_rc_baseline'] == 0):
        print('SKIP (not verified)', d, v)
        continue
    meta = json.load(open(os.path.join(d, 'meta.json')))
    out = os.path.join(ROOT, 'seeded', f'{pid}-{int(k) + OFFSET}')
    os.makedirs(out, exist_ok=True)
    shutil.copy(p, os.path.join(out, 'patch.diff'))
    demo = 'demo.py' if os.path.exists(os.path.join(d, 'demo.py')) else 'test_demo.py'
    shutil.copy(os.path.join(d, demo), os.path.join(out, demo))
    sh('git', '-C', SCRATCH, 'checkout', '--', '.')
    r = sh('git', '-C', SCRATCH, 'apply', p)
    rebased = False
    if r.returncode != 0:
        # the patch was written against an older baseline (before a later fix: commit): rebase it with a 3-way apply
        r = sh('git', '-C', SCRATCH, 'apply', '--3way', p)
        changed = sh('git', '-C', SCRATCH, 'diff', 'HEAD', '--name-only').stdout.split()
        conflict = any('<<<<<<<' in open(os.path.join(SCRATCH, f)).read() for f in changed)
        if r.returncode != 0 or conflict:
            sh('git', '-C', SCRATCH, 'reset', '-q'); sh('git', '-C', SCRATCH, 'checkout', '--', '.')
            print('NEEDS MANUAL REBASE', d)
            continue
        open(os.path.join(out, 'patch.diff'), 'w').write(sh('git', '-C', SCRATCH, 'diff', 'HEAD').stdout)
        sh('git', '-C', SCRATCH, 'reset', '-q')
        rebased = True
    rr = sh('/venv/bin/python', os.path.join(ROOT, 'check.py'), pid, '--repo', SCRATCH, '--no-evidence')
    sh('git', '-C', SCRATCH, 'checkout', '--', '.')
    rules = sorted(set(re.findall(r'rule ([A-Z0-9][A-Z0-9.\-]+):', rr.stdout)))
    base_commit = sh('git', '-C', '/repo', 'rev-parse', '--short', 'HEAD').stdout.strip()
    new = {
        'property': pid,
        'summary': meta.get('summary'),
        'files': meta.get('files'),
        'mechanism': meta.get('mechanism'),
        'needs_to_manifest': meta.get('needs_to_manifest'),
        'round': ROUND,
        'first_run': FIRST.get(pid, [None] * 9)[int(k) - 1] if FIRST else None,
        'rebased': rebased,
        'origin': 'written by an independent sub-agent that saw only the property text and a scratch worktree (nothing from /verif)',
        'baseline_commit': base_commit,
        'what_was_run': {
            'procedure': 'in a scratch git worktree of /repo: git apply patch.diff; full test-suite; demo; git checkout -- .; demo again',
            'suite_with_change': v['suite'],
            'demo_exit_with_change': v['demo_rc_with_change'],
            'demo_exit_on_baseline': v['demo_rc_baseline'],
            'demo_file': demo,
        },
        'check_result': {
            'command': f'/venv/bin/python check.py {pid} --repo <scratch worktree with the patch applied>',
            'exit_status': rr.returncode,
            'rules_reporting': rules,
        },
    }
    json.dump(new, open(os.path.join(out, 'meta.json'), 'w'), indent=1)
    print(pid, k, rr.returncode, rules)
