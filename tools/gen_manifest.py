#!/usr/bin/env python3
"""Regenerates /verif/MANIFEST.json from the property table in lt_static/registry.py.

Run with /venv/bin/python tools/gen_manifest.py ; validates against the schema when
jsonschema is importable (python3-vt), otherwise performs the structural checks by hand.
"""
import json
import os
import sys

HERE = os.path.dirname(os.path.abspath(__file__))
ROOT = os.path.dirname(HERE)
sys.path.insert(0, ROOT)

from lt_static import registry  # noqa: E402


def main() -> int:
    manifest = registry.build_manifest()
    path = os.path.join(ROOT, 'MANIFEST.json')
    with open(path, 'w') as f:
        json.dump(manifest, f, indent=1)
        f.write('\n')
    try:
        import jsonschema  # type: ignore
        schema = json.load(open('/root/.vp/MANIFEST.schema.json'))
        jsonschema.validate(manifest, schema)
        print('MANIFEST.json written and validated:', len(manifest['checks']), 'checks,',
              len(manifest.get('not_applicable', [])), 'not applicable')
    except ImportError:
        print('MANIFEST.json written (jsonschema not importable here; not validated)')
    return 0


if __name__ == '__main__':
    sys.exit(main())
