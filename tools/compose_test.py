#!/venv/bin/python
"""Developer tool: composition test.  A seeded (property-breaking) change must still be reported when it is applied on top
of a behaviour-preserving refactoring - the canonicalisation layer must not hide real defects.

For every seeded change, up to K refactorings that touch one of the same files and still let the seeded patch apply are tried
(in memory; nothing is written).  Prints the pairs where the target property's check stays silent.
usage: compose_test.py [K] [seed]
"""
import glob
import json
import multiprocessing
import os
import random
import sys

HERE = os.path.dirname(os.path.abspath(__file__))
ROOT = os.path.dirname(HERE)
sys.path.insert(0, ROOT)

from lt_static import runner, selftest  # noqa: E402
from lt_static.model import Program  # noqa: E402
from lt_static.engine import ERROR, VIOLATED  # noqa: E402

G = {}


def files_of(patch: str) -> set:
    return {ln[6:].strip() for ln in patch.splitlines() if ln.startswith('+++ b/')}


def one(job):
    sid, rid = job
    spatch, pid, rules = G['seeded'][sid]
    rpatch = G['refs'][rid]
    try:
        src = selftest.apply_unified_diff(G['sources'], rpatch)
        src2 = selftest.apply_unified_diff(src, spatch)
    except selftest.EditError:
        return sid, rid, 'n/a', ''
    # base = refactored tree (must be silent), mutated = refactored + seeded
    bobs, _c, _s = runner.run_rules(Program.from_sources(src), pid, 'quick')
    bv, be = selftest._verdicts(bobs)
    obs, _c, _s = runner.run_rules(Program.from_sources(src2), pid, 'quick')
    new_v = [o for o in obs if o.verdict == VIOLATED and o.key not in bv and o.key not in G['base'][pid][0]]
    new_e = [o for o in obs if o.verdict == ERROR and o.key not in be]
    if new_v:
        return sid, rid, 'caught', new_v[0].rule
    if new_e:
        return sid, rid, 'error', new_e[0].rule + ': ' + new_e[0].message[:100]
    return sid, rid, 'MISSED', ''


def main():
    K = int(sys.argv[1]) if len(sys.argv) > 1 else 2
    seed = int(sys.argv[2]) if len(sys.argv) > 2 else 0
    rnd = random.Random(seed)
    runner.load_rules()
    prog = Program.from_dir('/repo')
    sources = {m.path: m.source for m in prog.modules.values()}
    seeded, refs = {}, {}
    for m in sorted(glob.glob(os.path.join(ROOT, 'seeded', '*', 'meta.json'))):
        d = os.path.dirname(m)
        j = json.load(open(m))
        seeded[os.path.basename(d)] = (open(os.path.join(d, 'patch.diff')).read(), j['property'], j.get('check_result', {}).get('rules_reporting', []))
    for m in sorted(glob.glob(os.path.join(ROOT, 'refactors', '*', 'patch.diff'))):
        refs[os.path.basename(os.path.dirname(m))] = open(m).read()
    base = {}
    for pid in sorted({v[1] for v in seeded.values()}):
        bo, _c, _s = runner.run_rules(Program.from_sources(sources), pid, 'quick')
        base[pid] = selftest._verdicts(bo)
    G.update(sources=sources, seeded=seeded, refs=refs, base=base)
    rfiles = {r: files_of(p) for r, p in refs.items()}
    jobs = []
    for sid, (sp, pid, _r) in seeded.items():
        sf = files_of(sp)
        cands = [r for r in refs if rfiles[r] & sf]
        rnd.shuffle(cands)
        jobs.extend((sid, r) for r in cands[:K * 3])
    with multiprocessing.get_context('fork').Pool(os.cpu_count() or 1) as pool:
        res = pool.map(one, jobs, chunksize=4)
    per = {}
    for sid, rid, st, info in res:
        per.setdefault(sid, []).append((rid, st, info))
    tried = caught = 0
    for sid in sorted(per):
        done = 0
        for rid, st, info in per[sid]:
            if st == 'n/a' or done >= K:
                continue
            done += 1
            tried += 1
            if st == 'caught':
                caught += 1
            else:
                print(f'{st:7s} seeded {sid} on top of refactoring {rid}: {info}')
    print(f'pairs tried: {tried}, seeded change still reported: {caught}')
    return 0


if __name__ == '__main__':
    sys.exit(main())
