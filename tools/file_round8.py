#!/venv/bin/python
"""Developer tool (round 8, mini round): verify a sub-agent change in a fresh scratch worktree of /repo
(apply, full suite, demo with the change, demo on the baseline), run the property's check against the
patched scratch tree, and file it as /verif/seeded/<id>/.  Usage: file_round8.py <PID> <src dir> <summary> <needs>"""
import json, os, re, shutil, subprocess, sys
ROOT = os.path.dirname(os.path.dirname(os.path.abspath(__file__)))
pid, src, summary, needs = sys.argv[1:5]
ROUND = sys.argv[5] if len(sys.argv) > 5 else '8'
SCRATCH = f'/tmp/wt/verify-{pid}'

def sh(*a, cwd=None):
    return subprocess.run(a, capture_output=True, text=True, cwd=cwd)

sh('git', '-C', '/repo', 'worktree', 'add', '-q', '--detach', SCRATCH, 'HEAD')
try:
    patch = os.path.join(src, 'patch.diff')
    assert sh('git', '-C', SCRATCH, 'apply', patch).returncode == 0, 'patch does not apply'
    shutil.copy(os.path.join(src, 'demo.py'), os.path.join(SCRATCH, 'demo.py'))
    suite = sh('/venv/bin/python', '-m', 'pytest', '-q', '-p', 'no:cacheprovider', '--timeout=900', cwd=SCRATCH)
    suite_line = suite.stdout.strip().splitlines()[-1]
    rc_with = sh('/venv/bin/python', 'demo.py', cwd=SCRATCH).returncode
    rr = sh('/venv/bin/python', os.path.join(ROOT, 'check.py'), pid, '--repo', SCRATCH, '--no-evidence')
    sh('git', '-C', SCRATCH, 'checkout', '--', '.')
    rc_base = sh('/venv/bin/python', 'demo.py', cwd=SCRATCH).returncode
    print(pid, 'suite:', suite_line, 'demo with change:', rc_with, 'baseline:', rc_base, 'check exit:', rr.returncode)
    assert suite_line.startswith('103 passed') and rc_with != 0 and rc_base == 0, 'not verified'
    n = 1 + max(int(d.split('-')[1]) for d in os.listdir(os.path.join(ROOT, 'seeded')) if d.startswith(pid + '-'))
    out = os.path.join(ROOT, 'seeded', f'{pid}-{n}')
    os.makedirs(out)
    shutil.copy(patch, os.path.join(out, 'patch.diff'))
    shutil.copy(os.path.join(src, 'demo.py'), os.path.join(out, 'demo.py'))
    files = re.findall(r'^\+\+\+ b/(\S+)', open(patch).read(), re.M)
    rules = sorted(set(re.findall(r'rule ([A-Z0-9][A-Z0-9.\-]+):', rr.stdout)))
    meta = {
        'property': pid, 'summary': summary, 'files': files, 'needs_to_manifest': needs, 'round': ROUND,
        'first_run': 'reported' if rr.returncode == 1 else ('failed closed' if rr.returncode == 2 else 'missed'),
        'rebased': False,
        'origin': 'written by an independent sub-agent that saw only the property text and a scratch worktree (nothing from /verif)',
        'baseline_commit': sh('git', '-C', '/repo', 'rev-parse', '--short', 'HEAD').stdout.strip(),
        'what_was_run': {
            'procedure': 'in a fresh scratch git worktree of /repo: git apply patch.diff; full test-suite; demo; git checkout -- .; demo again',
            'suite_with_change': suite_line, 'demo_exit_with_change': rc_with, 'demo_exit_on_baseline': rc_base,
            'demo_file': 'demo.py'},
        'check_result': {
            'command': f'/venv/bin/python check.py {pid} --repo <scratch worktree with the patch applied>',
            'exit_status': rr.returncode, 'rules_reporting': rules},
    }
    json.dump(meta, open(os.path.join(out, 'meta.json'), 'w'), indent=1)
    print('filed', out, rules)
finally:
    sh('git', '-C', '/repo', 'worktree', 'remove', '--force', SCRATCH)
