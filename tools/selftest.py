#!/venv/bin/python
"""Developer tool: run the variant corpus (all, or those matching the given substrings)."""
import os
import sys
sys.path.insert(0, os.path.dirname(os.path.dirname(os.path.abspath(__file__))))
from lt_static import selftest  # noqa: E402
sys.exit(selftest.main(sys.argv))
