"""E1 - program model of the labtech package: modules, classes, functions (nested closures
included), resolved imports, class hierarchy, the Task-protocol attachment table, lightweight
types and a resolved call graph.

Nothing here imports or executes labtech; the input is a {relative path: source} mapping.
"""
from __future__ import annotations

import ast
import os
from dataclasses import dataclass, field
from typing import Iterable, Iterator, Optional

PKG = 'labtech'

ANCHOR_MODULES = ['lab', 'tasks', 'types', 'cache', 'storage', 'serialization', 'utils', 'diagram',
                  'runners.base', 'runners.serial', 'runners.process']


class AnalysisError(Exception):
    """The analysis cannot be carried out (anchor missing, parse failure, internal limit)."""


# ----------------------------------------------------------------------------------------
# entities


@dataclass
class ModuleInfo:
    name: str
    path: str
    tree: ast.Module
    source: str
    imports: dict[str, str] = field(default_factory=dict)
    consts: dict[str, ast.expr] = field(default_factory=dict)
    is_pkg: bool = False

    def __repr__(self) -> str:
        return f'<module {self.name}>'


@dataclass
class ClassInfo:
    qualname: str
    name: str
    module: ModuleInfo
    node: ast.ClassDef
    bases: list[str] = field(default_factory=list)
    methods: dict[str, 'FuncInfo'] = field(default_factory=dict)
    consts: dict[str, ast.expr] = field(default_factory=dict)
    annotations: dict[str, ast.expr] = field(default_factory=dict)

    def __hash__(self) -> int:
        return hash(self.qualname)

    def __repr__(self) -> str:
        return f'<class {self.qualname}>'

    def __eq__(self, other) -> bool:
        return isinstance(other, ClassInfo) and other.qualname == self.qualname


@dataclass
class FuncInfo:
    qualname: str
    name: str
    module: ModuleInfo
    node: ast.FunctionDef
    cls: Optional[ClassInfo] = None
    parent: Optional['FuncInfo'] = None
    nested: dict[str, 'FuncInfo'] = field(default_factory=dict)
    decorators: list[str] = field(default_factory=list)

    def __hash__(self) -> int:
        return hash(self.qualname)

    def __eq__(self, other) -> bool:
        return isinstance(other, FuncInfo) and other.qualname == self.qualname

    def __repr__(self) -> str:
        return f'<func {self.qualname}>'

    @property
    def short(self) -> str:
        return self.qualname[len(PKG) + 1:] if self.qualname.startswith(PKG + '.') else self.qualname

    @property
    def is_abstract(self) -> bool:
        return any(d.endswith('abstractmethod') for d in self.decorators)

    @property
    def is_static(self) -> bool:
        return any(d.endswith('staticmethod') for d in self.decorators)

    @property
    def is_classmethod(self) -> bool:
        return any(d.endswith('classmethod') for d in self.decorators)

    @property
    def is_property(self) -> bool:
        return any(d.endswith('property') for d in self.decorators)

    @property
    def params(self) -> list[ast.arg]:
        a = self.node.args
        return list(a.posonlyargs) + list(a.args) + list(a.kwonlyargs)

    @property
    def self_name(self) -> Optional[str]:
        if self.cls is None or self.is_static:
            return None
        ps = self.node.args.posonlyargs + self.node.args.args
        return ps[0].arg if ps else None

    def where(self, node: Optional[ast.AST] = None) -> str:
        line = getattr(node, 'lineno', None) if node is not None else self.node.lineno
        return f'{self.module.path}:{line}'

    @property
    def is_generator(self) -> bool:
        for n in walk_local(self.node):
            if isinstance(n, (ast.Yield, ast.YieldFrom)):
                return True
        return False


def walk_local(fn: ast.AST) -> Iterator[ast.AST]:
    """ast.walk restricted to the body of one function: does not descend into nested
    function/class definitions or lambdas (but does yield the nested def node itself)."""
    stack = list(ast.iter_child_nodes(fn))
    while stack:
        n = stack.pop()
        yield n
        if isinstance(n, (ast.FunctionDef, ast.AsyncFunctionDef, ast.ClassDef, ast.Lambda)):
            continue
        stack.extend(ast.iter_child_nodes(n))


def dotted(expr: ast.AST) -> Optional[str]:
    """'a.b.c' for Name/Attribute chains, else None."""
    parts = []
    while isinstance(expr, ast.Attribute):
        parts.append(expr.attr)
        expr = expr.value
    if isinstance(expr, ast.Name):
        parts.append(expr.id)
        return '.'.join(reversed(parts))
    return None


def dump(node: ast.AST) -> str:
    return ast.dump(node, annotate_fields=False, include_attributes=False)


def src(node: ast.AST) -> str:
    try:
        return ast.unparse(node)
    except Exception:  # pragma: no cover
        return dump(node)


# ----------------------------------------------------------------------------------------
# program


class Program:

    def __init__(self, sources: dict[str, str], trees: Optional[dict[str, ast.Module]] = None):
        """sources: {'labtech/lab.py': '...', ...} (paths relative to the repository root);
        trees: already parsed (canonicalised) module trees to use instead of parsing."""
        self.sources = sources
        self.canon_report: dict = {}
        self.modules: dict[str, ModuleInfo] = {}
        self.classes: dict[str, ClassInfo] = {}
        self.funcs: dict[str, FuncInfo] = {}
        self._func_of_node: dict[int, FuncInfo] = {}
        self.parse_errors: list[str] = []
        for path in sorted(sources):
            modname = path[:-3].replace('/', '.')
            is_pkg = False
            if modname.endswith('.__init__'):
                modname = modname[:-len('.__init__')]
                is_pkg = True
            try:
                tree = trees[path] if trees is not None and path in trees else ast.parse(sources[path], filename=path)
            except SyntaxError as ex:
                self.parse_errors.append(f'{path}: {ex}')
                continue
            self.modules[modname] = ModuleInfo(modname, path, tree, sources[path], is_pkg=is_pkg)
        for m in self.modules.values():
            self._index_module(m)
        for c in self.classes.values():
            c.bases = [b for b in (self._resolve_base(c, bexpr) for bexpr in c.node.bases) if b]
        self.attachments: dict[str, FuncInfo] = {}
        self.attachment_sites: dict[str, ast.AST] = {}
        self._extract_attachments()
        self._self_attr_types: dict[tuple[str, str], Optional[str]] = {}

    # -- loading -------------------------------------------------------------------------

    @staticmethod
    def from_dir(repo_root: str, canonical: bool = True) -> 'Program':
        sources = Program.read_sources(repo_root)
        if canonical:
            from .canon import canonicalise
            return canonicalise(sources)[0]
        return Program(sources)

    @staticmethod
    def from_sources(sources: dict[str, str], canonical: bool = True) -> 'Program':
        if canonical:
            from .canon import canonicalise
            return canonicalise(sources)[0]
        return Program(sources)

    @staticmethod
    def read_sources(repo_root: str) -> dict[str, str]:
        sources = {}
        pkg_dir = os.path.join(repo_root, PKG)
        for dirpath, _dirs, files in os.walk(pkg_dir):
            for fn in files:
                if fn.endswith('.py'):
                    full = os.path.join(dirpath, fn)
                    rel = os.path.relpath(full, repo_root)
                    with open(full, encoding='utf-8') as f:
                        sources[rel] = f.read()
        return sources

    def check_anchor_modules(self) -> None:
        if self.parse_errors:
            raise AnalysisError('source does not parse: ' + '; '.join(self.parse_errors))
        missing = [m for m in ANCHOR_MODULES if f'{PKG}.{m}' not in self.modules]
        if missing:
            raise AnalysisError(f'anchor modules missing from /repo/labtech: {missing}')

    def _index_module(self, m: ModuleInfo) -> None:
        pkg_of_module = m.name if m.is_pkg else m.name.rsplit('.', 1)[0]
        for node in ast.walk(m.tree):
            if isinstance(node, ast.Import):
                for a in node.names:
                    if a.asname:
                        m.imports.setdefault(a.asname, a.name)
                    else:
                        m.imports.setdefault(a.name.split('.')[0], a.name.split('.')[0])
            elif isinstance(node, ast.ImportFrom):
                if node.level:
                    base = pkg_of_module.split('.')
                    if node.level > 1:
                        base = base[:-(node.level - 1)]
                    mod = '.'.join(base + ([node.module] if node.module else []))
                else:
                    mod = node.module or ''
                for a in node.names:
                    m.imports.setdefault(a.asname or a.name, f'{mod}.{a.name}')
        for stmt in m.tree.body:
            if isinstance(stmt, ast.Assign) and len(stmt.targets) == 1 and isinstance(stmt.targets[0], ast.Name):
                m.consts[stmt.targets[0].id] = stmt.value
            elif isinstance(stmt, ast.AnnAssign) and isinstance(stmt.target, ast.Name) and stmt.value is not None:
                m.consts[stmt.target.id] = stmt.value
        self._index_body(m, m.tree.body, prefix=m.name, cls=None, parent=None)

    def _index_body(self, m: ModuleInfo, body: list[ast.stmt], prefix: str,
                    cls: Optional[ClassInfo], parent: Optional[FuncInfo]) -> None:
        for stmt in body:
            if isinstance(stmt, (ast.FunctionDef, ast.AsyncFunctionDef)):
                self._index_func(m, stmt, prefix, cls, parent)
            elif isinstance(stmt, ast.ClassDef):
                qn = f'{prefix}.{stmt.name}'
                ci = ClassInfo(qn, stmt.name, m, stmt)
                self.classes[qn] = ci
                for s in stmt.body:
                    if isinstance(s, ast.Assign) and len(s.targets) == 1 and isinstance(s.targets[0], ast.Name):
                        ci.consts[s.targets[0].id] = s.value
                    elif isinstance(s, ast.AnnAssign) and isinstance(s.target, ast.Name):
                        ci.annotations[s.target.id] = s.annotation
                        if s.value is not None:
                            ci.consts[s.target.id] = s.value
                self._index_body(m, stmt.body, prefix=qn, cls=ci, parent=None)
            elif isinstance(stmt, (ast.If, ast.Try, ast.With, ast.For, ast.While)):
                # definitions under module-level control flow
                for sub in ast.iter_child_nodes(stmt):
                    if isinstance(sub, ast.stmt):
                        self._index_body(m, [sub], prefix, cls, parent)
                    elif isinstance(sub, ast.ExceptHandler):
                        self._index_body(m, sub.body, prefix, cls, parent)

    def _index_func(self, m: ModuleInfo, node, prefix: str, cls: Optional[ClassInfo],
                    parent: Optional[FuncInfo]) -> None:
        qn = f'{prefix}.{node.name}'
        decos = [dotted(d.func if isinstance(d, ast.Call) else d) or '?' for d in node.decorator_list]
        fi = FuncInfo(qn, node.name, m, node, cls=cls, parent=parent, decorators=decos)
        self.funcs[qn] = fi
        self._func_of_node[id(node)] = fi
        if cls is not None and parent is None:
            cls.methods[node.name] = fi
        if parent is not None:
            parent.nested[node.name] = fi
        # nested defs (closures) anywhere in the body
        for sub in walk_local(node):
            if isinstance(sub, (ast.FunctionDef, ast.AsyncFunctionDef)):
                # only direct children functions of this function (walk_local stops at nested defs)
                self._index_func(m, sub, f'{qn}.<locals>', cls=None, parent=fi)

    # -- name resolution -----------------------------------------------------------------

    def _resolve_base(self, c: ClassInfo, bexpr: ast.expr) -> Optional[str]:
        if isinstance(bexpr, ast.Subscript):
            bexpr = bexpr.value
        d = dotted(bexpr)
        if d is None:
            return None
        return self.resolve_dotted(c.module, d)

    def resolve_dotted(self, m: ModuleInfo, name: str) -> str:
        """Resolve a dotted name used in module m to a canonical dotted name: package entities
        to their qualname ('labtech.types.Runner'), external ones to 'module.attr'."""
        head, _, rest = name.partition('.')
        target: Optional[str] = None
        if f'{m.name}.{head}' in self.classes or f'{m.name}.{head}' in self.funcs or head in m.consts and head not in m.imports:
            target = f'{m.name}.{head}'
        elif head in m.imports:
            target = m.imports[head]
        else:
            target = head
        full = f'{target}.{rest}' if rest else target
        return self._canonical(full)

    def _canonical(self, full: str, depth: int = 0) -> str:
        """Follow re-exports through package __init__ modules."""
        if depth > 5:
            return full
        if full in self.classes or full in self.funcs or full in self.modules:
            return full
        # split into module prefix + attribute path
        parts = full.split('.')
        for i in range(len(parts) - 1, 0, -1):
            modname = '.'.join(parts[:i])
            if modname in self.modules:
                m = self.modules[modname]
                attr = parts[i]
                rest = parts[i + 1:]
                if attr in m.imports:
                    tgt = m.imports[attr]
                    return self._canonical('.'.join([tgt] + rest), depth + 1)
                return full
        return full

    def func_of_node(self, node: ast.AST) -> Optional[FuncInfo]:
        return self._func_of_node.get(id(node))

    def func(self, short: str) -> FuncInfo:
        """Anchor lookup: 'lab.TaskState.get_ready_tasks' (package-relative)."""
        qn = f'{PKG}.{short}'
        if qn not in self.funcs:
            raise AnalysisError(f'anchor function {short} not found in /repo/labtech')
        return self.funcs[qn]

    def has_func(self, short: str) -> bool:
        return f'{PKG}.{short}' in self.funcs

    def cls(self, short: str) -> ClassInfo:
        qn = f'{PKG}.{short}'
        if qn not in self.classes:
            raise AnalysisError(f'anchor class {short} not found in /repo/labtech')
        return self.classes[qn]

    def module(self, short: str) -> ModuleInfo:
        qn = f'{PKG}.{short}' if short else PKG
        if qn not in self.modules:
            raise AnalysisError(f'anchor module {short} not found in /repo/labtech')
        return self.modules[qn]

    # -- hierarchy -----------------------------------------------------------------------

    def mro(self, c: ClassInfo) -> list[ClassInfo]:
        out: list[ClassInfo] = []
        seen = set()

        def go(x: ClassInfo):
            if x.qualname in seen:
                return
            seen.add(x.qualname)
            out.append(x)
            for b in x.bases:
                if b in self.classes:
                    go(self.classes[b])
        go(c)
        return out

    def is_subclass(self, c: ClassInfo, base_qn: str) -> bool:
        return any(x.qualname == base_qn for x in self.mro(c))

    def subclasses(self, base_qn: str, strict: bool = False) -> list[ClassInfo]:
        out = []
        for c in self.classes.values():
            if self.is_subclass(c, base_qn) and not (strict and c.qualname == base_qn):
                out.append(c)
        return sorted(out, key=lambda c: c.qualname)

    def find_method(self, c: ClassInfo, name: str) -> Optional[FuncInfo]:
        for x in self.mro(c):
            if name in x.methods:
                return x.methods[name]
        return None

    def is_abstract_class(self, c: ClassInfo) -> bool:
        """A class that still has an abstract method after MRO resolution."""
        names = set()
        for x in self.mro(c):
            names.update(x.methods)
        for n in names:
            f = self.find_method(c, n)
            if f is not None and f.is_abstract:
                return True
        return False

    def concrete_subclasses(self, base_qn: str) -> list[ClassInfo]:
        return [c for c in self.subclasses(base_qn) if not self.is_abstract_class(c)]

    def is_protocol(self, c: ClassInfo) -> bool:
        return any(b.split('.')[-1] == 'Protocol' for b in c.bases)

    def implementations(self, base_qn: str, method: str) -> list[FuncInfo]:
        """Distinct non-abstract bodies that can run for base.method() on any package subclass.  For a typing.Protocol
        the candidates are structural: every package class that defines all of the protocol's methods."""
        out: dict[str, FuncInfo] = {}
        base = self.classes.get(base_qn)
        if base is not None and self.is_protocol(base):
            need = {m for m in base.methods if not m.startswith('__')}
            for c in self.classes.values():
                if c is base or self.is_protocol(c):
                    continue
                if all(self.find_method(c, m) is not None for m in need):
                    f = self.find_method(c, method)
                    if f is not None and not f.is_abstract:
                        out[f.qualname] = f
            return [out[k] for k in sorted(out)]
        for c in self.subclasses(base_qn):
            f = self.find_method(c, method)
            if f is not None and not f.is_abstract:
                out[f.qualname] = f
        return [out[k] for k in sorted(out)]

    def class_const(self, c: ClassInfo, name: str) -> Optional[ast.expr]:
        for x in self.mro(c):
            if name in x.consts:
                return x.consts[name]
        return None

    # -- Task protocol attachment table ----------------------------------------------------

    def _extract_attachments(self) -> None:
        """From tasks.task.<locals>.decorator: every `cls.<name> = <expr>`."""
        deco = self.funcs.get(f'{PKG}.tasks.task.<locals>.decorator')
        if deco is None:
            return
        for n in walk_local(deco.node):
            if isinstance(n, ast.Assign) and len(n.targets) == 1:
                t = n.targets[0]
                if isinstance(t, ast.Attribute) and isinstance(t.value, ast.Name) and t.value.id == 'cls':
                    v = n.value
                    if isinstance(v, ast.Call) and dotted(v.func) == 'property' and v.args:
                        v = v.args[0]
                    d = dotted(v)
                    if d is not None:
                        qn = self.resolve_dotted(deco.module, d)
                        if qn in self.funcs:
                            self.attachments[t.attr] = self.funcs[qn]
                            self.attachment_sites[t.attr] = n

    # -- lightweight types ---------------------------------------------------------------

    TASK = f'{PKG}.types.Task'

    def annotation_type(self, m: ModuleInfo, ann: Optional[ast.expr]) -> Optional[str]:
        """Type named by an annotation, generics stripped; Optional[X] -> X; Type[X] -> 'type:X'."""
        if ann is None:
            return None
        if isinstance(ann, ast.Constant) and isinstance(ann.value, str):
            try:
                ann = ast.parse(ann.value, mode='eval').body
            except SyntaxError:
                return None
        if isinstance(ann, ast.BinOp) and isinstance(ann.op, ast.BitOr):
            cands = []
            for side in (ann.left, ann.right):
                if not (isinstance(side, ast.Constant) and side.value is None):
                    t = self.annotation_type(m, side)
                    if t:
                        cands.append(t)
            for t in cands:
                if t in self.classes:
                    return t
            return cands[0] if cands else None
        if isinstance(ann, ast.Subscript):
            head = dotted(ann.value)
            if head in ('Optional', 'typing.Optional'):
                return self.annotation_type(m, ann.slice)
            if head in ('Type', 'type', 'typing.Type'):
                inner = self.annotation_type(m, ann.slice)
                return f'type:{inner}' if inner else None
            if head in ('Union', 'typing.Union'):
                elts = ann.slice.elts if isinstance(ann.slice, ast.Tuple) else [ann.slice]
                for e in elts:
                    t = self.annotation_type(m, e)
                    if t and t in self.classes:
                        return t
                return None
            return self.annotation_type(m, ann.value)
        d = dotted(ann)
        if d is None:
            return None
        qn = self.resolve_dotted(m, d)
        # TypeVar with a bound in the package (TaskT -> Task)
        if qn not in self.classes:
            mod, _, attr = qn.rpartition('.')
            if mod in self.modules and attr in self.modules[mod].consts:
                v = self.modules[mod].consts[attr]
                if isinstance(v, ast.Call) and dotted(v.func) in ('TypeVar', 'typing.TypeVar'):
                    for kw in v.keywords:
                        if kw.arg == 'bound':
                            return self.annotation_type(self.modules[mod], kw.value)
                    return None
        return qn

    def element_type(self, m: ModuleInfo, ann: Optional[ast.expr]) -> Optional[str]:
        """Element type of Sequence[X] / Iterable[X] / list[X] / set[X] / OrderedSet[X] / dict[K, V] (K)."""
        if isinstance(ann, ast.Constant) and isinstance(ann.value, str):
            try:
                ann = ast.parse(ann.value, mode='eval').body
            except SyntaxError:
                return None
        if isinstance(ann, ast.Subscript):
            sl = ann.slice
            if isinstance(sl, ast.Tuple) and sl.elts:
                sl = sl.elts[0]
            return self.annotation_type(m, sl)
        return None

    def self_attr_type(self, c: ClassInfo, attr: str) -> Optional[str]:
        key = (c.qualname, attr)
        if key in self._self_attr_types:
            return self._self_attr_types[key]
        self._self_attr_types[key] = None
        res: Optional[str] = None
        for x in self.mro(c):
            if attr in x.annotations:
                res = self.annotation_type(x.module, x.annotations[attr])
                if res:
                    break
            init = x.methods.get('__init__')
            if init is not None:
                sn = init.self_name
                for n in walk_local(init.node):
                    tgt = None
                    val = None
                    ann = None
                    if isinstance(n, ast.Assign) and len(n.targets) == 1:
                        tgt, val = n.targets[0], n.value
                    elif isinstance(n, ast.AnnAssign):
                        tgt, val, ann = n.target, n.value, n.annotation
                    if isinstance(tgt, ast.Attribute) and isinstance(tgt.value, ast.Name) \
                            and tgt.value.id == sn and tgt.attr == attr:
                        if ann is not None:
                            res = self.annotation_type(x.module, ann)
                        if not res and val is not None:
                            res = self.type_of(val, init)
                        if res:
                            break
                if res:
                    break
        self._self_attr_types[key] = res
        return res

    def type_of(self, expr: ast.AST, fn: FuncInfo, _depth: int = 0) -> Optional[str]:
        """Best-effort static type of expr inside fn: package class qualname, TASK, dotted
        external name, or None."""
        if _depth > 6:
            return None
        if isinstance(expr, ast.Name):
            return self._name_type(expr.id, fn, _depth)
        if isinstance(expr, ast.Attribute):
            base_t = self.type_of(expr.value, fn, _depth + 1)
            if base_t and base_t.startswith('type:') and base_t[5:] in self.classes:
                # class-level annotated attribute read through the class object (task_type._lt)
                c = self.classes[base_t[5:]]
                for x in self.mro(c):
                    if expr.attr in x.annotations:
                        t = self.annotation_type(x.module, x.annotations[expr.attr])
                        if t:
                            return t
            if base_t and base_t in self.classes:
                c = self.classes[base_t]
                for x in self.mro(c):
                    if expr.attr in x.annotations:
                        t = self.annotation_type(x.module, x.annotations[expr.attr])
                        if t:
                            return t
                return self.self_attr_type(c, expr.attr)
            d = dotted(expr)
            if d is not None:
                r = self.resolve_dotted(fn.module, d)
                if r in self.classes:
                    return f'type:{r}'
            return None
        if isinstance(expr, ast.Call):
            if isinstance(expr.func, ast.Attribute):
                rt = self.type_of(expr.func.value, fn, _depth + 1)
                if rt and rt in self.classes:
                    dm = self.find_method(self.classes[rt], expr.func.attr)
                    if dm is not None:
                        t = self.annotation_type(dm.module, dm.node.returns)
                        if t:
                            return t
            callees = self.resolve_call(expr, fn, _depth + 1)
            for cal in callees:
                if cal in self.classes:
                    return cal
                if cal in self.funcs:
                    f = self.funcs[cal]
                    t = self.annotation_type(f.module, f.node.returns)
                    if t:
                        return t
            return None
        if isinstance(expr, ast.IfExp):
            return self.type_of(expr.body, fn, _depth + 1) or self.type_of(expr.orelse, fn, _depth + 1)
        if isinstance(expr, ast.BoolOp):
            for v in expr.values:
                t = self.type_of(v, fn, _depth + 1)
                if t:
                    return t
        return None

    def _name_type(self, name: str, fn: FuncInfo, depth: int) -> Optional[str]:
        f: Optional[FuncInfo] = fn
        while f is not None:
            if name == f.self_name and f.cls is not None:
                if f.is_classmethod:
                    return f'type:{f.cls.qualname}'
                return f.cls.qualname
            for a in f.params:
                if a.arg == name:
                    return self.annotation_type(f.module, a.annotation)
            for n in walk_local(f.node):
                if isinstance(n, ast.AnnAssign) and isinstance(n.target, ast.Name) and n.target.id == name:
                    t = self.annotation_type(f.module, n.annotation)
                    if t:
                        return t
            for n in walk_local(f.node):
                if isinstance(n, ast.Assign) and len(n.targets) == 1 and isinstance(n.targets[0], ast.Name) \
                        and n.targets[0].id == name:
                    t = self.type_of(n.value, f, depth + 1)
                    if t:
                        return t
                if isinstance(n, (ast.For, ast.comprehension)) and isinstance(n.target, ast.Name) \
                        and n.target.id == name:
                    t = self._iter_element_type(n.iter, f, depth + 1)
                    if t:
                        return t
                if isinstance(n, ast.withitem) and isinstance(n.optional_vars, ast.Name) \
                        and n.optional_vars.id == name:
                    t = self.type_of(n.context_expr, f, depth + 1)
                    if t:
                        return t
            f = f.parent
        # module-level name
        d = self.resolve_dotted(fn.module, name)
        if d in self.classes:
            return f'type:{d}'
        return None

    def _iter_element_type(self, it: ast.expr, fn: FuncInfo, depth: int) -> Optional[str]:
        if isinstance(it, ast.Name):
            f: Optional[FuncInfo] = fn
            while f is not None:
                for a in f.params:
                    if a.arg == it.id:
                        return self.element_type(f.module, a.annotation)
                for n in walk_local(f.node):
                    if isinstance(n, ast.AnnAssign) and isinstance(n.target, ast.Name) and n.target.id == it.id:
                        return self.element_type(f.module, n.annotation)
                f = f.parent
        if isinstance(it, ast.Call):
            d = dotted(it.func)
            if d and d.endswith('get_direct_dependencies'):
                return self.TASK
            if d == 'fields' or (d and d.endswith('.fields')):
                return 'dataclasses.Field'
        if isinstance(it, ast.Attribute) and isinstance(it.value, ast.Name):
            base_t = self._name_type(it.value.id, fn, depth + 1)
            if base_t in self.classes:
                c = self.classes[base_t]
                init = self.find_method(c, '__init__')
                if init is not None:
                    for n in walk_local(init.node):
                        if isinstance(n, ast.AnnAssign) and isinstance(n.target, ast.Attribute) \
                                and n.target.attr == it.attr:
                            return self.element_type(init.module, n.annotation)
        return None

    # -- call resolution -------------------------------------------------------------------

    BUILTIN_METHOD_NAMES = frozenset('''append add remove discard pop popleft clear update get items keys values
        setdefault extend insert start join close put get_nowait put_nowait encode decode format zfill
        startswith endswith split rsplit strip lower upper copy sort index count terminate is_alive kill
        open read write flush exists mkdir iterdir resolve is_dir unlink rmdir handle info debug error warning
        isoformat total_seconds fullmatch hexdigest'''.split())

    def _looks_like_task(self, expr: ast.AST, fn: FuncInfo) -> bool:
        return isinstance(expr, ast.Name) and 'task' in expr.id

    def resolve_call(self, call: ast.Call, fn: FuncInfo, _depth: int = 0, by_name: bool = True) -> list[str]:
        """Callee set of a call expression: package function/class qualnames, 'USER.run' for the
        opaque user task body, dotted external names, or '?.<attr>' when unresolved."""
        f = call.func
        if isinstance(f, ast.Name):
            # nested closure / enclosing function locals
            g: Optional[FuncInfo] = fn
            while g is not None:
                if f.id in g.nested:
                    return [g.nested[f.id].qualname]
                # local alias of a known callable is not tracked: fall through
                g = g.parent
            return [self.resolve_dotted(fn.module, f.id)]
        if isinstance(f, ast.Attribute):
            attr = f.attr
            # super().m()
            if isinstance(f.value, ast.Call) and dotted(f.value.func) == 'super' and fn.cls is not None:
                for x in self.mro(fn.cls)[1:]:
                    if attr in x.methods:
                        return [x.methods[attr].qualname]
                return [f'super.{attr}']
            d = dotted(f)
            if d is not None:
                head = d.split('.')[0]
                is_local = self._is_local_name(head, fn)
                if not is_local:
                    r = self.resolve_dotted(fn.module, d)
                    if r in self.funcs or r in self.classes:
                        return [r]
                    # Class.method
                    mod_cls, _, meth = r.rpartition('.')
                    if mod_cls in self.classes:
                        m = self.find_method(self.classes[mod_cls], meth)
                        if m is not None:
                            return [m.qualname]
                    if head in fn.module.imports or head in ('object',):
                        return [r]
            t = self.type_of(f.value, fn, _depth + 1)
            if t:
                if t.startswith('type:'):
                    t = t[5:]
                if t == self.TASK:
                    if attr in self.attachments:
                        return [self.attachments[attr].qualname]
                    if attr == 'run':
                        return ['USER.run']
                    return [f'{self.TASK}.{attr}']
                if t in self.classes:
                    c = self.classes[t]
                    impls = self.implementations(t, attr)
                    if impls:
                        return [i.qualname for i in impls]
                    m = self.find_method(c, attr)
                    if m is not None:
                        return [m.qualname]
                    return [f'{t}.{attr}']
                return [f'{t}.{attr}']
            # name-based fallback: Task protocol
            if attr in self.attachments and attr not in ('__getstate__', '__setstate__', '__post_init__'):
                return [self.attachments[attr].qualname]
            if attr == 'run' and not call.args and not call.keywords and self._looks_like_task(f.value, fn):
                return ['USER.run']
            if by_name and attr not in self.BUILTIN_METHOD_NAMES:
                cands = sorted(g.qualname for g in self.funcs.values()
                               if g.name == attr and g.cls is not None and g.parent is None and not g.is_abstract)
                if cands:
                    return cands
            return [f'?.{attr}']
        return ['?']

    def _is_local_name(self, name: str, fn: FuncInfo) -> bool:
        g: Optional[FuncInfo] = fn
        while g is not None:
            for a in g.params:
                if a.arg == name:
                    return True
            if g.node.args.vararg and g.node.args.vararg.arg == name:
                return True
            if g.node.args.kwarg and g.node.args.kwarg.arg == name:
                return True
            for n in walk_local(g.node):
                if isinstance(n, ast.Name) and n.id == name and isinstance(n.ctx, ast.Store):
                    return True
                if isinstance(n, ast.ExceptHandler) and n.name == name:
                    return True
            g = g.parent
        return False

    # -- call graph ------------------------------------------------------------------------

    def calls_in(self, fn: FuncInfo) -> list[tuple[ast.Call, list[str]]]:
        out = []
        for n in walk_local(fn.node):
            if isinstance(n, ast.Call):
                out.append((n, self.resolve_call(n, fn)))
        out.sort(key=lambda p: (p[0].lineno, p[0].col_offset))
        return out

    def callees(self, fn: FuncInfo) -> set[str]:
        s: set[str] = set()
        for _c, cs in self.calls_in(fn):
            s.update(cs)
        # property reads of Task.result
        for n in walk_local(fn.node):
            if isinstance(n, ast.Attribute) and n.attr == 'result' and isinstance(n.ctx, ast.Load) \
                    and 'result' in self.attachments:
                t = self.type_of(n.value, fn)
                if t == self.TASK:
                    s.add(self.attachments['result'].qualname)
        return s

    def references(self, fn: FuncInfo) -> set[str]:
        """Package functions referenced as values (not in call position): self._subprocess_func
        handed to executor.submit, _subprocess_target given as Process target, closures given as
        Thread targets."""
        call_funcs = {id(n.func) for n in walk_local(fn.node) if isinstance(n, ast.Call)}
        out: set[str] = set()
        for n in walk_local(fn.node):
            if id(n) in call_funcs or not isinstance(getattr(n, 'ctx', None), ast.Load):
                continue
            if isinstance(n, ast.Name):
                g: Optional[FuncInfo] = fn
                hit = False
                while g is not None:
                    if n.id in g.nested:
                        out.add(g.nested[n.id].qualname)
                        hit = True
                        break
                    g = g.parent
                if not hit and not self._is_local_name(n.id, fn):
                    r = self.resolve_dotted(fn.module, n.id)
                    if r in self.funcs:
                        out.add(r)
            elif isinstance(n, ast.Attribute):
                t = self.type_of(n.value, fn)
                if t and t.startswith('type:'):
                    t = t[5:]
                if t in self.classes:
                    for m in self.implementations(t, n.attr):
                        if not m.is_property:
                            out.add(m.qualname)
        return out

    def closure(self, roots: Iterable[FuncInfo], stop: Optional[set[str]] = None,
                include_nested: bool = True) -> list[FuncInfo]:
        """Functions reachable from roots through resolved package calls (constructor calls go to
        __init__; nested closures defined in a reached function are included when called, or always
        when include_nested is set and they are referenced)."""
        seen: dict[str, FuncInfo] = {}
        work = list(roots)
        while work:
            f = work.pop()
            if f.qualname in seen or (stop and f.qualname in stop):
                continue
            seen[f.qualname] = f
            for cal in self.callees(f):
                if cal in self.funcs:
                    work.append(self.funcs[cal])
                elif cal in self.classes:
                    c = self.classes[cal]
                    for mname in ('__init__', '__post_init__'):
                        m = self.find_method(c, mname)
                        if m is not None:
                            work.append(m)
            if include_nested:
                # functions referenced as values (Thread(target=_consume), executor.submit(self._f, ...))
                for r in self.references(f):
                    work.append(self.funcs[r])
        return [seen[k] for k in sorted(seen)]

    def callers_of(self, target_qn: str) -> list[tuple[FuncInfo, ast.Call]]:
        out = []
        for f in self.funcs.values():
            for call, cs in self.calls_in(f):
                if target_qn in cs:
                    out.append((f, call))
        out.sort(key=lambda p: (p[0].qualname, p[1].lineno))
        return out

    def all_functions(self) -> list[FuncInfo]:
        return [self.funcs[k] for k in sorted(self.funcs)]

    def stats(self) -> dict:
        n_calls = 0
        n_unres = 0
        for f in self.funcs.values():
            for _c, cs in self.calls_in(f):
                n_calls += 1
                if all(c.startswith('?') for c in cs):
                    n_unres += 1
        return {'modules': len(self.modules), 'classes': len(self.classes), 'functions': len(self.funcs),
                'call_sites': n_calls, 'call_sites_unresolved': n_unres}
