"""Canonicalisation of *declarations* (runs before the statement-level passes of canon.py).

D0  dataclass without a hand-written __init__  ->  the __init__ the decorator would generate is written out
    (`self.f = f` for init fields, `self.f = <default>` / `<factory>()` for the others, then the body of
    `__post_init__`), so that a hand-written constructor and its @dataclass form are the same program.
N0  private NamedTuple (`class _Pair(NamedTuple)`) -> plain tuples: constructor calls become tuple displays, and
    `.field` becomes `[i]` where the field name is not an attribute of any other class of the package.
K0  new private module-level literal constants (`_TASK_META_KEYS = frozenset({...})`) are substituted at their uses
    (names that exist on the pinned tree are anchors and are kept).
"""
from __future__ import annotations

import ast
import copy
from typing import Optional

KNOWN_MODULE_NAMES = frozenset('''
__version__ __all__ task_makers _RUNNER_FORK_MEMORY jsonable ParamScalar CACHE_DEFAULT _RESERVED_ATTRS
CovariantResultT ResultT LabContext TaskT TaskMonitorInfoValue TaskMonitorInfoItem TaskMonitorInfo logger T
'''.split())


def _dotted(e) -> Optional[str]:
    if isinstance(e, ast.Name):
        return e.id
    if isinstance(e, ast.Attribute):
        b = _dotted(e.value)
        return f'{b}.{e.attr}' if b else None
    return None


def _is_dataclass_deco(d: ast.AST) -> Optional[ast.AST]:
    f = d.func if isinstance(d, ast.Call) else d
    n = _dotted(f) or ''
    return d if n.split('.')[-1] == 'dataclass' else None


def _kw(call: ast.AST, name: str):
    if isinstance(call, ast.Call):
        for k in call.keywords:
            if k.arg == name:
                return k.value
    return None


def desugar_dataclasses(tree: ast.Module) -> int:
    n = 0
    for c in [x for x in ast.walk(tree) if isinstance(x, ast.ClassDef)]:
        deco = next((d for d in c.decorator_list if _is_dataclass_deco(d)), None)
        if deco is None or any(isinstance(s, ast.FunctionDef) and s.name == '__init__' for s in c.body):
            continue
        # only classes that carry behaviour: a __post_init__, a non-init field or a default factory (pure records keep
        # their generated constructor; the rules treat their annotations as the parameter list)
        fields = []
        for s in c.body:
            if isinstance(s, ast.AnnAssign) and isinstance(s.target, ast.Name):
                ann = _dotted(s.annotation.value) if isinstance(s.annotation, ast.Subscript) else _dotted(s.annotation)
                if ann and ann.split('.')[-1] == 'ClassVar':
                    continue
                fields.append((s, ann and ann.split('.')[-1] == 'InitVar'))
        post = next((s for s in c.body if isinstance(s, ast.FunctionDef) and s.name == '__post_init__'), None)
        methods = [s for s in c.body if isinstance(s, ast.FunctionDef)]
        if not methods:
            continue
        all_kwonly = isinstance(deco, ast.Call) and isinstance(_kw(deco, 'kw_only'), ast.Constant) and _kw(deco, 'kw_only').value is True
        pos, kwonly, kwdefaults, defaults, body, initvars = [], [], [], [], [], []
        for s, is_initvar in fields:
            name = s.target.id
            v = s.value
            is_field = isinstance(v, ast.Call) and (_dotted(v.func) or '').split('.')[-1] == 'field'
            default = _kw(v, 'default') if is_field else v
            factory = _kw(v, 'default_factory') if is_field else None
            init = _kw(v, 'init') if is_field else None
            in_init = not (isinstance(init, ast.Constant) and init.value is False)
            kwo = all_kwonly or (is_field and isinstance(_kw(v, 'kw_only'), ast.Constant) and _kw(v, 'kw_only').value is True)
            if in_init:
                a = ast.arg(arg=name, annotation=copy.deepcopy(s.annotation))
                dflt = copy.deepcopy(default) if default is not None else (ast.Constant(value=None) if factory is not None else None)
                if kwo:
                    kwonly.append(a)
                    kwdefaults.append(dflt)
                else:
                    pos.append(a)
                    if dflt is not None:
                        defaults.append(dflt)
                if is_initvar:
                    initvars.append(name)
                    continue
                value: ast.AST = ast.Name(id=name, ctx=ast.Load())
                if factory is not None:
                    value = ast.IfExp(test=ast.Compare(left=ast.Name(id=name, ctx=ast.Load()), ops=[ast.Is()], comparators=[ast.Constant(value=None)]),
                                      body=ast.Call(func=copy.deepcopy(factory), args=[], keywords=[]), orelse=ast.Name(id=name, ctx=ast.Load()))
            else:
                if factory is not None:
                    value = ast.Call(func=copy.deepcopy(factory), args=[], keywords=[])
                elif default is not None:
                    value = copy.deepcopy(default)
                else:
                    continue
            st = ast.Assign(targets=[ast.Attribute(value=ast.Name(id='self', ctx=ast.Load()), attr=name, ctx=ast.Store())], value=value)
            ast.copy_location(st, s)
            body.append(st)
        if post is not None:
            # inline the body of __post_init__ (parameters renamed to the InitVar names, receiver to `self`)
            pparams = [a.arg for a in post.args.args]
            mapping = {}
            if pparams:
                mapping[pparams[0]] = 'self'
                for p, iv in zip(pparams[1:], initvars):
                    mapping[p] = iv
            for st in post.body:
                st2 = copy.deepcopy(st)
                for x in ast.walk(st2):
                    if isinstance(x, ast.Name) and x.id in mapping:
                        x.id = mapping[x.id]
                body.append(st2)
        if not body:
            body = [ast.Pass()]
        fn = ast.FunctionDef(name='__init__',
                             args=ast.arguments(posonlyargs=[], args=[ast.arg(arg='self')] + pos, vararg=None, kwonlyargs=kwonly,
                                                kw_defaults=kwdefaults, kwarg=None, defaults=defaults),
                             body=body, decorator_list=[], returns=None, type_comment=None, type_params=[])
        fn.lineno = c.lineno
        fn.col_offset = c.col_offset + 4
        fn.end_lineno = c.lineno
        fn.end_col_offset = c.col_offset + 4
        fn._synthetic = True
        for x in ast.walk(fn):
            if not hasattr(x, 'lineno') and isinstance(x, (ast.expr, ast.stmt, ast.arg)):
                x.lineno, x.col_offset, x.end_lineno, x.end_col_offset = c.lineno, c.col_offset + 4, c.lineno, c.col_offset + 4
        first_def = next((i for i, s in enumerate(c.body) if isinstance(s, ast.FunctionDef)), len(c.body))
        c.body.insert(first_def, fn)
        if post is not None:
            c.body.remove(post)
        n += 1
    return n


def _namedtuples(trees: dict[str, ast.Module]) -> dict[str, list[str]]:
    out = {}
    for t in trees.values():
        for c in ast.walk(t):
            if isinstance(c, ast.ClassDef) and c.name.startswith('_') and any((_dotted(b) or '').split('.')[-1] == 'NamedTuple' for b in c.bases):
                fs = [s.target.id for s in c.body if isinstance(s, ast.AnnAssign) and isinstance(s.target, ast.Name)]
                if fs and not any(isinstance(s, ast.FunctionDef) for s in c.body):
                    out[c.name] = fs
    return out


def _attribute_names_elsewhere(trees: dict[str, ast.Module], skip_classes: set[str]) -> set[str]:
    names: set[str] = set()
    for t in trees.values():
        for c in ast.walk(t):
            if isinstance(c, ast.ClassDef) and c.name not in skip_classes:
                for s in c.body:
                    if isinstance(s, (ast.FunctionDef, ast.AsyncFunctionDef)):
                        names.add(s.name)
                    elif isinstance(s, ast.AnnAssign) and isinstance(s.target, ast.Name):
                        names.add(s.target.id)
                    elif isinstance(s, ast.Assign):
                        names.update(x.id for x in s.targets if isinstance(x, ast.Name))
                for x in ast.walk(c):
                    if isinstance(x, ast.Attribute) and isinstance(x.ctx, ast.Store) and isinstance(x.value, ast.Name) and x.value.id == 'self':
                        names.add(x.attr)
    return names


def desugar_namedtuples(trees: dict[str, ast.Module]) -> int:
    """Type-directed: `.field` becomes `[i]` only on expressions known to hold one of the private NamedTuples - an entry
    of a container attribute that is filled with constructor calls of it (`self._running[k] = _Pair(a, b)`), a local bound
    to such an entry / to a constructor call, or a loop variable over the container's values."""
    nts = _namedtuples(trees)
    if not nts:
        return 0
    n = 0
    # containers (attribute names) whose stored values are NT constructor calls
    holders: dict[str, str] = {}
    for t in trees.values():
        for x in ast.walk(t):
            if isinstance(x, ast.Assign) and isinstance(x.value, ast.Call) and (_dotted(x.value.func) or '').split('.')[-1] in nts:
                for tg in x.targets:
                    if isinstance(tg, ast.Subscript) and isinstance(tg.value, ast.Attribute):
                        holders[tg.value.attr] = (_dotted(x.value.func) or '').split('.')[-1]

    def holder_entry(e: ast.AST) -> Optional[str]:
        """NT class name if e denotes an entry of a holder container."""
        if isinstance(e, ast.Subscript) and isinstance(e.value, ast.Attribute) and e.value.attr in holders:
            return holders[e.value.attr]
        if isinstance(e, ast.Call) and isinstance(e.func, ast.Attribute) and e.func.attr in ('pop', 'get') \
                and isinstance(e.func.value, ast.Attribute) and e.func.value.attr in holders:
            return holders[e.func.value.attr]
        if isinstance(e, ast.Call) and (_dotted(e.func) or '').split('.')[-1] in nts:
            return (_dotted(e.func) or '').split('.')[-1]
        return None

    def values_iter(e: ast.AST) -> Optional[tuple[str, str]]:
        """('values'|'items', NT) if e iterates the values / items of a holder container (order-preserving wrappers allowed)."""
        while isinstance(e, ast.Call) and isinstance(e.func, ast.Name) and e.func.id in ('list', 'tuple', 'sorted', 'reversed', 'iter') and e.args:
            e = e.args[0]
        if isinstance(e, ast.Call) and isinstance(e.func, ast.Attribute) and e.func.attr in ('values', 'items') \
                and isinstance(e.func.value, ast.Attribute) and e.func.value.attr in holders:
            return e.func.attr, holders[e.func.value.attr]
        return None

    def unwrap(e: ast.AST) -> ast.AST:
        while isinstance(e, ast.Call) and isinstance(e.func, ast.Name) and e.func.id in ('list', 'tuple', 'sorted', 'reversed', 'iter') and e.args:
            e = e.args[0]
        return e

    for t in trees.values():
        for fn in [x for x in ast.walk(t) if isinstance(x, (ast.FunctionDef, ast.AsyncFunctionDef))]:
            # NT-typed names and where they are bound: name -> (class, [binding target nodes])
            local: dict[str, tuple[str, list]] = {}
            seqs: dict[str, tuple[str, str]] = {}      # locals holding the values()/items() of a holder

            def bind(name_node: ast.Name, c: str):
                ent = local.setdefault(name_node.id, (c, []))
                ent[1].append(name_node)

            for x in ast.walk(fn):
                if isinstance(x, ast.Assign) and len(x.targets) == 1 and isinstance(x.targets[0], ast.Name):
                    vi = values_iter(x.value)
                    if vi:
                        seqs[x.targets[0].id] = vi
            for x in ast.walk(fn):
                if isinstance(x, ast.Assign) and len(x.targets) == 1 and isinstance(x.targets[0], ast.Name):
                    c = holder_entry(x.value)
                    if c:
                        bind(x.targets[0], c)
                its = []
                if isinstance(x, (ast.For, ast.AsyncFor)):
                    its.append((x.target, x.iter))
                elif isinstance(x, ast.comprehension):
                    its.append((x.target, x.iter))
                for tg, it in its:
                    vi = values_iter(it)
                    u = unwrap(it)
                    if vi is None and isinstance(u, ast.Name) and u.id in seqs:
                        vi = seqs[u.id]
                    if vi is None:
                        continue
                    if vi[0] == 'values' and isinstance(tg, ast.Name):
                        bind(tg, vi[1])
                    elif vi[0] == 'items' and isinstance(tg, ast.Tuple) and len(tg.elts) == 2 and isinstance(tg.elts[1], ast.Name):
                        bind(tg.elts[1], vi[1])
            # names only ever used as `name.field` are unpacked at their binding: `for (v_a, v_b) in ...`
            parents = {}
            for x in ast.walk(fn):
                for ch in ast.iter_child_nodes(x):
                    parents[id(ch)] = x
            unpack: dict[str, str] = {}
            for name, (c, _sites) in local.items():
                loads = [x for x in ast.walk(fn) if isinstance(x, ast.Name) and x.id == name and isinstance(x.ctx, ast.Load)]
                stores = [x for x in ast.walk(fn) if isinstance(x, ast.Name) and x.id == name and isinstance(x.ctx, ast.Store)]
                if loads and all(isinstance(parents.get(id(x)), ast.Attribute) and parents[id(x)].attr in nts[c] for x in loads) \
                        and all(any(x is sx for sx in _sites) for x in stores):
                    unpack[name] = c

            class A(ast.NodeTransformer):
                def visit_Attribute(self, node: ast.Attribute):
                    nonlocal n
                    self.generic_visit(node)
                    if not isinstance(node.ctx, ast.Load):
                        return node
                    if isinstance(node.value, ast.Name) and node.value.id in unpack and node.attr in nts[unpack[node.value.id]]:
                        n += 1
                        return ast.copy_location(ast.Name(id=f'{node.value.id}_{node.attr}', ctx=ast.Load()), node)
                    c = None
                    if isinstance(node.value, ast.Name) and node.value.id in local:
                        c = local[node.value.id][0]
                    else:
                        c = holder_entry(node.value)
                    if c and node.attr in nts[c]:
                        n += 1
                        return ast.copy_location(ast.Subscript(value=node.value, slice=ast.Constant(value=nts[c].index(node.attr)), ctx=ast.Load()), node)
                    return node

                def visit_Name(self, node: ast.Name):
                    if isinstance(node.ctx, ast.Store) and node.id in unpack and any(node is sx for sx in local[node.id][1]):
                        return ast.copy_location(ast.Tuple(elts=[ast.Name(id=f'{node.id}_{f}', ctx=ast.Store()) for f in nts[unpack[node.id]]],
                                                           ctx=ast.Store()), node)
                    return node
            A().visit(fn)
            # `x = H[k][i]`  ->  `(_, x) = H[k]`
            for x in ast.walk(fn):
                if isinstance(x, ast.Assign) and len(x.targets) == 1 and isinstance(x.targets[0], ast.Name) \
                        and isinstance(x.value, ast.Subscript) and isinstance(x.value.slice, ast.Constant) and isinstance(x.value.slice.value, int):
                    c = holder_entry(x.value.value)
                    if c and not (isinstance(x.value.value, ast.Call) and (_dotted(x.value.value.func) or '').split('.')[-1] in nts):
                        i = x.value.slice.value
                        elts = [ast.Name(id='_', ctx=ast.Store()) for _ in nts[c]]
                        if 0 <= i < len(elts):
                            elts[i] = x.targets[0]
                            x.targets = [ast.Tuple(elts=elts, ctx=ast.Store())]
                            x.value = x.value.value
                            n += 1

    class T(ast.NodeTransformer):
        def visit_Call(self, node: ast.Call):
            nonlocal n
            self.generic_visit(node)
            name = (_dotted(node.func) or '').split('.')[-1]
            if name in nts and not any(isinstance(a, ast.Starred) for a in node.args) and all(k.arg for k in node.keywords):
                fs = nts[name]
                vals: list[Optional[ast.AST]] = [None] * len(fs)
                for i, a in enumerate(node.args[:len(fs)]):
                    vals[i] = a
                for k in node.keywords:
                    if k.arg in fs:
                        vals[fs.index(k.arg)] = k.value
                if all(v is not None for v in vals):
                    n += 1
                    return ast.copy_location(ast.Tuple(elts=vals, ctx=ast.Load()), node)
            return node

    for t in trees.values():
        T().visit(t)
        ast.fix_missing_locations(t)
    return n


def _atom(e: ast.AST) -> bool:
    """An element that denotes the same thing wherever it is written: a literal, a plain name (a builtin, a class, another
    module-level constant) or a dotted name (`os.path.sep`, `FutureState.FINISHED`)."""
    if isinstance(e, ast.Constant):
        return True
    if isinstance(e, ast.Name):
        return True
    if isinstance(e, ast.Attribute):
        return _dotted(e) is not None
    if isinstance(e, ast.Call) and (_dotted(e.func) or '') == 'cast' and len(e.args) == 2:
        return _atom(e.args[1])
    return False


def _literal_constant(v: ast.AST) -> Optional[ast.AST]:
    """The expression to substitute for a private literal constant, or None."""
    if isinstance(v, ast.Constant):
        return v
    if isinstance(v, (ast.Tuple, ast.Set, ast.List)) and all(_atom(e) for e in v.elts):
        return v
    if isinstance(v, ast.Call) and (_dotted(v.func) or '') == 'cast' and len(v.args) == 2 and _atom(v.args[1]):
        return v
    if isinstance(v, ast.Call) and (_dotted(v.func) or '') in ('frozenset', 'set', 'tuple') and len(v.args) == 1 and not v.keywords:
        inner = v.args[0]
        if isinstance(inner, (ast.Tuple, ast.Set, ast.List)) and all(_atom(e) for e in inner.elts):
            if _dotted(v.func) in ('frozenset', 'set'):
                return ast.Set(elts=list(inner.elts))
            return ast.Tuple(elts=list(inner.elts), ctx=ast.Load())
    return None


def inline_new_constants(tree: ast.Module) -> int:
    consts: dict[str, ast.AST] = {}
    stores: dict[str, int] = {}
    for x in ast.walk(tree):
        if isinstance(x, ast.Name) and isinstance(x.ctx, (ast.Store, ast.Del)):
            stores[x.id] = stores.get(x.id, 0) + 1
    for st in tree.body:
        tgt, val = None, None
        if isinstance(st, ast.Assign) and len(st.targets) == 1 and isinstance(st.targets[0], ast.Name):
            tgt, val = st.targets[0].id, st.value
        elif isinstance(st, ast.AnnAssign) and isinstance(st.target, ast.Name) and st.value is not None:
            tgt, val = st.target.id, st.value
        if tgt is None or not tgt.startswith('_') or tgt.startswith('__') or tgt in KNOWN_MODULE_NAMES or stores.get(tgt, 0) != 1:
            continue
        lit = _literal_constant(val)
        if lit is not None:
            consts[tgt] = lit
    if not consts:
        return 0
    n = 0
    # constants built from other new constants: resolve inside-out
    for _round in range(3):
        for k, v in list(consts.items()):
            class _In(ast.NodeTransformer):
                def visit_Name(self, node: ast.Name):
                    if isinstance(node.ctx, ast.Load) and node.id in consts and node.id != k:
                        return copy.deepcopy(consts[node.id])
                    return node
            consts[k] = _In().visit(copy.deepcopy(v))

    class T(ast.NodeTransformer):
        def visit_Name(self, node: ast.Name):
            nonlocal n
            if isinstance(node.ctx, ast.Load) and node.id in consts:
                n += 1
                return ast.copy_location(copy.deepcopy(consts[node.id]), node)
            return node

    for st in tree.body:
        if isinstance(st, (ast.FunctionDef, ast.AsyncFunctionDef, ast.ClassDef)):
            T().visit(st)
    ast.fix_missing_locations(tree)
    return n


def flatten_private_mixins(trees: dict[str, ast.Module]) -> int:
    """M0: a private mix-in / helper base class (`class _XMixin:` with no bases of its own beyond object / ABC / Generic) that
    exactly one class of the same module inherits from is merged into that class: its members become the subclass's own
    (unless the subclass defines the name itself), so that `Class.method` anchors and per-class method enumerations are
    independent of how a class was split into bases."""
    n = 0
    for t in trees.values():
        classes = [c for c in t.body if isinstance(c, ast.ClassDef)]
        by_name = {c.name: c for c in classes}
        for m in list(classes):
            if not m.name.startswith('_') or m.name.startswith('__'):
                continue
            if any((_dotted(b.value if isinstance(b, ast.Subscript) else b) or '').split('.')[-1] not in ('object', 'ABC', 'Generic', 'Protocol') for b in m.bases):
                continue
            if any((_dotted(b.value if isinstance(b, ast.Subscript) else b) or '').split('.')[-1] == 'Protocol' for b in m.bases):
                continue
            if m.decorator_list:
                continue
            users = [c for c in classes if any(_dotted(b) == m.name for b in c.bases)]
            other_refs = 0
            for tt in trees.values():
                for x in ast.walk(tt):
                    if isinstance(x, ast.Name) and x.id == m.name and isinstance(x.ctx, ast.Load):
                        other_refs += 1
            if len(users) != 1 or other_refs != 1:
                continue
            c = users[0]
            own = {s.name for s in c.body if isinstance(s, (ast.FunctionDef, ast.AsyncFunctionDef, ast.ClassDef))} | \
                  {tg.id for s in c.body if isinstance(s, ast.Assign) for tg in s.targets if isinstance(tg, ast.Name)} | \
                  {s.target.id for s in c.body if isinstance(s, ast.AnnAssign) and isinstance(s.target, ast.Name)}
            moved = []
            for s in m.body:
                if isinstance(s, ast.Expr) and isinstance(s.value, ast.Constant):
                    continue     # docstring
                if isinstance(s, ast.Pass):
                    continue
                nm = getattr(s, 'name', None)
                if nm is None and isinstance(s, ast.Assign) and isinstance(s.targets[0], ast.Name):
                    nm = s.targets[0].id
                if nm is None and isinstance(s, ast.AnnAssign) and isinstance(s.target, ast.Name):
                    nm = s.target.id
                if nm in own:
                    continue
                moved.append(s)
            c.body.extend(moved)
            c.bases = [b for b in c.bases if _dotted(b) != m.name]
            t.body.remove(m)
            n += 1
    return n


# ----------------------------------------------------------------------------------------
# W0: `with <private context manager>(args): BODY`  ->  the try statement it stands for

class _SubstNames(ast.NodeTransformer):
    def __init__(self, names: dict, self_attrs: Optional[dict] = None, self_name: str = 'self'):
        self.names = names
        self.self_attrs = self_attrs or {}
        self.self_name = self_name

    def visit_Name(self, node: ast.Name):
        if isinstance(node.ctx, ast.Load) and node.id in self.names:
            return ast.copy_location(copy.deepcopy(self.names[node.id]), node)
        return node

    def visit_Attribute(self, node: ast.Attribute):
        if isinstance(node.value, ast.Name) and node.value.id == self.self_name and node.attr in self.self_attrs and isinstance(node.ctx, ast.Load):
            return ast.copy_location(copy.deepcopy(self.self_attrs[node.attr]), node)
        self.generic_visit(node)
        return node


def _bind_call(fn: ast.FunctionDef, call: ast.Call, skip_self: bool) -> Optional[dict]:
    params = [a.arg for a in fn.args.posonlyargs + fn.args.args]
    if skip_self:
        params = params[1:]
    kwonly = [a.arg for a in fn.args.kwonlyargs]
    if fn.args.vararg or fn.args.kwarg or any(isinstance(a, ast.Starred) for a in call.args) or any(k.arg is None for k in call.keywords):
        return None
    out = {}
    for p, a in zip(params, call.args):
        out[p] = a
    if len(call.args) > len(params):
        return None
    for k in call.keywords:
        if k.arg not in params + kwonly:
            return None
        out[k.arg] = k.value
    # defaults
    pos_defaults = dict(zip(params[len(params) - len(fn.args.defaults):], fn.args.defaults)) if fn.args.defaults else {}
    for p in params:
        if p not in out:
            if p in pos_defaults:
                out[p] = pos_defaults[p]
            else:
                return None
    for p, d in zip(kwonly, fn.args.kw_defaults):
        if p not in out:
            if d is None:
                return None
            out[p] = d
    return out


def _simplify_exit(body: list, et: str, ev: str, raised: bool) -> Optional[list]:
    """The statements __exit__ executes when an exception is / is not in flight; None if it may swallow or is too clever."""
    out = []
    for st in body:
        if isinstance(st, ast.Expr) and isinstance(st.value, ast.Constant):
            continue
        if isinstance(st, ast.Pass):
            continue
        if isinstance(st, ast.Return):
            v = st.value
            if v is None or (isinstance(v, ast.Constant) and v.value in (False, None)):
                return out
            return None
        if isinstance(st, ast.If):
            t = st.test
            val = None
            neg = False
            if isinstance(t, ast.UnaryOp) and isinstance(t.op, ast.Not):
                t, neg = t.operand, True
            if isinstance(t, ast.Compare) and len(t.ops) == 1 and isinstance(t.left, ast.Name) and t.left.id in (et, ev) \
                    and isinstance(t.comparators[0], ast.Constant) and t.comparators[0].value is None:
                if isinstance(t.ops[0], ast.IsNot):
                    val = raised
                elif isinstance(t.ops[0], ast.Is):
                    val = not raised
            elif isinstance(t, ast.Name) and t.id in (et, ev):
                val = raised
            if val is None:
                if any(isinstance(x, ast.Name) and x.id in (et, ev) for x in ast.walk(st.test)):
                    return None
                out.append(st)
                continue
            if neg:
                val = not val
            sub = _simplify_exit(st.body if val else st.orelse, et, ev, raised)
            if sub is None:
                return None
            out.extend(sub)
            if (st.body if val else st.orelse) and isinstance((st.body if val else st.orelse)[-1], ast.Return):
                return out
            continue
        if any(isinstance(x, ast.Name) and x.id in (et, ev) for x in ast.walk(st)):
            return None
        out.append(st)
    return out


def desugar_private_context_managers(trees: dict[str, ast.Module]) -> int:
    n = 0
    for t in trees.values():
        classes = {c.name: c for c in t.body if isinstance(c, ast.ClassDef) and c.name.startswith('_')}
        gens = {}
        for f in t.body:
            if isinstance(f, ast.FunctionDef) and f.name.startswith('_') and any((_dotted(d) or '').split('.')[-1] == 'contextmanager' for d in f.decorator_list):
                gens[f.name] = f
        if not classes and not gens:
            continue

        def rewrite(st: ast.With) -> Optional[list]:
            if len(st.items) != 1:
                return None
            it = st.items[0]
            ce = it.context_expr
            if not isinstance(ce, ast.Call) or not isinstance(ce.func, ast.Name):
                return None
            name = ce.func.id
            if name in classes:
                c = classes[name]
                meths = {s.name: s for s in c.body if isinstance(s, ast.FunctionDef)}
                if '__enter__' not in meths or '__exit__' not in meths or it.optional_vars is not None:
                    return None
                attrs = {}
                if '__init__' in meths:
                    init = meths['__init__']
                    b = _bind_call(init, ce, skip_self=True)
                    if b is None:
                        return None
                    sn = init.args.args[0].arg
                    for s in init.body:
                        if isinstance(s, ast.Expr) and isinstance(s.value, ast.Constant):
                            continue
                        if isinstance(s, (ast.Assign, ast.AnnAssign)):
                            tg = s.targets[0] if isinstance(s, ast.Assign) else s.target
                            if isinstance(tg, ast.Attribute) and isinstance(tg.value, ast.Name) and tg.value.id == sn and isinstance(s.value, ast.Name) and s.value.id in b:
                                attrs[tg.attr] = b[s.value.id]
                                continue
                        return None
                elif ce.args or ce.keywords:
                    return None
                for s in meths['__enter__'].body:
                    if isinstance(s, ast.Expr) and isinstance(s.value, ast.Constant):
                        continue
                    if isinstance(s, ast.Pass):
                        continue
                    if isinstance(s, ast.Return) and (s.value is None or (isinstance(s.value, ast.Constant) and s.value.value is None)
                                                      or (isinstance(s.value, ast.Name) and s.value.id == meths['__enter__'].args.args[0].arg)):
                        continue
                    return None
                ex = meths['__exit__']
                ps = [a.arg for a in ex.args.args]
                if len(ps) < 3:
                    return None
                sn, et, ev = ps[0], ps[1], ps[2]
                on_exc = _simplify_exit(ex.body, et, ev, True)
                on_ok = _simplify_exit(ex.body, et, ev, False)
                if on_exc is None or on_ok is None:
                    return None
                sub = _SubstNames({}, attrs, sn)
                on_exc = [sub.visit(copy.deepcopy(s)) for s in on_exc]
                on_ok = [sub.visit(copy.deepcopy(s)) for s in on_ok]
                if [ast.dump(s) for s in on_exc] == [ast.dump(s) for s in on_ok]:
                    new = ast.Try(body=st.body, handlers=[], orelse=[], finalbody=on_exc or [ast.Pass()])
                else:
                    h = ast.ExceptHandler(type=ast.Name(id='BaseException', ctx=ast.Load()), name=None, body=on_exc + [ast.Raise(exc=None, cause=None)])
                    new = ast.Try(body=st.body, handlers=[h], orelse=on_ok, finalbody=[])
                return [new]
            if name in gens:
                f = gens[name]
                b = _bind_call(f, ce, skip_self=False)
                if b is None or it.optional_vars is not None:
                    return None
                yields = [x for x in ast.walk(f) if isinstance(x, (ast.Yield, ast.YieldFrom))]
                if len(yields) != 1 or isinstance(yields[0], ast.YieldFrom):
                    return None
                body = [s for s in f.body if not (isinstance(s, ast.Expr) and isinstance(s.value, ast.Constant))]

                def is_yield(s):
                    return isinstance(s, ast.Expr) and s.value is yields[0]
                sub = _SubstNames(b)
                out = []
                done = False
                for s in body:
                    if is_yield(s):
                        out.extend(st.body)
                        done = True
                    elif isinstance(s, ast.Try) and not s.handlers and not s.orelse and any(is_yield(x) for x in s.body):
                        nb = []
                        for x in s.body:
                            if is_yield(x):
                                nb.extend(st.body)
                            else:
                                nb.append(sub.visit(copy.deepcopy(x)))
                        out.append(ast.Try(body=nb, handlers=[], orelse=[], finalbody=[sub.visit(copy.deepcopy(x)) for x in s.finalbody]))
                        done = True
                    elif any(y is yields[0] for y in ast.walk(s)):
                        return None
                    else:
                        out.append(sub.visit(copy.deepcopy(s)))
                return out if done else None
            return None

        changed = True
        while changed:
            changed = False
            for owner in ast.walk(t):
                for fld in ('body', 'orelse', 'finalbody'):
                    blk = getattr(owner, fld, None)
                    if not (isinstance(blk, list) and blk and isinstance(blk[0], ast.stmt)):
                        continue
                    for i, st in enumerate(blk):
                        if isinstance(st, ast.With):
                            new = rewrite(st)
                            if new is not None:
                                for x in new:
                                    ast.copy_location(x, st)
                                    for y in ast.walk(x):
                                        if isinstance(y, (ast.stmt, ast.expr, ast.ExceptHandler)) and not hasattr(y, 'lineno'):
                                            ast.copy_location(y, st)
                                blk[i:i + 1] = new
                                n += 1
                                changed = True
                                break
                    if changed:
                        break
                if changed:
                    break
        # definitions whose every use was rewritten are dropped (their statements now live at the use sites)
        for nm, d in list(classes.items()) + list(gens.items()):
            refs = 0
            for tt in trees.values():
                for x in ast.walk(tt):
                    if isinstance(x, ast.Name) and x.id == nm and isinstance(x.ctx, ast.Load):
                        refs += 1
                    elif isinstance(x, ast.alias) and (x.asname or x.name) == nm:
                        refs += 1
            is_cm = (nm in gens) or any(isinstance(m, ast.FunctionDef) and m.name == '__exit__' for m in d.body)
            if refs == 0 and is_cm and d in t.body:
                t.body.remove(d)
        ast.fix_missing_locations(t)
    return n


# ----------------------------------------------------------------------------------------
# F0: private callable class (only __init__ storing its arguments and __call__)  ->  a local closure at the place it is
#     instantiated:   `consumer = _Consumer(q, d)`  ->  `def consumer(): <__call__ body with self.x replaced by the arguments>`

def callable_classes_to_closures(trees: dict[str, ast.Module]) -> int:
    n = 0
    for t in trees.values():
        cands = {}
        for c in t.body:
            if not (isinstance(c, ast.ClassDef) and c.name.startswith('_') and not c.bases and not c.decorator_list):
                continue
            meths = {s.name: s for s in c.body if isinstance(s, ast.FunctionDef)}
            others = [s for s in c.body if not isinstance(s, ast.FunctionDef) and not (isinstance(s, ast.Expr) and isinstance(s.value, ast.Constant))
                      and not (isinstance(s, ast.AnnAssign) and s.value is None)]
            if set(meths) - {'__init__', '__call__'} or '__call__' not in meths or others:
                continue
            call = meths['__call__']
            sn = call.args.args[0].arg
            if any(isinstance(x, ast.Attribute) and isinstance(x.value, ast.Name) and x.value.id == sn and isinstance(x.ctx, (ast.Store, ast.Del))
                   for x in ast.walk(call)):
                continue      # keeps state on itself
            if any(isinstance(x, ast.Name) and x.id == sn and not isinstance(getattr(x, '_parent_attr', None), ast.Attribute) for x in []):
                continue
            cands[c.name] = (c, meths)
        if not cands:
            continue
        for owner in list(ast.walk(t)):
            for fld in ('body', 'orelse', 'finalbody'):
                blk = getattr(owner, fld, None)
                if not (isinstance(blk, list) and blk and isinstance(blk[0], ast.stmt)):
                    continue
                i = 0
                while i < len(blk):
                    st = blk[i]
                    if isinstance(st, (ast.FunctionDef, ast.AsyncFunctionDef, ast.ClassDef, ast.If, ast.For, ast.While, ast.Try, ast.With)):
                        i += 1
                        continue
                    ctor = next((x for x in ast.walk(st) if isinstance(x, ast.Call) and isinstance(x.func, ast.Name) and x.func.id in cands), None)
                    if ctor is None:
                        i += 1
                        continue
                    c, meths = cands[ctor.func.id]
                    attrs = {}
                    ok = True
                    if '__init__' in meths:
                        init = meths['__init__']
                        b = _bind_call(init, ctor, skip_self=True)
                        if b is None:
                            ok = False
                        else:
                            isn = init.args.args[0].arg
                            for s in init.body:
                                if isinstance(s, ast.Expr) and isinstance(s.value, ast.Constant):
                                    continue
                                tg = s.targets[0] if isinstance(s, ast.Assign) and len(s.targets) == 1 else (s.target if isinstance(s, ast.AnnAssign) else None)
                                val = getattr(s, 'value', None)
                                if isinstance(tg, ast.Attribute) and isinstance(tg.value, ast.Name) and tg.value.id == isn and isinstance(val, ast.Name) and val.id in b:
                                    attrs[tg.attr] = b[val.id]
                                else:
                                    ok = False
                    elif ctor.args or ctor.keywords:
                        ok = False
                    call = meths['__call__']
                    sn = call.args.args[0].arg
                    # every use of self inside __call__ must be an attribute read we can substitute
                    for x in ast.walk(call):
                        if isinstance(x, ast.Attribute) and isinstance(x.value, ast.Name) and x.value.id == sn and x.attr not in attrs:
                            ok = False
                    if not ok:
                        i += 1
                        continue
                    if isinstance(st, ast.Assign) and st.value is ctor and len(st.targets) == 1 and isinstance(st.targets[0], ast.Name):
                        fname = st.targets[0].id
                        replace_stmt = True
                    else:
                        fname = f'_callable_{getattr(st, "lineno", 0)}_{n}'
                        replace_stmt = False
                    sub = _SubstNames({}, attrs, sn)
                    body = [sub.visit(copy.deepcopy(s)) for s in call.body if not (isinstance(s, ast.Expr) and isinstance(s.value, ast.Constant))] or [ast.Pass()]
                    args = copy.deepcopy(call.args)
                    args.args = args.args[1:]
                    fdef = ast.FunctionDef(name=fname, args=args, body=body, decorator_list=[], returns=None, type_comment=None, type_params=[])
                    ast.copy_location(fdef, st)
                    for y in ast.walk(fdef):
                        if isinstance(y, (ast.stmt, ast.expr, ast.arg, ast.ExceptHandler)) and not hasattr(y, 'lineno'):
                            ast.copy_location(y, st)
                    if replace_stmt:
                        blk[i] = fdef
                    else:
                        class R(ast.NodeTransformer):
                            def visit_Call(self, node):
                                if node is ctor:
                                    return ast.copy_location(ast.Name(id=fname, ctx=ast.Load()), node)
                                self.generic_visit(node)
                                return node
                        blk[i] = R().visit(st)
                        blk.insert(i, fdef)
                        i += 1
                    n += 1
                    i += 1
        # drop classes that are no longer referenced
        for nm, (c, _m) in cands.items():
            refs = sum(1 for tt in trees.values() for x in ast.walk(tt) if isinstance(x, ast.Name) and x.id == nm and isinstance(x.ctx, ast.Load))
            if refs == 0 and c in t.body:
                t.body.remove(c)
        ast.fix_missing_locations(t)
    return n


# ----------------------------------------------------------------------------------------
# O0: a private bookkeeping class held in one attribute of another class (`self.pending = _PendingDependencies()`) is
#     dissolved into its holder: its attributes become `self.pending__<attr>`, its methods become private methods
#     `_pending__<method>` of the holder (which the helper inliner then fills in at their single call sites).

def dissolve_private_holders(trees: dict[str, ast.Module]) -> int:
    n = 0
    for t in trees.values():
        classes = {c.name: c for c in t.body if isinstance(c, ast.ClassDef)}
        for wname, w in list(classes.items()):
            if not wname.startswith('_') or wname.startswith('__') or w.decorator_list:
                continue
            if any((_dotted(b.value if isinstance(b, ast.Subscript) else b) or '').split('.')[-1] not in ('object', 'Generic') for b in w.bases):
                continue
            meths = {s.name: s for s in w.body if isinstance(s, ast.FunctionDef)}
            others = [s for s in w.body if not isinstance(s, ast.FunctionDef) and not (isinstance(s, ast.Expr) and isinstance(s.value, ast.Constant))
                      and not (isinstance(s, ast.AnnAssign) and s.value is None)]
            if others or '__init__' not in meths or any(m.startswith('__') and m != '__init__' for m in meths) or len(meths) < 2:
                continue
            init = meths['__init__']
            isn = init.args.args[0].arg
            attr_inits = []
            ok = True
            for s in init.body:
                if isinstance(s, ast.Expr) and isinstance(s.value, ast.Constant):
                    continue
                tg = s.targets[0] if isinstance(s, ast.Assign) and len(s.targets) == 1 else (s.target if isinstance(s, ast.AnnAssign) and s.value is not None else None)
                if isinstance(tg, ast.Attribute) and isinstance(tg.value, ast.Name) and tg.value.id == isn \
                        and not any(isinstance(x, ast.Name) and x.id == isn for x in ast.walk(s.value)):
                    attr_inits.append((tg.attr, s.value, s))
                else:
                    ok = False
            if not ok or not attr_inits:
                continue
            attrs = {a for a, _v, _s in attr_inits}
            # methods touch self only through those attributes
            for m in meths.values():
                sn = m.args.args[0].arg if m.args.args else None
                if sn is None or any(d for d in m.decorator_list):
                    ok = False
                    break
                for x in ast.walk(m):
                    if isinstance(x, ast.Name) and x.id == sn:
                        pass
                for x in ast.walk(m):
                    if isinstance(x, ast.Attribute) and isinstance(x.value, ast.Name) and x.value.id == sn and x.attr not in attrs and x.attr not in meths:
                        ok = False
                bare = [x for x in ast.walk(m) if isinstance(x, ast.Name) and x.id == sn]
                attr_bases = [x.value for x in ast.walk(m) if isinstance(x, ast.Attribute) and isinstance(x.value, ast.Name) and x.value.id == sn]
                if len(bare) != len(attr_bases) + 0 and m is not init:
                    ok = False
                if m is init and len(bare) != len(attr_bases):
                    ok = False
            if not ok:
                continue
            # every construction is `self.<f> = W(args)` in a method of one holder class; every other reference is absent
            ctor_sites = []
            refs = 0
            for tt in trees.values():
                for x in ast.walk(tt):
                    if isinstance(x, ast.Name) and x.id == wname and isinstance(x.ctx, ast.Load):
                        refs += 1
            holder = None
            field = None
            for hname, h in classes.items():
                if h is w:
                    continue
                for x in ast.walk(h):
                    if isinstance(x, (ast.Assign, ast.AnnAssign)) and isinstance(getattr(x, 'value', None), ast.Call) \
                            and isinstance(x.value.func, ast.Name) and x.value.func.id == wname:
                        tg = x.targets[0] if isinstance(x, ast.Assign) and len(x.targets) == 1 else getattr(x, 'target', None)
                        if isinstance(tg, ast.Attribute) and isinstance(tg.value, ast.Name) and tg.value.id == 'self':
                            ctor_sites.append((h, x, tg.attr))
            # annotations mentioning W count as references too; allow exactly the constructor calls
            if len(ctor_sites) != 1 or refs != 1:
                continue
            holder, site, field = ctor_sites[0]
            b = _bind_call(init, site.value, skip_self=True)
            if b is None:
                continue
            # every use of self.<field> in the module is self.<field>.<method>(...) or self.<field>.<attr>
            bad_use = False
            for x in ast.walk(t):
                if isinstance(x, ast.Attribute) and x.attr == field and isinstance(x.value, ast.Name) and x.value.id == 'self' and isinstance(x.ctx, ast.Load):
                    pass
            parents = {}
            for x in ast.walk(t):
                for ch in ast.iter_child_nodes(x):
                    parents[id(ch)] = x
            for x in ast.walk(t):
                if isinstance(x, ast.Attribute) and x.attr == field and isinstance(x.value, ast.Name) and x.value.id == 'self':
                    p = parents.get(id(x))
                    if isinstance(x.ctx, ast.Store):
                        if p is not site and not (isinstance(p, (ast.Assign, ast.AnnAssign)) and p is site):
                            bad_use = True
                        continue
                    if not (isinstance(p, ast.Attribute) and (p.attr in meths or p.attr in attrs)):
                        bad_use = True
            if bad_use:
                continue
            pref = f'{field}__'
            mpref = '_' + field.lstrip('_') + '__'
            # 1. constructor -> attribute initialisations on the holder
            sub_args = _SubstNames(b)
            new_inits = []
            for a, v, s0 in attr_inits:
                st = ast.Assign(targets=[ast.Attribute(value=ast.Name(id='self', ctx=ast.Load()), attr=pref + a, ctx=ast.Store())],
                                value=sub_args.visit(copy.deepcopy(v)))
                ast.copy_location(st, site)
                new_inits.append(st)
            for owner in ast.walk(holder):
                for fld in ('body', 'orelse', 'finalbody'):
                    blk = getattr(owner, fld, None)
                    if isinstance(blk, list) and site in blk:
                        i = blk.index(site)
                        blk[i:i + 1] = new_inits
            # 2. methods -> private methods of the holder, attributes renamed
            class RenameAttrs(ast.NodeTransformer):
                def __init__(self, sn):
                    self.sn = sn

                def visit_Attribute(self, node):
                    self.generic_visit(node)
                    if isinstance(node.value, ast.Name) and node.value.id == self.sn:
                        if node.attr in attrs:
                            node.attr = pref + node.attr
                        elif node.attr in meths:
                            node.attr = mpref + node.attr
                    return node
            for mname, m in meths.items():
                if mname == '__init__':
                    continue
                m2 = copy.deepcopy(m)
                sn = m2.args.args[0].arg
                RenameAttrs(sn).visit(m2)
                if sn != 'self':
                    for x in ast.walk(m2):
                        if isinstance(x, ast.Name) and x.id == sn:
                            x.id = 'self'
                    m2.args.args[0].arg = 'self'
                m2.name = mpref + mname
                holder.body.append(m2)
            # 3. uses: self.<field>.<m>(...) -> self._<field>__<m>(...);  self.<field>.<attr> -> self.<field>__<attr>
            class Uses(ast.NodeTransformer):
                def visit_Attribute(self, node):
                    self.generic_visit(node)
                    v = node.value
                    if isinstance(v, ast.Attribute) and v.attr == field and isinstance(v.value, ast.Name) and v.value.id == 'self':
                        if node.attr in meths:
                            return ast.copy_location(ast.Attribute(value=v.value, attr=mpref + node.attr, ctx=node.ctx), node)
                        if node.attr in attrs:
                            return ast.copy_location(ast.Attribute(value=v.value, attr=pref + node.attr, ctx=node.ctx), node)
                    return node
            Uses().visit(t)
            t.body.remove(w)
            del classes[wname]
            n += 1
        ast.fix_missing_locations(t)
    return n


# ----------------------------------------------------------------------------------------
# A0: a private *pure forwarding adapter* (`__init__(self, x): self._x = x`; every other method `m(self, *a)` is
#     `[return] self._x.m(*a)`)  ->  the wrapped object itself

def drop_forwarding_adapters(trees: dict[str, ast.Module]) -> int:
    n = 0
    for t in trees.values():
        for c in [c for c in t.body if isinstance(c, ast.ClassDef) and c.name.startswith('_') and not c.bases and not c.decorator_list]:
            meths = {s.name: s for s in c.body if isinstance(s, ast.FunctionDef)}
            others = [s for s in c.body if not isinstance(s, ast.FunctionDef) and not (isinstance(s, ast.Expr) and isinstance(s.value, ast.Constant))]
            init = meths.get('__init__')
            if others or init is None or len(meths) < 2 or len(init.args.args) != 2 or init.args.kwonlyargs or init.args.vararg or init.args.kwarg:
                continue
            body = [s for s in init.body if not (isinstance(s, ast.Expr) and isinstance(s.value, ast.Constant))]
            if len(body) != 1:
                continue
            s0 = body[0]
            tg = s0.targets[0] if isinstance(s0, ast.Assign) and len(s0.targets) == 1 else (s0.target if isinstance(s0, ast.AnnAssign) else None)
            if not (isinstance(tg, ast.Attribute) and isinstance(tg.value, ast.Name) and tg.value.id == init.args.args[0].arg
                    and isinstance(getattr(s0, 'value', None), ast.Name) and s0.value.id == init.args.args[1].arg):
                continue
            inner = tg.attr
            ok = True
            for name, m in meths.items():
                if name == '__init__':
                    continue
                mb = [s for s in m.body if not (isinstance(s, ast.Expr) and isinstance(s.value, ast.Constant))]
                if len(mb) != 1 or m.decorator_list:
                    ok = False
                    break
                e = mb[0].value if isinstance(mb[0], (ast.Return, ast.Expr)) else None
                sn = m.args.args[0].arg
                params = [a.arg for a in m.args.args[1:]]
                if not (isinstance(e, ast.Call) and isinstance(e.func, ast.Attribute) and e.func.attr == name and isinstance(e.func.value, ast.Attribute)
                        and e.func.value.attr == inner and isinstance(e.func.value.value, ast.Name) and e.func.value.value.id == sn
                        and [getattr(a, 'id', None) for a in e.args] == params
                        and all(k.arg is not None and isinstance(k.value, ast.Name) and k.value.id == k.arg for k in e.keywords)):
                    ok = False
                    break
            if not ok:
                continue
            cname = c.name

            class R(ast.NodeTransformer):
                def visit_Call(self, node):
                    self.generic_visit(node)
                    if isinstance(node.func, ast.Name) and node.func.id == cname and len(node.args) + len(node.keywords) == 1:
                        return node.args[0] if node.args else node.keywords[0].value
                    return node
            for tt in trees.values():
                R().visit(tt)
            refs = sum(1 for tt in trees.values() for x in ast.walk(tt) if isinstance(x, ast.Name) and x.id == cname and isinstance(x.ctx, ast.Load))
            if refs == 0:
                t.body.remove(c)
            n += 1
        ast.fix_missing_locations(t)
    return n


# ----------------------------------------------------------------------------------------
# R0: new private read-only properties (`@property def _running_count(self): return len(self._running)`) are read through

KNOWN_PROPERTIES = frozenset({'done', 'cancelled', 'result'})      # properties of the pinned tree (anchors of rules)


def inline_private_properties(trees: dict[str, ast.Module]) -> int:
    n = 0
    props: dict[str, tuple] = {}
    counts: dict[str, int] = {}
    same_defs: dict[str, list] = {}
    for t in trees.values():
        for c in ast.walk(t):
            if not isinstance(c, ast.ClassDef):
                continue
            for m in c.body:
                if isinstance(m, ast.FunctionDef) and any((_dotted(d) or '') == 'property' for d in m.decorator_list) \
                        and m.name.startswith('_') and not m.name.startswith('__') and m.name not in KNOWN_PROPERTIES and len(m.args.args) == 1:
                    body = [s for s in m.body if not (isinstance(s, ast.Expr) and isinstance(s.value, ast.Constant))]
                    if len(body) == 1 and isinstance(body[0], ast.Return) and body[0].value is not None:
                        sn = m.args.args[0].arg
                        if m.name in props and ast.dump(props[m.name][3]) == ast.dump(body[0].value) and props[m.name][2] == sn:
                            same_defs.setdefault(m.name, []).append(m)      # the same property on a sibling class
                            continue
                        counts[m.name] = counts.get(m.name, 0) + 1
                        props[m.name] = (c, m, sn, body[0].value)
                    else:
                        counts[m.name] = counts.get(m.name, 0) + 10
    # a name used for anything else in the package (another attribute, a method, a setter) is left alone
    for t in trees.values():
        for x in ast.walk(t):
            if isinstance(x, ast.Attribute) and x.attr in props and isinstance(x.ctx, (ast.Store, ast.Del)):
                counts[x.attr] = counts.get(x.attr, 0) + 10
    props = {k: v for k, v in props.items() if counts.get(k, 0) == 1}
    if not props:
        return 0

    class T(ast.NodeTransformer):
        def visit_Attribute(self, node: ast.Attribute):
            nonlocal n
            self.generic_visit(node)
            if isinstance(node.ctx, ast.Load) and node.attr in props and _dotted(node.value) is not None:
                c, m, sn, expr = props[node.attr]
                n += 1
                e = _SubstNames({sn: node.value}).visit(copy.deepcopy(expr))
                return ast.copy_location(e, node)
            return node
    for t in trees.values():
        # do not rewrite inside the property definitions themselves
        T().visit(t)
        for c in ast.walk(t):
            if isinstance(c, ast.ClassDef):
                c.body = [m for m in c.body if not (isinstance(m, ast.FunctionDef) and m.name in props
                                                    and (props[m.name][1] is m or any(m is d for d in same_defs.get(m.name, []))))] or [ast.Pass()]
        ast.fix_missing_locations(t)
    return n


# ----------------------------------------------------------------------------------------
# E0: "method object": `return _Helper(a, b).run()` where the private class only exists to carry the locals of one long
#     function  ->  the function again (attributes become locals, the helper's other methods are inlined at their calls)

def dissolve_method_objects(trees: dict[str, ast.Module]) -> int:
    n = 0
    for t in trees.values():
        classes = {c.name: c for c in t.body if isinstance(c, ast.ClassDef)}
        for wname, w in list(classes.items()):
            if not wname.startswith('_') or wname.startswith('__') or w.decorator_list or w.bases:
                continue
            meths = {s.name: s for s in w.body if isinstance(s, ast.FunctionDef)}
            others = [s for s in w.body if not isinstance(s, ast.FunctionDef) and not (isinstance(s, ast.Expr) and isinstance(s.value, ast.Constant))
                      and not (isinstance(s, ast.AnnAssign) and s.value is None)]
            if others or '__init__' not in meths or any(m.startswith('__') and m != '__init__' for m in meths):
                continue
            # exactly one use in the package: <Class>(args).<method>(args) as the value of a return / assignment / expression statement
            uses = []
            for tt in trees.values():
                for x in ast.walk(tt):
                    if isinstance(x, ast.Name) and x.id == wname and isinstance(x.ctx, ast.Load):
                        uses.append(x)
            if len(uses) != 1:
                continue
            site = None
            for fn in [f for f in ast.walk(t) if isinstance(f, ast.FunctionDef)]:
                for owner in ast.walk(fn):
                    for fld in ('body', 'orelse', 'finalbody'):
                        blk = getattr(owner, fld, None)
                        if not (isinstance(blk, list) and blk and isinstance(blk[0], ast.stmt)):
                            continue
                        for i, st in enumerate(blk):
                            v = st.value if isinstance(st, (ast.Return, ast.Expr, ast.Assign)) else None
                            if isinstance(v, ast.Call) and isinstance(v.func, ast.Attribute) and isinstance(v.func.value, ast.Call) \
                                    and isinstance(v.func.value.func, ast.Name) and v.func.value.func.id == wname and v.func.attr in meths:
                                site = (fn, blk, i, st, v)
            if site is None:
                continue
            fn, blk, i, st, call = site
            init, entry = meths['__init__'], meths[call.func.attr]
            b = _bind_call(init, call.func.value, skip_self=True)
            eb = _bind_call(entry, call, skip_self=True)
            if b is None or eb is None:
                continue
            isn = init.args.args[0].arg
            pref = '_' + wname.strip('_').lower() + '__'
            attr_inits = []
            ok = True
            for s in init.body:
                if isinstance(s, ast.Expr) and isinstance(s.value, ast.Constant):
                    continue
                tg = s.targets[0] if isinstance(s, ast.Assign) and len(s.targets) == 1 else (s.target if isinstance(s, ast.AnnAssign) and s.value is not None else None)
                if isinstance(tg, ast.Attribute) and isinstance(tg.value, ast.Name) and tg.value.id == isn:
                    attr_inits.append((tg.attr, s.value, s))
                else:
                    ok = False
            attrs = {a for a, _v, _s in attr_inits}
            if not ok:
                continue

            def localise(m: ast.FunctionDef, binding: dict, depth: int = 0):
                """Body of method m with self.<attr> -> local names, parameters -> arguments, calls of sibling methods inlined."""
                if depth > 3:
                    return None
                sn = m.args.args[0].arg
                body = [copy.deepcopy(s) for s in m.body if not (isinstance(s, ast.Expr) and isinstance(s.value, ast.Constant))]
                sub = _SubstNames(binding)

                class Attrs(ast.NodeTransformer):
                    def visit_Attribute(self, node):
                        self.generic_visit(node)
                        if isinstance(node.value, ast.Name) and node.value.id == sn and node.attr in attrs:
                            return ast.copy_location(ast.Name(id=pref + node.attr, ctx=node.ctx), node)
                        return node
                out = []
                for s in body:
                    s = sub.visit(Attrs().visit(s))
                    out.append(s)
                # inline `self.other(args)` expression statements
                def expand(block):
                    res = []
                    for s in block:
                        if isinstance(s, ast.Expr) and isinstance(s.value, ast.Call) and isinstance(s.value.func, ast.Attribute) \
                                and isinstance(s.value.func.value, ast.Name) and s.value.func.value.id == sn and s.value.func.attr in meths:
                            callee = meths[s.value.func.attr]
                            if any(isinstance(x, ast.Return) and x.value is not None for x in ast.walk(callee)):
                                return None
                            cb = _bind_call(callee, s.value, skip_self=True)
                            if cb is None or not all(isinstance(v, (ast.Name, ast.Constant)) for v in cb.values()):
                                return None
                            inner = localise(callee, cb, depth + 1)
                            if inner is None:
                                return None
                            res.extend(inner)
                            continue
                        for fld in ('body', 'orelse', 'finalbody'):
                            sub_blk = getattr(s, fld, None)
                            if isinstance(sub_blk, list) and sub_blk and isinstance(sub_blk[0], ast.stmt):
                                e = expand(sub_blk)
                                if e is None:
                                    return None
                                setattr(s, fld, e)
                        for h in getattr(s, 'handlers', []) or []:
                            e = expand(h.body)
                            if e is None:
                                return None
                            h.body = e
                        res.append(s)
                    return res
                out = expand(out)
                if out is None:
                    return None
                # any remaining bare use of self means the object escapes
                if any(isinstance(x, ast.Name) and x.id == sn for s in out for x in ast.walk(s)):
                    return None
                return out

            body = localise(entry, eb)
            if body is None:
                continue
            if not isinstance(st, ast.Return):
                # the value of the call is the entry method's single trailing return
                rets = [x for s in body for x in ast.walk(s) if isinstance(x, ast.Return)]
                if len(rets) > 1 or (rets and rets[0] is not body[-1]):
                    continue
                if rets:
                    last = body.pop()
                    if isinstance(st, ast.Assign):
                        body.append(ast.Assign(targets=st.targets, value=last.value))
                    elif last.value is not None:
                        body.append(ast.Expr(value=last.value))
            sub_args = _SubstNames(b)
            inits = []
            for a, v, s0 in attr_inits:
                asg = ast.Assign(targets=[ast.Name(id=pref + a, ctx=ast.Store())], value=sub_args.visit(copy.deepcopy(v)))
                inits.append(asg)
            new = inits + body
            for x in new:
                ast.copy_location(x, st)
                for y in ast.walk(x):
                    if isinstance(y, (ast.stmt, ast.expr, ast.ExceptHandler)) and not hasattr(y, 'lineno'):
                        ast.copy_location(y, st)
            blk[i:i + 1] = new
            t.body.remove(w)
            n += 1
        ast.fix_missing_locations(t)
    return n


# ----------------------------------------------------------------------------------------
# S0: an extracted *search helper*
#         def _find(self, xs, k):                       v = self._find(xs, k)          try: v = self._find(xs, k)
#             for x in xs:                              if v is not None: USE(v)       except E: continue
#                 try: return F(x, k)                                                  USE(v)
#                 except E: pass / continue
#             return None   /   raise E
#     is put back where it is used:   for x in xs:  try: v = F(x, k)  except E: pass  else: USE(v); break

def inline_search_helpers(trees: dict[str, ast.Module]) -> int:
    n = 0
    for t in trees.values():
        helpers = {}
        for c in [x for x in ast.walk(t) if isinstance(x, ast.ClassDef)] + [t]:
            for f in c.body:
                if not (isinstance(f, ast.FunctionDef) and f.name.startswith('_') and not f.name.startswith('__') and not f.decorator_list):
                    continue
                body = [s for s in f.body if not (isinstance(s, ast.Expr) and isinstance(s.value, ast.Constant))]
                if len(body) != 2 or not isinstance(body[0], ast.For) or body[0].orelse:
                    continue
                lp, tail = body
                if len(lp.body) != 1 or not isinstance(lp.body[0], ast.Try):
                    continue
                tr = lp.body[0]
                if tr.orelse or tr.finalbody or len(tr.body) != 1 or not isinstance(tr.body[0], ast.Return) or tr.body[0].value is None or len(tr.handlers) != 1:
                    continue
                h = tr.handlers[0]
                if not (len(h.body) == 1 and isinstance(h.body[0], (ast.Pass, ast.Continue)) and h.type is not None and h.name is None):
                    continue
                etype = _dotted(h.type)
                mode = None
                if isinstance(tail, ast.Return) and (tail.value is None or (isinstance(tail.value, ast.Constant) and tail.value.value is None)):
                    mode = 'none'
                elif isinstance(tail, ast.Raise) and tail.exc is not None and (_dotted(tail.exc.func if isinstance(tail.exc, ast.Call) else tail.exc) == etype):
                    mode = 'raise'
                if mode is None:
                    continue
                helpers[f.name] = (c, f, lp, tr, h, mode, etype)
        if not helpers:
            continue
        for owner in list(ast.walk(t)):
            for fld in ('body', 'orelse', 'finalbody'):
                blk = getattr(owner, fld, None)
                if not (isinstance(blk, list) and blk and isinstance(blk[0], ast.stmt)):
                    continue
                for i, st in enumerate(list(blk)):
                    call = None
                    target = None
                    rest_start = None
                    use_body = None
                    if isinstance(st, ast.Try) and len(st.body) == 1 and isinstance(st.body[0], ast.Assign) and isinstance(st.body[0].value, ast.Call) \
                            and len(st.handlers) == 1 and not st.orelse and not st.finalbody and len(st.handlers[0].body) == 1 \
                            and isinstance(st.handlers[0].body[0], ast.Continue):
                        call, target = st.body[0].value, st.body[0].targets[0]
                        form = 'raise'
                        use_body = blk[i + 1:]
                        rest_start = i + 1
                    elif isinstance(st, ast.Assign) and isinstance(st.value, ast.Call) and i + 1 < len(blk) and isinstance(blk[i + 1], ast.If) \
                            and not blk[i + 1].orelse and isinstance(blk[i + 1].test, ast.Compare) and isinstance(blk[i + 1].test.ops[0], ast.IsNot) \
                            and isinstance(blk[i + 1].test.comparators[0], ast.Constant) and blk[i + 1].test.comparators[0].value is None \
                            and isinstance(blk[i + 1].test.left, ast.Name) and isinstance(st.targets[0], ast.Name) \
                            and blk[i + 1].test.left.id == st.targets[0].id and i + 2 == len(blk):
                        call, target = st.value, st.targets[0]
                        form = 'none'
                        use_body = blk[i + 1].body
                    if call is None or not isinstance(target, ast.Name):
                        continue
                    hname = call.func.attr if isinstance(call.func, ast.Attribute) else (call.func.id if isinstance(call.func, ast.Name) else None)
                    if hname not in helpers:
                        continue
                    c, f, lp, tr, h, mode, etype = helpers[hname]
                    if mode != form:
                        continue
                    if form == 'raise' and _dotted(st.handlers[0].type) != etype:
                        continue
                    uses = sum(1 for tt in trees.values() for x in ast.walk(tt)
                               if (isinstance(x, ast.Attribute) and x.attr == hname) or (isinstance(x, ast.Name) and x.id == hname))
                    if uses != 1:
                        continue
                    if any(isinstance(x, (ast.Break, ast.Continue, ast.Return)) for s in use_body for x in ast.walk(s)):
                        continue
                    b = _bind_call(f, call, skip_self=isinstance(c, ast.ClassDef))
                    if b is None or not all(isinstance(v, (ast.Name, ast.Attribute, ast.Constant)) for v in b.values()):
                        continue
                    if isinstance(c, ast.ClassDef) and isinstance(call.func, ast.Attribute):
                        b[f.args.args[0].arg] = call.func.value
                    sub = _SubstNames(b)
                    expr = sub.visit(copy.deepcopy(tr.body[0].value))
                    new_try = ast.Try(body=[ast.Assign(targets=[ast.Name(id=target.id, ctx=ast.Store())], value=expr)],
                                      handlers=[ast.ExceptHandler(type=copy.deepcopy(h.type), name=None, body=[ast.Pass()])],
                                      orelse=list(use_body) + [ast.Break()], finalbody=[])
                    new_loop = ast.For(target=copy.deepcopy(lp.target), iter=sub.visit(copy.deepcopy(lp.iter)), body=[new_try], orelse=[], type_comment=None)
                    ast.copy_location(new_loop, st)
                    for y in ast.walk(new_loop):
                        if isinstance(y, (ast.stmt, ast.expr, ast.ExceptHandler)) and not hasattr(y, 'lineno'):
                            ast.copy_location(y, st)
                    if form == 'raise':
                        blk[i:] = [new_loop]
                    else:
                        blk[i:i + 2] = [new_loop]
                    if f in c.body:
                        c.body.remove(f)
                    del helpers[hname]
                    n += 1
                    break
        ast.fix_missing_locations(t)
    return n


# ----------------------------------------------------------------------------------------
# G0: a new single-use private generator that is consumed whole
#         return list(self._iter_found(xs))      with      def _iter_found(self, xs): for …: … yield v …
#     is put back as the accumulator loop:   acc = [];  for …: … acc.append(v) …;  return acc

def inline_listed_generators(trees: dict[str, ast.Module]) -> int:
    n = 0
    for t in trees.values():
        gens = {}
        for c in [x for x in ast.walk(t) if isinstance(x, ast.ClassDef)] + [t]:
            for f in c.body:
                if not (isinstance(f, ast.FunctionDef) and f.name.startswith('_') and not f.name.startswith('__') and not f.decorator_list):
                    continue
                ys = [x for x in ast.walk(f) if isinstance(x, (ast.Yield, ast.YieldFrom))]
                if not ys or any(isinstance(y, ast.YieldFrom) or y.value is None for y in ys):
                    continue
                # every yield is a statement of its own; no `return <value>`; no nested function holds a yield
                stmts_with_yield = [x for x in ast.walk(f) if isinstance(x, ast.Expr) and isinstance(x.value, ast.Yield)]
                if len(stmts_with_yield) != len(ys):
                    continue
                if any(isinstance(x, ast.Return) and x.value is not None for x in ast.walk(f)):
                    continue
                if any(isinstance(x, (ast.FunctionDef, ast.Lambda, ast.AsyncFunctionDef)) and x is not f for x in ast.walk(f)):
                    continue
                gens[f.name] = (c, f)
        if not gens:
            continue
        for owner in list(ast.walk(t)):
            for fld in ('body', 'orelse', 'finalbody'):
                blk = getattr(owner, fld, None)
                if not (isinstance(blk, list) and blk and isinstance(blk[0], ast.stmt)):
                    continue
                for i, st in enumerate(list(blk)):
                    v = st.value if isinstance(st, (ast.Return, ast.Assign)) else None
                    if not (isinstance(v, ast.Call) and isinstance(v.func, ast.Name) and v.func.id == 'list' and len(v.args) == 1 and not v.keywords
                            and isinstance(v.args[0], ast.Call)):
                        continue
                    call = v.args[0]
                    hname = call.func.attr if isinstance(call.func, ast.Attribute) else (call.func.id if isinstance(call.func, ast.Name) else None)
                    if hname not in gens:
                        continue
                    c, f = gens[hname]
                    uses = sum(1 for tt in trees.values() for x in ast.walk(tt)
                               if (isinstance(x, ast.Attribute) and x.attr == hname) or (isinstance(x, ast.Name) and x.id == hname))
                    if uses != 1:
                        continue
                    is_method = isinstance(c, ast.ClassDef)
                    if is_method and not (isinstance(call.func, ast.Attribute) and isinstance(call.func.value, ast.Name)):
                        continue
                    b = _bind_call(f, call, skip_self=is_method)
                    if b is None or not all(isinstance(a, (ast.Name, ast.Attribute, ast.Constant)) for a in b.values()):
                        continue
                    if is_method:
                        b[f.args.args[0].arg] = call.func.value
                    # parameters must not be re-bound in the generator
                    stored = {x.id for x in ast.walk(f) if isinstance(x, ast.Name) and isinstance(x.ctx, ast.Store)}
                    if stored & set(b):
                        continue
                    acc = '_acc__' + hname.strip('_')
                    sub = _SubstNames(b)
                    body = [sub.visit(copy.deepcopy(s)) for s in f.body if not (isinstance(s, ast.Expr) and isinstance(s.value, ast.Constant))]

                    class Y(ast.NodeTransformer):
                        def visit_Expr(self, node):
                            if isinstance(node.value, ast.Yield):
                                return ast.copy_location(ast.Expr(value=ast.Call(
                                    func=ast.Attribute(value=ast.Name(id=acc, ctx=ast.Load()), attr='append', ctx=ast.Load()),
                                    args=[node.value.value], keywords=[])), node)
                            return node

                        def visit_Return(self, node):
                            return node
                    body = [Y().visit(s) for s in body]
                    if any(isinstance(x, ast.Return) for s in body for x in ast.walk(s)):
                        continue      # a bare `return` inside the generator would end the caller
                    init = ast.Assign(targets=[ast.Name(id=acc, ctx=ast.Store())], value=ast.List(elts=[], ctx=ast.Load()))
                    if isinstance(st, ast.Return):
                        tail = ast.Return(value=ast.Name(id=acc, ctx=ast.Load()))
                    else:
                        tail = ast.Assign(targets=st.targets, value=ast.Name(id=acc, ctx=ast.Load()))
                    repl = [init] + body + [tail]
                    for x in repl:
                        ast.copy_location(x, st)
                        for y in ast.walk(x):
                            if isinstance(y, (ast.stmt, ast.expr, ast.ExceptHandler)) and not hasattr(y, 'lineno'):
                                ast.copy_location(y, st)
                    blk[i:i + 1] = repl
                    if f in c.body:
                        c.body.remove(f)
                    del gens[hname]
                    n += 1
                    break
        ast.fix_missing_locations(t)
    return n


# ----------------------------------------------------------------------------------------
# G1: a new single-use private "drain" generator consumed by one for loop
#         def _pending(self):                         for r in self._pending():            while True:
#             while True:                                 BODY                      ->         try: r = Q.get_nowait()
#                 try: yield Q.get_nowait()                                                    except Empty: break
#                 except Empty: return                                                         BODY

def inline_looped_drain_generators(trees: dict[str, ast.Module]) -> int:
    n = 0
    for t in trees.values():
        gens = {}
        for c in [x for x in ast.walk(t) if isinstance(x, ast.ClassDef)] + [t]:
            for f in c.body:
                if not (isinstance(f, ast.FunctionDef) and f.name.startswith('_') and not f.name.startswith('__') and not f.decorator_list):
                    continue
                body = [s for s in f.body if not (isinstance(s, ast.Expr) and isinstance(s.value, ast.Constant))]
                if len(body) != 1 or not isinstance(body[0], ast.While) or body[0].orelse:
                    continue
                w = body[0]
                if not (isinstance(w.test, ast.Constant) and w.test.value is True) or len(w.body) != 1 or not isinstance(w.body[0], ast.Try):
                    continue
                tr = w.body[0]
                if tr.orelse or tr.finalbody or len(tr.body) != 1 or len(tr.handlers) != 1:
                    continue
                y = tr.body[0]
                h = tr.handlers[0]
                if not (isinstance(y, ast.Expr) and isinstance(y.value, ast.Yield) and y.value.value is not None):
                    continue
                if not (len(h.body) == 1 and (isinstance(h.body[0], ast.Break) or (isinstance(h.body[0], ast.Return) and h.body[0].value is None))
                        and h.type is not None and h.name is None):
                    continue
                gens[f.name] = (c, f, tr, h, y.value.value)
        if not gens:
            continue
        for owner in list(ast.walk(t)):
            for fld in ('body', 'orelse', 'finalbody'):
                blk = getattr(owner, fld, None)
                if not (isinstance(blk, list) and blk and isinstance(blk[0], ast.stmt)):
                    continue
                for i, st in enumerate(list(blk)):
                    if not (isinstance(st, ast.For) and not st.orelse and isinstance(st.target, ast.Name) and isinstance(st.iter, ast.Call)):
                        continue
                    call = st.iter
                    hname = call.func.attr if isinstance(call.func, ast.Attribute) else (call.func.id if isinstance(call.func, ast.Name) else None)
                    if hname not in gens:
                        continue
                    c, f, tr, h, yv = gens[hname]
                    uses = sum(1 for tt in trees.values() for x in ast.walk(tt)
                               if (isinstance(x, ast.Attribute) and x.attr == hname) or (isinstance(x, ast.Name) and x.id == hname))
                    if uses != 1:
                        continue
                    is_method = isinstance(c, ast.ClassDef)
                    if is_method and not (isinstance(call.func, ast.Attribute) and isinstance(call.func.value, ast.Name)):
                        continue
                    b = _bind_call(f, call, skip_self=is_method)
                    if b is None or not all(isinstance(a, (ast.Name, ast.Attribute, ast.Constant)) for a in b.values()):
                        continue
                    if is_method:
                        b[f.args.args[0].arg] = call.func.value
                    sub = _SubstNames(b)
                    get = ast.Assign(targets=[ast.Name(id=st.target.id, ctx=ast.Store())], value=sub.visit(copy.deepcopy(yv)))
                    new_try = ast.Try(body=[get], handlers=[ast.ExceptHandler(type=copy.deepcopy(h.type), name=None, body=[ast.Break()])],
                                      orelse=[], finalbody=[])
                    new_loop = ast.While(test=ast.Constant(value=True), body=[new_try] + list(st.body), orelse=[])
                    ast.copy_location(new_loop, st)
                    for y2 in ast.walk(new_loop):
                        if isinstance(y2, (ast.stmt, ast.expr, ast.ExceptHandler)) and not hasattr(y2, 'lineno'):
                            ast.copy_location(y2, st)
                    blk[i] = new_loop
                    if f in c.body:
                        c.body.remove(f)
                    del gens[hname]
                    n += 1
                    break
        ast.fix_missing_locations(t)
    return n
