"""Canonicalisation of *declarations* (runs before the statement-level passes of canon.py).

D0  dataclass without a hand-written __init__  ->  the __init__ the decorator would generate is written out
    (`self.f = f` for init fields, `self.f = <default>` / `<factory>()` for the others, then the body of
    `__post_init__`), so that a hand-written constructor and its @dataclass form are the same program.
N0  private NamedTuple (`class _Pair(NamedTuple)`) -> plain tuples: constructor calls become tuple displays, and
    `.field` becomes `[i]` where the field name is not an attribute of any other class of the package.
K0  new private module-level literal constants (`_TASK_META_KEYS = frozenset({...})`) are substituted at their uses
    (names that exist on the pinned tree are anchors and are kept).
"""
from __future__ import annotations

import ast
import copy
from typing import Optional

KNOWN_MODULE_NAMES = frozenset('''
__version__ __all__ task_makers _RUNNER_FORK_MEMORY jsonable ParamScalar CACHE_DEFAULT _RESERVED_ATTRS
CovariantResultT ResultT LabContext TaskT TaskMonitorInfoValue TaskMonitorInfoItem TaskMonitorInfo logger T
'''.split())


def _dotted(e) -> Optional[str]:
    if isinstance(e, ast.Name):
        return e.id
    if isinstance(e, ast.Attribute):
        b = _dotted(e.value)
        return f'{b}.{e.attr}' if b else None
    return None


def _is_dataclass_deco(d: ast.AST) -> Optional[ast.AST]:
    f = d.func if isinstance(d, ast.Call) else d
    n = _dotted(f) or ''
    return d if n.split('.')[-1] == 'dataclass' else None


def _kw(call: ast.AST, name: str):
    if isinstance(call, ast.Call):
        for k in call.keywords:
            if k.arg == name:
                return k.value
    return None


def desugar_dataclasses(tree: ast.Module) -> int:
    n = 0
    for c in [x for x in ast.walk(tree) if isinstance(x, ast.ClassDef)]:
        deco = next((d for d in c.decorator_list if _is_dataclass_deco(d)), None)
        if deco is None or any(isinstance(s, ast.FunctionDef) and s.name == '__init__' for s in c.body):
            continue
        # only classes that carry behaviour: a __post_init__, a non-init field or a default factory (pure records keep
        # their generated constructor; the rules treat their annotations as the parameter list)
        fields = []
        for s in c.body:
            if isinstance(s, ast.AnnAssign) and isinstance(s.target, ast.Name):
                ann = _dotted(s.annotation.value) if isinstance(s.annotation, ast.Subscript) else _dotted(s.annotation)
                if ann and ann.split('.')[-1] == 'ClassVar':
                    continue
                fields.append((s, ann and ann.split('.')[-1] == 'InitVar'))
        post = next((s for s in c.body if isinstance(s, ast.FunctionDef) and s.name == '__post_init__'), None)
        methods = [s for s in c.body if isinstance(s, ast.FunctionDef)]
        if not methods:
            continue
        all_kwonly = isinstance(deco, ast.Call) and isinstance(_kw(deco, 'kw_only'), ast.Constant) and _kw(deco, 'kw_only').value is True
        pos, kwonly, kwdefaults, defaults, body, initvars = [], [], [], [], [], []
        for s, is_initvar in fields:
            name = s.target.id
            v = s.value
            is_field = isinstance(v, ast.Call) and (_dotted(v.func) or '').split('.')[-1] == 'field'
            default = _kw(v, 'default') if is_field else v
            factory = _kw(v, 'default_factory') if is_field else None
            init = _kw(v, 'init') if is_field else None
            in_init = not (isinstance(init, ast.Constant) and init.value is False)
            kwo = all_kwonly or (is_field and isinstance(_kw(v, 'kw_only'), ast.Constant) and _kw(v, 'kw_only').value is True)
            if in_init:
                a = ast.arg(arg=name, annotation=copy.deepcopy(s.annotation))
                dflt = copy.deepcopy(default) if default is not None else (ast.Constant(value=None) if factory is not None else None)
                if kwo:
                    kwonly.append(a)
                    kwdefaults.append(dflt)
                else:
                    pos.append(a)
                    if dflt is not None:
                        defaults.append(dflt)
                if is_initvar:
                    initvars.append(name)
                    continue
                value: ast.AST = ast.Name(id=name, ctx=ast.Load())
                if factory is not None:
                    value = ast.IfExp(test=ast.Compare(left=ast.Name(id=name, ctx=ast.Load()), ops=[ast.Is()], comparators=[ast.Constant(value=None)]),
                                      body=ast.Call(func=copy.deepcopy(factory), args=[], keywords=[]), orelse=ast.Name(id=name, ctx=ast.Load()))
            else:
                if factory is not None:
                    value = ast.Call(func=copy.deepcopy(factory), args=[], keywords=[])
                elif default is not None:
                    value = copy.deepcopy(default)
                else:
                    continue
            st = ast.Assign(targets=[ast.Attribute(value=ast.Name(id='self', ctx=ast.Load()), attr=name, ctx=ast.Store())], value=value)
            ast.copy_location(st, s)
            body.append(st)
        if post is not None:
            # inline the body of __post_init__ (parameters renamed to the InitVar names, receiver to `self`)
            pparams = [a.arg for a in post.args.args]
            mapping = {}
            if pparams:
                mapping[pparams[0]] = 'self'
                for p, iv in zip(pparams[1:], initvars):
                    mapping[p] = iv
            for st in post.body:
                st2 = copy.deepcopy(st)
                for x in ast.walk(st2):
                    if isinstance(x, ast.Name) and x.id in mapping:
                        x.id = mapping[x.id]
                body.append(st2)
        if not body:
            body = [ast.Pass()]
        fn = ast.FunctionDef(name='__init__',
                             args=ast.arguments(posonlyargs=[], args=[ast.arg(arg='self')] + pos, vararg=None, kwonlyargs=kwonly,
                                                kw_defaults=kwdefaults, kwarg=None, defaults=defaults),
                             body=body, decorator_list=[], returns=None, type_comment=None, type_params=[])
        fn.lineno = c.lineno
        fn.col_offset = c.col_offset + 4
        fn.end_lineno = c.lineno
        fn.end_col_offset = c.col_offset + 4
        fn._synthetic = True
        for x in ast.walk(fn):
            if not hasattr(x, 'lineno') and isinstance(x, (ast.expr, ast.stmt, ast.arg)):
                x.lineno, x.col_offset, x.end_lineno, x.end_col_offset = c.lineno, c.col_offset + 4, c.lineno, c.col_offset + 4
        first_def = next((i for i, s in enumerate(c.body) if isinstance(s, ast.FunctionDef)), len(c.body))
        c.body.insert(first_def, fn)
        if post is not None:
            c.body.remove(post)
        n += 1
    return n


def _namedtuples(trees: dict[str, ast.Module]) -> dict[str, list[str]]:
    out = {}
    for t in trees.values():
        for c in ast.walk(t):
            if isinstance(c, ast.ClassDef) and c.name.startswith('_') and any((_dotted(b) or '').split('.')[-1] == 'NamedTuple' for b in c.bases):
                fs = [s.target.id for s in c.body if isinstance(s, ast.AnnAssign) and isinstance(s.target, ast.Name)]
                if fs and not any(isinstance(s, ast.FunctionDef) for s in c.body):
                    out[c.name] = fs
    return out


def _attribute_names_elsewhere(trees: dict[str, ast.Module], skip_classes: set[str]) -> set[str]:
    names: set[str] = set()
    for t in trees.values():
        for c in ast.walk(t):
            if isinstance(c, ast.ClassDef) and c.name not in skip_classes:
                for s in c.body:
                    if isinstance(s, (ast.FunctionDef, ast.AsyncFunctionDef)):
                        names.add(s.name)
                    elif isinstance(s, ast.AnnAssign) and isinstance(s.target, ast.Name):
                        names.add(s.target.id)
                    elif isinstance(s, ast.Assign):
                        names.update(x.id for x in s.targets if isinstance(x, ast.Name))
                for x in ast.walk(c):
                    if isinstance(x, ast.Attribute) and isinstance(x.ctx, ast.Store) and isinstance(x.value, ast.Name) and x.value.id == 'self':
                        names.add(x.attr)
    return names


def desugar_namedtuples(trees: dict[str, ast.Module]) -> int:
    """Type-directed: `.field` becomes `[i]` only on expressions known to hold one of the private NamedTuples - an entry
    of a container attribute that is filled with constructor calls of it (`self._running[k] = _Pair(a, b)`), a local bound
    to such an entry / to a constructor call, or a loop variable over the container's values."""
    nts = _namedtuples(trees)
    if not nts:
        return 0
    n = 0
    # containers (attribute names) whose stored values are NT constructor calls
    holders: dict[str, str] = {}
    for t in trees.values():
        for x in ast.walk(t):
            if isinstance(x, ast.Assign) and isinstance(x.value, ast.Call) and (_dotted(x.value.func) or '').split('.')[-1] in nts:
                for tg in x.targets:
                    if isinstance(tg, ast.Subscript) and isinstance(tg.value, ast.Attribute):
                        holders[tg.value.attr] = (_dotted(x.value.func) or '').split('.')[-1]

    def holder_entry(e: ast.AST) -> Optional[str]:
        """NT class name if e denotes an entry of a holder container."""
        if isinstance(e, ast.Subscript) and isinstance(e.value, ast.Attribute) and e.value.attr in holders:
            return holders[e.value.attr]
        if isinstance(e, ast.Call) and isinstance(e.func, ast.Attribute) and e.func.attr in ('pop', 'get') \
                and isinstance(e.func.value, ast.Attribute) and e.func.value.attr in holders:
            return holders[e.func.value.attr]
        if isinstance(e, ast.Call) and (_dotted(e.func) or '').split('.')[-1] in nts:
            return (_dotted(e.func) or '').split('.')[-1]
        return None

    def values_iter(e: ast.AST) -> Optional[tuple[str, str]]:
        """('values'|'items', NT) if e iterates the values / items of a holder container (order-preserving wrappers allowed)."""
        while isinstance(e, ast.Call) and isinstance(e.func, ast.Name) and e.func.id in ('list', 'tuple', 'sorted', 'reversed', 'iter') and e.args:
            e = e.args[0]
        if isinstance(e, ast.Call) and isinstance(e.func, ast.Attribute) and e.func.attr in ('values', 'items') \
                and isinstance(e.func.value, ast.Attribute) and e.func.value.attr in holders:
            return e.func.attr, holders[e.func.value.attr]
        return None

    def unwrap(e: ast.AST) -> ast.AST:
        while isinstance(e, ast.Call) and isinstance(e.func, ast.Name) and e.func.id in ('list', 'tuple', 'sorted', 'reversed', 'iter') and e.args:
            e = e.args[0]
        return e

    for t in trees.values():
        for fn in [x for x in ast.walk(t) if isinstance(x, (ast.FunctionDef, ast.AsyncFunctionDef))]:
            # NT-typed names and where they are bound: name -> (class, [binding target nodes])
            local: dict[str, tuple[str, list]] = {}
            seqs: dict[str, tuple[str, str]] = {}      # locals holding the values()/items() of a holder

            def bind(name_node: ast.Name, c: str):
                ent = local.setdefault(name_node.id, (c, []))
                ent[1].append(name_node)

            for x in ast.walk(fn):
                if isinstance(x, ast.Assign) and len(x.targets) == 1 and isinstance(x.targets[0], ast.Name):
                    vi = values_iter(x.value)
                    if vi:
                        seqs[x.targets[0].id] = vi
            for x in ast.walk(fn):
                if isinstance(x, ast.Assign) and len(x.targets) == 1 and isinstance(x.targets[0], ast.Name):
                    c = holder_entry(x.value)
                    if c:
                        bind(x.targets[0], c)
                its = []
                if isinstance(x, (ast.For, ast.AsyncFor)):
                    its.append((x.target, x.iter))
                elif isinstance(x, ast.comprehension):
                    its.append((x.target, x.iter))
                for tg, it in its:
                    vi = values_iter(it)
                    u = unwrap(it)
                    if vi is None and isinstance(u, ast.Name) and u.id in seqs:
                        vi = seqs[u.id]
                    if vi is None:
                        continue
                    if vi[0] == 'values' and isinstance(tg, ast.Name):
                        bind(tg, vi[1])
                    elif vi[0] == 'items' and isinstance(tg, ast.Tuple) and len(tg.elts) == 2 and isinstance(tg.elts[1], ast.Name):
                        bind(tg.elts[1], vi[1])
            # names only ever used as `name.field` are unpacked at their binding: `for (v_a, v_b) in ...`
            parents = {}
            for x in ast.walk(fn):
                for ch in ast.iter_child_nodes(x):
                    parents[id(ch)] = x
            unpack: dict[str, str] = {}
            for name, (c, _sites) in local.items():
                loads = [x for x in ast.walk(fn) if isinstance(x, ast.Name) and x.id == name and isinstance(x.ctx, ast.Load)]
                stores = [x for x in ast.walk(fn) if isinstance(x, ast.Name) and x.id == name and isinstance(x.ctx, ast.Store)]
                if loads and all(isinstance(parents.get(id(x)), ast.Attribute) and parents[id(x)].attr in nts[c] for x in loads) \
                        and all(any(x is sx for sx in _sites) for x in stores):
                    unpack[name] = c

            class A(ast.NodeTransformer):
                def visit_Attribute(self, node: ast.Attribute):
                    nonlocal n
                    self.generic_visit(node)
                    if not isinstance(node.ctx, ast.Load):
                        return node
                    if isinstance(node.value, ast.Name) and node.value.id in unpack and node.attr in nts[unpack[node.value.id]]:
                        n += 1
                        return ast.copy_location(ast.Name(id=f'{node.value.id}_{node.attr}', ctx=ast.Load()), node)
                    c = None
                    if isinstance(node.value, ast.Name) and node.value.id in local:
                        c = local[node.value.id][0]
                    else:
                        c = holder_entry(node.value)
                    if c and node.attr in nts[c]:
                        n += 1
                        return ast.copy_location(ast.Subscript(value=node.value, slice=ast.Constant(value=nts[c].index(node.attr)), ctx=ast.Load()), node)
                    return node

                def visit_Name(self, node: ast.Name):
                    if isinstance(node.ctx, ast.Store) and node.id in unpack and any(node is sx for sx in local[node.id][1]):
                        return ast.copy_location(ast.Tuple(elts=[ast.Name(id=f'{node.id}_{f}', ctx=ast.Store()) for f in nts[unpack[node.id]]],
                                                           ctx=ast.Store()), node)
                    return node
            A().visit(fn)
            # `x = H[k][i]`  ->  `(_, x) = H[k]`
            for x in ast.walk(fn):
                if isinstance(x, ast.Assign) and len(x.targets) == 1 and isinstance(x.targets[0], ast.Name) \
                        and isinstance(x.value, ast.Subscript) and isinstance(x.value.slice, ast.Constant) and isinstance(x.value.slice.value, int):
                    c = holder_entry(x.value.value)
                    if c and not (isinstance(x.value.value, ast.Call) and (_dotted(x.value.value.func) or '').split('.')[-1] in nts):
                        i = x.value.slice.value
                        elts = [ast.Name(id='_', ctx=ast.Store()) for _ in nts[c]]
                        if 0 <= i < len(elts):
                            elts[i] = x.targets[0]
                            x.targets = [ast.Tuple(elts=elts, ctx=ast.Store())]
                            x.value = x.value.value
                            n += 1

    class T(ast.NodeTransformer):
        def visit_Call(self, node: ast.Call):
            nonlocal n
            self.generic_visit(node)
            name = (_dotted(node.func) or '').split('.')[-1]
            if name in nts and not any(isinstance(a, ast.Starred) for a in node.args) and all(k.arg for k in node.keywords):
                fs = nts[name]
                vals: list[Optional[ast.AST]] = [None] * len(fs)
                for i, a in enumerate(node.args[:len(fs)]):
                    vals[i] = a
                for k in node.keywords:
                    if k.arg in fs:
                        vals[fs.index(k.arg)] = k.value
                if all(v is not None for v in vals):
                    n += 1
                    return ast.copy_location(ast.Tuple(elts=vals, ctx=ast.Load()), node)
            return node

    for t in trees.values():
        T().visit(t)
        ast.fix_missing_locations(t)
    return n


def _literal_constant(v: ast.AST) -> Optional[ast.AST]:
    """The expression to substitute for a private literal constant, or None."""
    if isinstance(v, ast.Constant):
        return v
    if isinstance(v, (ast.Tuple, ast.Set, ast.List)) and all(isinstance(e, ast.Constant) for e in v.elts):
        return v
    if isinstance(v, ast.Call) and (_dotted(v.func) or '') in ('frozenset', 'set', 'tuple') and len(v.args) == 1 and not v.keywords:
        inner = v.args[0]
        if isinstance(inner, (ast.Tuple, ast.Set, ast.List)) and all(isinstance(e, ast.Constant) for e in inner.elts):
            if _dotted(v.func) in ('frozenset', 'set'):
                return ast.Set(elts=list(inner.elts))
            return ast.Tuple(elts=list(inner.elts), ctx=ast.Load())
    return None


def inline_new_constants(tree: ast.Module) -> int:
    consts: dict[str, ast.AST] = {}
    stores: dict[str, int] = {}
    for x in ast.walk(tree):
        if isinstance(x, ast.Name) and isinstance(x.ctx, (ast.Store, ast.Del)):
            stores[x.id] = stores.get(x.id, 0) + 1
    for st in tree.body:
        tgt, val = None, None
        if isinstance(st, ast.Assign) and len(st.targets) == 1 and isinstance(st.targets[0], ast.Name):
            tgt, val = st.targets[0].id, st.value
        elif isinstance(st, ast.AnnAssign) and isinstance(st.target, ast.Name) and st.value is not None:
            tgt, val = st.target.id, st.value
        if tgt is None or not tgt.startswith('_') or tgt.startswith('__') or tgt in KNOWN_MODULE_NAMES or stores.get(tgt, 0) != 1:
            continue
        lit = _literal_constant(val)
        if lit is not None:
            consts[tgt] = lit
    if not consts:
        return 0
    n = 0

    class T(ast.NodeTransformer):
        def visit_Name(self, node: ast.Name):
            nonlocal n
            if isinstance(node.ctx, ast.Load) and node.id in consts:
                n += 1
                return ast.copy_location(copy.deepcopy(consts[node.id]), node)
            return node

    for st in tree.body:
        if isinstance(st, (ast.FunctionDef, ast.AsyncFunctionDef, ast.ClassDef)):
            T().visit(st)
    ast.fix_missing_locations(tree)
    return n
