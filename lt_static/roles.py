"""Entities located by role (DESIGN.md Appendix A): consumer loop of Runner.wait, submission
site, scheduler state class and its phases, concrete runners, worker entry function."""
from __future__ import annotations

import ast
from dataclasses import dataclass
from typing import Optional

from .engine import Ctx, calls_in, field_writes, kwarg
from .model import PKG, AnalysisError, ClassInfo, FuncInfo, dotted, walk_local

RUNNER = f'{PKG}.types.Runner'
RUNNER_BACKEND = f'{PKG}.types.RunnerBackend'
STORAGE = f'{PKG}.types.Storage'
CACHE = f'{PKG}.types.Cache'


def _cached(name):
    def deco(fn):
        def wrapper(ctx: Ctx):
            store = ctx.__dict__.setdefault('_roles', {})
            if name not in store:
                store[name] = fn(ctx)
            return store[name]
        return wrapper
    return deco


def interface(ctx: Ctx, qn: str) -> ClassInfo:
    if qn not in ctx.P.classes:
        raise AnalysisError(f'abstract interface {qn} not found')
    return ctx.P.classes[qn]


def impls(ctx: Ctx, iface: str, method: str, minimum: int = 1) -> list[FuncInfo]:
    interface(ctx, iface)
    out = ctx.P.implementations(iface, method)
    if len(out) < minimum:
        raise AnalysisError(f'found {len(out)} implementation(s) of {iface.rsplit(".", 1)[-1]}.{method}, '
                            f'need at least {minimum}')
    return out


@dataclass
class ConsumerLoop:
    fn: FuncInfo
    loop: ast.For
    task_var: str
    res_var: str
    wait_calls: list = None     # [(function, the Runner.wait(...) call)]: the loop's own iterable, or what reaches its parameter

    @property
    def wait_call(self) -> ast.Call:
        return self.wait_calls[0][1]


def _wait_calls_reaching_param(ctx: Ctx, fn: FuncInfo, pname: str, wait_impls: set) -> Optional[list]:
    """`for … in <param>` inside a local closure: every call site of the closure passes Runner.wait(...) - directly or through
    a local that holds nothing else."""
    if fn.parent is None or pname not in [a.arg for a in fn.params]:
        return None
    idx = [a.arg for a in fn.params].index(pname)
    out = []
    host = fn.parent
    sites = []
    for f in [host] + list(host.nested.values()):
        for c in calls_in(f.node):
            if isinstance(c.func, ast.Name) and c.func.id == fn.name:
                sites.append((f, c))
    if not sites:
        return None
    for f, c in sites:
        a = c.args[idx] if len(c.args) > idx else next((k.value for k in c.keywords if k.arg == pname), None)
        if isinstance(a, ast.Name):
            defs = [n for n in walk_local(f.node) if isinstance(n, ast.Assign) and len(n.targets) == 1
                    and isinstance(n.targets[0], ast.Name) and n.targets[0].id == a.id]
            if len(defs) != 1:
                return None
            a = defs[0].value
        if not (isinstance(a, ast.Call) and set(ctx.P.resolve_call(a, f)) & wait_impls):
            return None
        out.append((f, a))
    return out


@_cached('consumer_loops')
def consumer_loops(ctx: Ctx) -> list[ConsumerLoop]:
    wait_impls = {f.qualname for f in impls(ctx, RUNNER, 'wait')}
    out = []
    for fn in ctx.P.all_functions():
        if fn.module.name.startswith(f'{PKG}.runners'):
            continue
        for n in walk_local(fn.node):
            if not isinstance(n, ast.For):
                continue
            wc = None
            if isinstance(n.iter, ast.Call) and set(ctx.P.resolve_call(n.iter, fn)) & wait_impls:
                wc = [(fn, n.iter)]
            elif isinstance(n.iter, ast.Name):
                wc = _wait_calls_reaching_param(ctx, fn, n.iter.id, wait_impls)
            if not wc:
                continue
            t = n.target
            if isinstance(t, ast.Tuple) and len(t.elts) == 2 and all(isinstance(e, ast.Name) for e in t.elts):
                out.append(ConsumerLoop(fn, n, t.elts[0].id, t.elts[1].id, wc))
            else:
                raise AnalysisError(f'{fn.where(n)}: consumer loop of Runner.wait does not unpack (task, outcome)')
    if not out:
        raise AnalysisError('no consumer loop of Runner.wait found outside the runners')
    return out


@dataclass
class SubmissionSite:
    fn: FuncInfo
    call: ast.Call
    task_arg: ast.expr


@_cached('submission_sites')
def submission_sites(ctx: Ctx) -> list[SubmissionSite]:
    targets = {f.qualname for f in impls(ctx, RUNNER, 'submit_task')}
    out = []
    for fn in ctx.P.all_functions():
        if fn.module.name.startswith(f'{PKG}.runners'):
            continue
        for call in calls_in(fn.node):
            if set(ctx.P.resolve_call(call, fn)) & targets:
                ta = kwarg(call, 'task', 0)
                if ta is None:
                    raise AnalysisError(f'{fn.where(call)}: submit_task call without a task argument')
                out.append(SubmissionSite(fn, call, ta))
    if not out:
        raise AnalysisError('no call to Runner.submit_task found outside the runners')
    return out


@dataclass
class StatePhases:
    cls: ClassInfo
    construction: list[FuncInfo]
    start: list[FuncInfo]
    completion: list[FuncInfo]
    query: list[FuncInfo]
    start_method: FuncInfo
    complete_method: FuncInfo
    ready_method: FuncInfo

    def phase_of(self, fn: FuncInfo) -> str:
        for name in ('construction', 'start', 'completion', 'query'):
            if any(f.qualname == fn.qualname for f in getattr(self, name)):
                return name
        return 'other'


@_cached('state')
def state(ctx: Ctx) -> StatePhases:
    """The scheduler state class: instantiated in the function that contains the submission
    site; receiver of the call that precedes submit_task in the same loop body (start method),
    of the call made on each outcome in the consumer loop (completion method) and of the call
    whose result the submit loop iterates (ready method)."""
    P = ctx.P
    sub = submission_sites(ctx)[0]
    # 1. anchors named by the properties file (TaskState.start_task / complete_task / get_ready_tasks):
    #    used when present, so that a change that *removes a call* to one of them is reported by the
    #    rule that requires the call, not as a lost anchor
    named = P.classes.get(f'{PKG}.lab.TaskState')
    if named is not None and all(n in named.methods for n in ('__init__', 'start_task', 'complete_task', 'get_ready_tasks')):
        return _phases(ctx, named, 'start_task', 'complete_task', 'get_ready_tasks')
    # 2. role-based discovery (the class was renamed / restructured)
    # candidate classes instantiated in the submitting function
    cand: dict[str, str] = {}
    for n in walk_local(sub.fn.node):
        if isinstance(n, ast.Assign) and len(n.targets) == 1 and isinstance(n.targets[0], ast.Name) \
                and isinstance(n.value, ast.Call):
            for c in P.resolve_call(n.value, sub.fn):
                if c in P.classes and P.classes[c].module.name == sub.fn.module.name:
                    cand[n.targets[0].id] = c
    if not cand:
        raise AnalysisError(f'{sub.fn.where()}: no scheduler state object is constructed in the submitting function')

    def methods_called_on(var: str, root: ast.AST) -> list[tuple[str, ast.Call]]:
        out = []
        for call in calls_in(root, local=True):
            if isinstance(call.func, ast.Attribute) and isinstance(call.func.value, ast.Name) \
                    and call.func.value.id == var:
                out.append((call.func.attr, call))
        return out

    cl = consumer_loops(ctx)[0]
    best = None
    for var, cqn in cand.items():
        c = P.classes[cqn]
        # completion: called in the consumer loop with the yielded task
        comp = [m for (m, call) in methods_called_on(var, cl.loop)
                if call.args and isinstance(call.args[0], ast.Name) and call.args[0].id == cl.task_var]
        # start: called with the submitted task in the loop containing the submission site
        sub_loop = _enclosing_for(sub.fn.node, sub.call)
        start = []
        ready = []
        if sub_loop is not None:
            tv = sub_loop.target.id if isinstance(sub_loop.target, ast.Name) else None
            for (m, call) in methods_called_on(var, sub_loop):
                if call.args and isinstance(call.args[0], ast.Name) and call.args[0].id == tv:
                    start.append(m)
            # ready: the iterable of that loop derives from a call on the state object
            it = sub_loop.iter
            if isinstance(it, ast.Name):
                for n in walk_local(sub.fn.node):
                    if isinstance(n, ast.Assign) and any(isinstance(t, ast.Name) and t.id == it.id for t in n.targets) \
                            and isinstance(n.value, ast.Call):
                        for (m, call) in methods_called_on(var, n):
                            ready.append(m)
            elif isinstance(it, ast.Call):
                for (m, call) in methods_called_on(var, ast.Expr(value=it)):
                    ready.append(m)
        if comp and start and ready:
            best = (c, start[0], comp[0], ready[0])
            break
    if best is None:
        raise AnalysisError('could not identify the scheduler state class (start / completion / ready methods) '
                            f'from the submission site and the consumer loop in {sub.fn.short}')
    c, start_m, comp_m, ready_m = best
    return _phases(ctx, c, start_m, comp_m, ready_m)


def _phases(ctx: Ctx, c: ClassInfo, start_m: str, comp_m: str, ready_m: str) -> StatePhases:
    P = ctx.P
    sm, cm, rm = (P.find_method(c, x) for x in (start_m, comp_m, ready_m))
    if sm is None or cm is None or rm is None:
        raise AnalysisError(f'state class {c.name} lacks one of {start_m}/{comp_m}/{ready_m}')
    methods = list(c.methods.values())
    init = c.methods.get('__init__')
    if init is None:
        raise AnalysisError(f'state class {c.name} has no __init__')

    def closure_within(root: FuncInfo) -> set[str]:
        return {f.qualname for f in P.closure([root]) if f.cls is c or (f.parent is not None and _top(f).cls is c)}

    cons = closure_within(init)
    st = closure_within(sm) - cons
    co = closure_within(cm) - cons
    # functions reachable from more than one phase root are not owned by any phase
    shared = (cons & closure_within(sm)) | (cons & closure_within(cm)) | (closure_within(sm) & closure_within(cm))
    qy = {f.qualname for f in methods} - cons - st - co
    cons_l = [P.funcs[q] for q in sorted(cons - (shared - {init.qualname}))]
    return StatePhases(c, cons_l, [P.funcs[q] for q in sorted(st - shared) or [sm.qualname]] if (st - shared) else [sm],
                       [P.funcs[q] for q in sorted(co - shared)] if (co - shared) else [cm],
                       [P.funcs[q] for q in sorted(qy)], sm, cm, rm)


def _top(f: FuncInfo) -> FuncInfo:
    while f.parent is not None:
        f = f.parent
    return f


def _innermost_containing(fn_node: ast.AST, target: ast.AST, types) -> Optional[ast.AST]:
    """The innermost statement of the given types that contains target (by containment, not by line
    number: inlined code keeps the line numbers of where it came from)."""
    cands = []
    for n in walk_local(fn_node):
        if isinstance(n, types) and any(sub is target for sub in ast.walk(n)) and n is not target:
            cands.append(n)
    for c in cands:
        if not any(o is not c and any(x is o for x in ast.walk(c)) for o in cands):
            return c
    return None


def _enclosing_for(fn_node: ast.AST, target: ast.AST) -> Optional[ast.For]:
    return _innermost_containing(fn_node, target, ast.For)


@_cached('runners')
def runner_classes(ctx: Ctx) -> list[ClassInfo]:
    interface(ctx, RUNNER)
    out = [c for c in ctx.P.concrete_subclasses(RUNNER)]
    if not out:
        raise AnalysisError('no concrete Runner subclass found')
    return out


@_cached('worker_entry')
def worker_entry(ctx: Ctx) -> FuncInfo:
    """The function executed in the child for one task: the package function that calls
    run_or_load_task and is handed (directly or through a wrapper) to the executor."""
    P = ctx.P
    rolt = P.func('runners.base.run_or_load_task')
    cands = []
    for fn in P.all_functions():
        if not fn.module.name.endswith('.process'):
            continue
        for call in calls_in(fn.node):
            if rolt.qualname in P.resolve_call(call, fn):
                cands.append(fn)
    if len(cands) != 1:
        raise AnalysisError(f'expected exactly one worker entry function calling run_or_load_task in runners/process.py, found {[c.short for c in cands]}')
    return cands[0]


def enclosing_loop_of(fn_node: ast.AST, target: ast.AST):
    return _innermost_containing(fn_node, target, (ast.For, ast.While))


# ----------------------------------------------------------------------------------------
# scheduler-state fields by role


@dataclass
class StateFields:
    pending: str            # collection of not-yet-started tasks (OrderedSet)
    direct_deps: str        # task -> all direct dependencies (never shrinks)
    pending_deps: Optional[str]   # task -> dependencies not yet finished
    pending_dependents: Optional[str]  # dependency -> dependents not yet finished
    active: Optional[str]   # type -> tasks submitted and not completed
    instances: Optional[str]  # task -> all equal instances seen
    insert_fn: FuncInfo
    insert_loop: Optional[ast.For]
    insert_task_var: str
    insert_dep_var: Optional[str]
    direct_deps_whole_assign: Optional[ast.Assign] = None   # `self.<direct_deps>[t] = deps` (by reference or copied)


def _sub_key_name(e: ast.AST, self_name: str) -> Optional[tuple[str, ast.AST]]:
    """self.F[key] -> (F, key)"""
    if isinstance(e, ast.Subscript) and isinstance(e.value, ast.Attribute) \
            and isinstance(e.value.value, ast.Name) and e.value.value.id == self_name:
        return (e.value.attr, e.slice)
    return None


@_cached('state_fields')
def state_fields(ctx: Ctx) -> StateFields:
    st = state(ctx)
    P = ctx.P
    # the insertion function: construction-phase function with the pattern
    #   for d in <deps>: self.A[t].add(d); self.C[d].add(t)
    best = None
    fallback = None
    for fn in st.construction:
        sn = fn.self_name
        if sn is None:
            continue
        all_loops = [n for n in walk_local(fn.node) if isinstance(n, ast.For) and isinstance(n.target, ast.Name)]
        # innermost loops first: the edge-registration loop is the one directly containing the add() calls
        snapshot = list(all_loops)
        all_loops.sort(key=lambda lp: -sum(1 for o in snapshot if o is not lp and any(x is lp for x in ast.walk(o))))
        for loop in all_loops:
            dv = loop.target.id
            by_task: list[str] = []
            by_dep: list[str] = []
            tvar = None
            for call in calls_in(loop):
                if isinstance(call.func, ast.Attribute) and call.func.attr == 'add' and len(call.args) == 1 \
                        and isinstance(call.args[0], ast.Name):
                    sk = _sub_key_name(call.func.value, sn)
                    if sk is None or not isinstance(sk[1], ast.Name):
                        continue
                    if call.args[0].id == dv and sk[1].id != dv:
                        by_task.append(sk[0])
                        tvar = sk[1].id
                    elif sk[1].id == dv and call.args[0].id != dv:
                        by_dep.append(sk[0])
                        tvar = call.args[0].id
            if by_task and by_dep:
                best = (fn, loop, tvar, dv, by_task, by_dep)
                break
            if (by_task or by_dep) and fallback is None:
                fallback = (fn, loop, tvar, dv, by_task, by_dep)
        if best:
            break
    best = best or fallback
    if best is None:
        raise AnalysisError(f'no dependency-edge registration loop found in the construction phase of {st.cls.name}')
    fn, loop, tvar, dv, by_task, by_dep = best
    sn = fn.self_name
    # a per-task map filled by one whole assignment `self.F[t] = deps` / `self.F[t] = set(deps)` instead of per-element adds
    whole_assign = None
    it_name = loop.iter.id if isinstance(loop.iter, ast.Name) else None
    if it_name is not None and tvar is not None:
        for n in walk_local(fn.node):
            if isinstance(n, ast.Assign) and len(n.targets) == 1:
                sk = _sub_key_name(n.targets[0], sn)
                if sk is None or not (isinstance(sk[1], ast.Name) and sk[1].id == tvar) or sk[0] in by_task:
                    continue
                v = n.value
                if isinstance(v, ast.Call) and len(v.args) == 1 and not v.keywords and isinstance(v.func, ast.Name):
                    v = v.args[0]
                if isinstance(v, ast.Name) and v.id == it_name:
                    by_task.append(sk[0])
                    whole_assign = n
    # fields mutated in the completion phase
    removed_in_completion: set[str] = set()
    for cf in st.completion:
        for w in field_writes(cf):
            if w.kind in ('mutcall:remove', 'mutcall:discard', 'item_delete', 'mutcall:pop'):
                removed_in_completion.add(w.field)
    ready_reads: set[str] = set()
    for n in walk_local(st.ready_method.node):
        if isinstance(n, ast.Attribute) and isinstance(n.value, ast.Name) and n.value.id == st.ready_method.self_name:
            ready_reads.add(n.attr)
    pd = None
    for f in by_task:
        if f in removed_in_completion:
            pd = f
    if pd is None:
        for f in by_task:
            if f in ready_reads:
                pd = f
    dd_cands = [f for f in by_task if f != pd]
    if not dd_cands:
        raise AnalysisError(f'{fn.where(loop)}: cannot identify the never-shrinking direct-dependency map in {fn.short}')
    dd = dd_cands[0]
    pt = by_dep[0] if by_dep else None
    # pending set: `.add(task)` of the inserted task on a bare self field in the insertion function
    pending = None
    instances = None
    for call in calls_in(fn.node):
        if isinstance(call.func, ast.Attribute) and len(call.args) == 1 and isinstance(call.args[0], ast.Name) \
                and call.args[0].id == tvar:
            recv = call.func.value
            if call.func.attr == 'add' and isinstance(recv, ast.Attribute) and isinstance(recv.value, ast.Name) \
                    and recv.value.id == sn:
                pending = recv.attr
            sk = _sub_key_name(recv, sn)
            if call.func.attr == 'append' and sk is not None and isinstance(sk[1], ast.Name) and sk[1].id == tvar:
                instances = sk[0]
    if pending is None:
        raise AnalysisError(f'{fn.where()}: cannot identify the pending-task collection in {fn.short}')
    active = None
    smn = st.start_method.self_name
    for call in calls_in(st.start_method.node):
        if isinstance(call.func, ast.Attribute) and call.func.attr == 'add':
            sk = _sub_key_name(call.func.value, smn)
            if sk is not None and isinstance(sk[1], ast.Call) and dotted(sk[1].func) == 'type':
                active = sk[0]
    return StateFields(pending, dd, pd, pt, active, instances, fn, loop, tvar, dv,
                       whole_assign if (whole_assign is not None and _sub_key_name(whole_assign.targets[0], sn)[0] == dd) else None)
