"""Runs the rules of one property over a source mapping; writes evidence; applies the
known-findings file; produces the exit status."""
from __future__ import annotations

import importlib
import json
import os
import pkgutil
import time
import traceback
from typing import Optional

from . import cfg as cfgmod
from . import dataflow
from .engine import ERROR, HOLDS, RULES, VIOLATED, Ctx, Ob, digest
from .model import AnalysisError, Program

ROOT = os.path.dirname(os.path.dirname(os.path.abspath(__file__)))
REPO = os.environ.get('LT_STATIC_REPO', '/repo')
EVIDENCE_DIR = os.path.join(ROOT, 'evidence')
KNOWN_FILE = os.path.join(ROOT, 'known_findings.json')

_loaded = False


def load_rules() -> None:
    global _loaded
    if _loaded:
        return
    from . import rules as rules_pkg
    for m in pkgutil.iter_modules(rules_pkg.__path__):
        importlib.import_module(f'{rules_pkg.__name__}.{m.name}')
    _loaded = True


def rules_for(pid: str, tier: str) -> list:
    load_rules()
    out = []
    for rid in sorted(RULES):
        r = RULES[rid]
        if pid in r.props and (tier == 'thorough' or r.tier == 'quick'):
            out.append(r)
    return out


def run_rules(program: Program, pid: str, tier: str, only_rule: Optional[str] = None) -> tuple[list[Ob], Ctx, list[dict]]:
    """Returns (obligations, ctx, per-rule summary). Never raises for rule failures: they become
    ANALYSIS-ERROR obligations."""
    cfgmod.clear_cache()
    dataflow.clear_cache()
    ctx = Ctx(program, tier)
    ctx.pid = pid
    obs: list[Ob] = []
    summary = []
    try:
        program.check_anchor_modules()
    except AnalysisError as ex:
        obs.append(Ob('ANCHORS', ERROR, 'labtech/', '', 'package layout', str(ex), 'anchors'))
        return obs, ctx, summary
    for r in rules_for(pid, tier):
        if only_rule and r.rid != only_rule:
            continue
        mine: list[Ob] = []
        try:
            for ob in r.fn(ctx):
                mine.append(ob)
            if len(mine) < r.min_instances:
                mine.append(Ob(r.rid, ERROR, 'labtech/', '', 'instance count',
                               f'rule found {len(mine)} instance(s), fewer than the {r.min_instances} '
                               f'required for it to be meaningful (an anchor of this rule has vanished)',
                               'instance-minimum'))
        except AnalysisError as ex:
            mine.append(Ob(r.rid, ERROR, 'labtech/', '', 'anchor', str(ex), 'analysis-error'))
        except RecursionError as ex:  # pragma: no cover
            mine.append(Ob(r.rid, ERROR, 'labtech/', '', 'internal', f'recursion limit: {ex}', 'internal'))
        except Exception as ex:  # internal failure of the analyser: never a silent pass
            tb = traceback.format_exc().strip().splitlines()
            mine.append(Ob(r.rid, ERROR, 'labtech/', '', 'internal',
                           f'{type(ex).__name__}: {ex} [{tb[-3].strip() if len(tb) >= 3 else ""}]', 'internal'))
        obs.extend(mine)
        summary.append({'rule': r.rid, 'instances': len(mine),
                        'violated': sum(1 for o in mine if o.verdict == VIOLATED),
                        'errors': sum(1 for o in mine if o.verdict == ERROR),
                        'doc': r.doc.split('\n')[0]})
    return obs, ctx, summary


def load_known() -> dict:
    if not os.path.exists(KNOWN_FILE):
        return {'known': [], 'fixed': []}
    with open(KNOWN_FILE) as f:
        return json.load(f)


def check_property(pid: str, tier: str = 'quick', seed: int = 0, repo: Optional[str] = None,
                   write_evidence: bool = True, quiet: bool = False) -> int:
    t0 = time.time()
    repo = repo or REPO
    out_lines: list[str] = []

    def say(s: str) -> None:
        out_lines.append(s)
        if not quiet:
            try:
                print(s, flush=True)
            except BrokenPipeError:
                pass

    try:
        program = Program.from_dir(repo)
        obs, ctx, summary = run_rules(program, pid, tier)
    except Exception as ex:  # pragma: no cover
        say(f'ANALYSIS-ERROR property={pid} internal failure: {type(ex).__name__}: {ex}')
        if not quiet:
            traceback.print_exc()
        return 2

    extra: dict = {}
    if tier == 'thorough':
        try:
            from . import selftest
            extra = selftest.run_for_property(pid, program, seed=seed, say=say)
            for o in extra.pop('obs', []):
                obs.append(o)
        except Exception as ex:
            say(f'ANALYSIS-ERROR property={pid} self-test machinery failed: {type(ex).__name__}: {ex}')
            if not quiet:
                traceback.print_exc()
            obs.append(Ob('SELFTEST', ERROR, 'lt_static/selftest.py', '', 'self-test', f'{type(ex).__name__}: {ex}', 'selftest'))

    known = load_known()
    known_keys = {k['key']: k for k in known.get('known', []) if k.get('property') == pid}
    violations = [o for o in obs if o.verdict == VIOLATED]
    errors = [o for o in obs if o.verdict == ERROR]
    new_violations = [o for o in violations if o.key not in known_keys]
    known_hits = [o for o in violations if o.key in known_keys]

    if not rules_for(pid, tier):
        say(f'ANALYSIS-ERROR property={pid} no rules registered')
        return 2

    say(f'[{pid}] tier={tier} rules={len(summary)} obligations={len(obs)} '
        f'holds={sum(1 for o in obs if o.verdict == HOLDS)} violated={len(violations)} '
        f'(known {len(known_hits)}) errors={len(errors)}')
    for s in summary:
        say(f'  {s["rule"]:34s} instances={s["instances"]:<3d} violated={s["violated"]} errors={s["errors"]}')
    for o in errors:
        say(f'ANALYSIS-ERROR property={pid} rule={o.rule} {o.where} {o.function} {o.instance}: {o.message}')
    for o in known_hits:
        say(f'KNOWN-FINDING: property={pid} rule={o.rule} {o.where} {o.function}: {known_keys[o.key].get("what", o.message)}')
    replay_paths = []
    if new_violations:
        os.makedirs(os.path.join(EVIDENCE_DIR, 'replay'), exist_ok=True)
    for o in new_violations:
        say(f'{o.where}: {o.function}: rule {o.rule}: {o.instance}: {o.message}')
        rp = os.path.join(EVIDENCE_DIR, 'replay', f'{pid}-{o.rule.replace(".", "_")}-{digest(o.key)}.json')
        try:
            with open(rp, 'w') as f:
                json.dump({'property': pid, 'obligation': o.as_dict(), 'tier': tier}, f, indent=1)
        except OSError:
            pass
        replay_paths.append(rp)
        say(f'VIOLATION property={pid} replay={rp}')

    wall = time.time() - t0
    if write_evidence:
        write_evidence_file(pid, tier, seed, obs, ctx, summary, program, known_hits, new_violations, errors,
                            wall, extra)
    # a reported violation is the verdict even when another rule lost its anchor on the same tree
    if new_violations:
        return 1
    if errors:
        return 2
    return 0


def write_evidence_file(pid, tier, seed, obs, ctx, summary, program, known_hits, new_violations, errors,
                        wall, extra) -> None:
    os.makedirs(EVIDENCE_DIR, exist_ok=True)
    from .registry import PROPERTIES
    stats = program.stats()
    held = [o for o in obs if o.verdict == HOLDS]
    distinct_sites = {(o.rule, o.function, o.construct) for o in obs}
    samples = [o.as_dict() for o in obs[:400]]
    p = PROPERTIES.get(pid, {})
    ev = {
        'property_id': pid,
        'tier': tier,
        'seed': seed,
        'level': 'other',
        'coverage': {
            'explanation': (
                f'Static analysis of /repo/labtech as it is on disk ({stats["modules"]} modules, '
                f'{stats["functions"]} functions, {stats["call_sites"]} call sites, '
                f'{stats["call_sites_unresolved"]} without a resolved callee). '
                f'{len(summary)} rules were evaluated for {pid}; each rule enumerates all instances of its '
                f'site pattern in the resolved program and checks a structural relation (dominance, must-pass, '
                f'provenance, ownership, table agreement, truth table or linear normal form) that is a necessary '
                f'condition of the property. ' + p.get('technique', '')),
            'obligations': len(obs),
            'discharged': len(held) + len(known_hits),
            'evaluations': len(obs),
            'distinct_nontrivial': len(distinct_sites),
            'rule': ('one evaluation = one rule instance (a call site, guard, loop, table row, write effect or CFG '
                     'path region) found in the current source; distinct = distinct (rule, function, normalised '
                     'construct) triples'),
            'samples': samples,
            'rules': summary,
            'functions_analysed': sorted(q[len('labtech.'):] for q in ctx.consumed_functions),
            'call_sites_resolved': stats['call_sites'] - stats['call_sites_unresolved'],
            'call_sites_unresolved': stats['call_sites_unresolved'],
            'known_findings': [o.as_dict() for o in known_hits],
            'checker_cmd': f'/venv/bin/python check.py {pid} --tier {tier}',
            'trusted_base': ['CPython ast parser', 'documented semantics of the stdlib calls named by the rules',
                             'lt_static engines (exercised by the self-test variants in the thorough tier)'],
            'exhaustive': False,
            **extra,
        },
        'assumptions': [
            'Only the S-clauses (structural necessary conditions) of the property are decided; see level_note in MANIFEST.json and DESIGN.md section 8 for the clauses not decided.',
            'User task code (run(), post_init(), filter_context() overrides) is opaque.',
        ],
        'wall_s': round(wall, 3),
        'violations': len(new_violations),
        'analysis_errors': len(errors),
    }
    path = os.path.join(EVIDENCE_DIR, f'{pid}.json')
    tmp = path + '.tmp'
    with open(tmp, 'w') as f:
        json.dump(ev, f, indent=1)
        f.write('\n')
    os.replace(tmp, path)
