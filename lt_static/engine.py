"""Rule engine: obligations, rule registry, shared analysis context and AST helpers."""
from __future__ import annotations

import ast
import hashlib
import re
from dataclasses import dataclass, field
from typing import Callable, Iterable, Iterator, Optional

from . import cfg as cfgmod
from . import dataflow
from .cfg import CFG, build_cfg
from .dataflow import BranchFacts, ReachingDefs, reaching_defs
from .formula import FormulaBuilder
from .model import PKG, AnalysisError, ClassInfo, FuncInfo, Program, dotted, dump, src, walk_local

HOLDS = 'HOLDS'
VIOLATED = 'VIOLATED'
ERROR = 'ANALYSIS-ERROR'


@dataclass
class Ob:
    rule: str
    verdict: str
    where: str
    function: str
    instance: str
    message: str = ''
    construct: str = ''

    @property
    def key(self) -> str:
        """Stable identity for known findings: rule + function + normalised construct text.
        No line numbers, no formatting."""
        return f'{self.rule}|{self.function}|{self.construct}'

    def as_dict(self) -> dict:
        return {'rule': self.rule, 'verdict': self.verdict, 'where': self.where,
                'function': self.function, 'instance': self.instance, 'message': self.message,
                'key': self.key}


@dataclass
class RuleSpec:
    rid: str
    props: list[str]
    fn: Callable
    min_instances: int
    tier: str          # 'quick' (always) or 'thorough'
    doc: str


RULES: dict[str, RuleSpec] = {}


def rule(rid: str, props: Iterable[str], min_instances: int = 1, tier: str = 'quick'):
    def deco(fn):
        RULES[rid] = RuleSpec(rid, list(props), fn, min_instances, tier, (fn.__doc__ or '').strip())
        return fn
    return deco


def norm_construct(node_or_text) -> str:
    """Normalised text of a construct: unparsed AST with whitespace collapsed (so a reformat
    does not change the key)."""
    if isinstance(node_or_text, ast.AST):
        try:
            t = ast.unparse(node_or_text)
        except Exception:
            t = dump(node_or_text)
    else:
        t = str(node_or_text)
    t = t.split('\n')[0]
    return re.sub(r'\s+', ' ', t).strip()[:160]


class Ctx:
    """Shared analysis context for one run over one source mapping."""

    def __init__(self, program: Program, tier: str = 'quick'):
        self.P = program
        self.tier = tier
        self.pid: Optional[str] = None     # property being decided (sweeps restrict themselves to its functions)
        self._facts: dict[tuple[str, bool], BranchFacts] = {}
        self._fb: dict[str, FormulaBuilder] = {}
        self.consumed_functions: set[str] = set()

    # -- per-function analyses -------------------------------------------------------------

    def cfg(self, fn: FuncInfo) -> CFG:
        self.consumed_functions.add(fn.qualname)
        return build_cfg(fn.node)

    def rd(self, fn: FuncInfo) -> ReachingDefs:
        return reaching_defs(self.cfg(fn))

    def facts(self, fn: FuncInfo, exc: bool = True) -> BranchFacts:
        k = (fn.qualname, exc)
        if k not in self._facts:
            self._facts[k] = BranchFacts(self.cfg(fn), exc=exc)
        return self._facts[k]

    def fb(self, fn: FuncInfo) -> FormulaBuilder:
        if fn.qualname not in self._fb:
            self._fb[fn.qualname] = FormulaBuilder(inline=lambda call, fn=fn: self._inline_pred(call, fn),
                                                   type_names=lambda t, fn=fn: self.type_names(t, fn))
        return self._fb[fn.qualname]

    # -- obligations -------------------------------------------------------------------------

    def ob(self, rid: str, ok: bool, fn: Optional[FuncInfo], node: Optional[ast.AST], instance: str,
           message: str = '', construct=None, path: Optional[str] = None) -> Ob:
        if fn is not None:
            self.consumed_functions.add(fn.qualname)
        where = fn.where(node) if fn is not None else (path or '?')
        fname = fn.short if fn is not None else ''
        if construct is None:
            construct = norm_construct(node) if node is not None else instance
        elif isinstance(construct, ast.AST):
            construct = norm_construct(construct)
        return Ob(rid, HOLDS if ok else VIOLATED, where, fname, instance,
                  message if not ok else (message or ''), construct)

    # -- pure predicate inlining (guards that call a package helper) ---------------------------

    def _inline_pred(self, call: ast.Call, fn: FuncInfo) -> Optional[ast.expr]:
        callees = self.P.resolve_call(call, fn, by_name=False)
        if len(callees) != 1 or callees[0] not in self.P.funcs:
            return None
        g = self.P.funcs[callees[0]]
        expr = pure_bool_body(g)
        if expr is None:
            return None
        subst = bind_args(g, call)
        if subst is None:
            return None
        return substitute(expr, subst)

    def type_names(self, t: ast.expr, fn: FuncInfo) -> Optional[list[str]]:
        """Expand the second argument of isinstance to a list of simple type names; resolves
        `cast(UnionType, Alias)` and module-level union aliases (ParamScalar)."""
        if isinstance(t, ast.Call) and dotted(t.func) in ('cast', 'typing.cast') and len(t.args) == 2:
            t = t.args[1]
        if isinstance(t, ast.Tuple):
            out: list[str] = []
            for e in t.elts:
                r = self.type_names(e, fn)
                out.extend(r if r is not None else [norm_construct(e)])
            return out
        if isinstance(t, ast.BinOp) and isinstance(t.op, ast.BitOr):
            out = []
            for e in (t.left, t.right):
                r = self.type_names(e, fn)
                out.extend(r if r is not None else [norm_construct(e)])
            return out
        if isinstance(t, ast.Constant) and t.value is None:
            return ['NoneType']
        d = dotted(t)
        if d is None:
            return None
        # alias defined at module level?
        mod = fn.module
        head = d.split('.')[0]
        target_mod = mod
        name = d
        if head in mod.imports:
            full = self.P.resolve_dotted(mod, d)
            m, _, attr = full.rpartition('.')
            if m in self.P.modules:
                target_mod, name = self.P.modules[m], attr
        if name in target_mod.consts and not isinstance(target_mod.consts[name], ast.Call):
            v = target_mod.consts[name]
            if isinstance(v, ast.BinOp) and isinstance(v.op, ast.BitOr):
                class _F:  # resolve inside the alias's module
                    module = target_mod
                return self.type_names(v, _F)  # type: ignore[arg-type]
        return [d.split('.')[-1]]


# ----------------------------------------------------------------------------------------
# helpers on ASTs


def pure_bool_body(g: FuncInfo) -> Optional[ast.expr]:
    """If g's body is a pure boolean function of its parameters built from if/return/and/or/not
    and comparisons, return it as one expression."""
    body = [s for s in g.node.body
            if not (isinstance(s, ast.Expr) and isinstance(s.value, ast.Constant))]

    def conv(stmts: list[ast.stmt]) -> Optional[ast.expr]:
        if not stmts:
            return None
        s = stmts[0]
        if isinstance(s, ast.Return) and s.value is not None:
            return s.value
        if isinstance(s, ast.If):
            then = conv(s.body)
            rest = conv(s.orelse) if s.orelse else conv(stmts[1:])
            if then is None or rest is None:
                return None
            return ast.IfExp(test=s.test, body=then, orelse=rest)
        return None

    e = conv(body)
    if e is None:
        return None
    for n in ast.walk(e):
        if isinstance(n, (ast.Yield, ast.Await, ast.Lambda, ast.NamedExpr)):
            return None
    return e


def bind_args(g: FuncInfo, call: ast.Call) -> Optional[dict[str, ast.expr]]:
    pos = list(g.node.args.posonlyargs) + list(g.node.args.args)
    subst: dict[str, ast.expr] = {}
    names = [a.arg for a in pos]
    if g.cls is not None and not g.is_static and names:
        recv = call.func.value if isinstance(call.func, ast.Attribute) else None
        if recv is None:
            return None
        subst[names[0]] = recv
        names = names[1:]
    if len(call.args) > len(names):
        return None
    for n, a in zip(names, call.args):
        if isinstance(a, ast.Starred):
            return None
        subst[n] = a
    kwnames = {a.arg for a in pos + list(g.node.args.kwonlyargs)}
    for kw in call.keywords:
        if kw.arg is None or kw.arg not in kwnames:
            return None
        subst[kw.arg] = kw.value
    # defaults
    defaults = g.node.args.defaults
    for a, dflt in zip(pos[len(pos) - len(defaults):], defaults):
        subst.setdefault(a.arg, dflt)
    for a, dflt in zip(g.node.args.kwonlyargs, g.node.args.kw_defaults):
        if dflt is not None:
            subst.setdefault(a.arg, dflt)
    return subst


def substitute(expr: ast.expr, subst: dict[str, ast.expr]) -> ast.expr:
    import copy

    class S(ast.NodeTransformer):
        def visit_Name(self, node: ast.Name):
            if node.id in subst:
                return copy.deepcopy(subst[node.id])
            return node
    return S().visit(copy.deepcopy(expr))


def calls_in(node: ast.AST, local: bool = True) -> list[ast.Call]:
    it = walk_local(node) if local else ast.walk(node)
    out = [n for n in it if isinstance(n, ast.Call)]
    out.sort(key=lambda c: (c.lineno, c.col_offset))
    return out


def call_attr(call: ast.Call) -> Optional[str]:
    return call.func.attr if isinstance(call.func, ast.Attribute) else None


def call_name(call: ast.Call) -> Optional[str]:
    return dotted(call.func)


def kwarg(call: ast.Call, name: str, pos: Optional[int] = None) -> Optional[ast.expr]:
    for kw in call.keywords:
        if kw.arg == name:
            return kw.value
    if pos is not None and len(call.args) > pos and not any(isinstance(a, ast.Starred) for a in call.args[:pos + 1]):
        return call.args[pos]
    return None


def stmts_in(node: ast.AST, types=None) -> list[ast.stmt]:
    out = [n for n in walk_local(node) if isinstance(n, ast.stmt) and (types is None or isinstance(n, types))]
    out.sort(key=lambda s: (s.lineno, s.col_offset))
    return out


def enclosing_stmt_map(fn_node: ast.AST) -> dict[int, ast.stmt]:
    """id(sub-expression) -> innermost enclosing statement, within one function."""
    out: dict[int, ast.stmt] = {}

    def go(stmt: ast.stmt):
        for child in ast.iter_child_nodes(stmt):
            if isinstance(child, ast.stmt):
                go(child)
            elif isinstance(child, ast.ExceptHandler):
                for x in ([child.type] if child.type is not None else []):
                    for sub in ast.walk(x):
                        out[id(sub)] = stmt
                for b in child.body:
                    go(b)
            elif isinstance(child, (ast.FunctionDef, ast.AsyncFunctionDef, ast.ClassDef, ast.Lambda)):
                continue
            elif isinstance(child, ast.match_case):
                for b in child.body:
                    go(b)
            else:
                for sub in ast.walk(child):
                    if isinstance(sub, (ast.FunctionDef, ast.AsyncFunctionDef, ast.ClassDef)):
                        continue
                    out[id(sub)] = stmt
    for s in getattr(fn_node, 'body', []):
        go(s)
    return out


def parent_map(root: ast.AST) -> dict[int, ast.AST]:
    out: dict[int, ast.AST] = {}
    for n in ast.walk(root):
        for c in ast.iter_child_nodes(n):
            out[id(c)] = n
    return out


def same_expr(a: Optional[ast.AST], b: Optional[ast.AST]) -> bool:
    from .formula import canon
    if a is None or b is None:
        return False
    return canon(a) == canon(b)


def is_name(e: ast.AST, name: str) -> bool:
    return isinstance(e, ast.Name) and e.id == name


def self_attr(e: ast.AST, self_name: Optional[str] = 'self') -> Optional[str]:
    """'x' for `self.x`."""
    if isinstance(e, ast.Attribute) and isinstance(e.value, ast.Name) and e.value.id == self_name:
        return e.attr
    return None


def root_self_attr(e: ast.AST, self_name: str = 'self') -> Optional[str]:
    """The self attribute at the root of an access path: self.x[k].y -> 'x'."""
    while True:
        if isinstance(e, ast.Attribute):
            if isinstance(e.value, ast.Name) and e.value.id == self_name:
                return e.attr
            e = e.value
        elif isinstance(e, ast.Subscript):
            e = e.value
        elif isinstance(e, ast.Call):
            e = e.func
        else:
            return None


MUTATORS = frozenset('add remove append pop popleft clear update setdefault discard extend insert '
                     'appendleft popitem'.split())


@dataclass
class FieldWrite:
    fn: FuncInfo
    node: ast.AST         # the statement / call
    field: str
    kind: str             # rebind | item_store | item_delete | mutcall:<name> | aug
    target: ast.AST       # the written expression (e.g. self.f[k]) or call


def field_writes(fn: FuncInfo, self_name: Optional[str] = None) -> list[FieldWrite]:
    """Write effects on `self.<field>` performed directly in fn (nested closures excluded)."""
    sn = self_name or _self_name_for(fn)
    out: list[FieldWrite] = []
    if sn is None:
        return out
    for n in walk_local(fn.node):
        if isinstance(n, (ast.Assign, ast.AnnAssign, ast.AugAssign)):
            targets = n.targets if isinstance(n, ast.Assign) else [n.target]
            if isinstance(n, ast.AnnAssign) and n.value is None:
                continue
            flat: list[ast.AST] = []
            for t in targets:
                flat.extend(_flatten_targets(t))
            for t in flat:
                a = self_attr(t, sn)
                if a is not None:
                    out.append(FieldWrite(fn, n, a, 'aug' if isinstance(n, ast.AugAssign) else 'rebind', t))
                elif isinstance(t, ast.Subscript):
                    r = root_self_attr(t, sn)
                    if r is not None:
                        out.append(FieldWrite(fn, n, r, 'item_store', t))
                elif isinstance(t, ast.Attribute):
                    r = root_self_attr(t, sn)
                    if r is not None:
                        out.append(FieldWrite(fn, n, r, 'attr_store', t))
        elif isinstance(n, ast.Delete):
            for t in n.targets:
                if isinstance(t, ast.Subscript):
                    r = root_self_attr(t, sn)
                    if r is not None:
                        out.append(FieldWrite(fn, n, r, 'item_delete', t))
                else:
                    a = self_attr(t, sn)
                    if a is not None:
                        out.append(FieldWrite(fn, n, a, 'rebind', t))
        elif isinstance(n, ast.Call) and isinstance(n.func, ast.Attribute) and n.func.attr in MUTATORS:
            r = root_self_attr(n.func.value, sn)
            if r is not None:
                out.append(FieldWrite(fn, n, r, f'mutcall:{n.func.attr}', n))
    out.sort(key=lambda w: (getattr(w.node, 'lineno', 0), getattr(w.node, 'col_offset', 0)))
    return out


def _flatten_targets(t: ast.AST) -> list[ast.AST]:
    if isinstance(t, (ast.Tuple, ast.List)):
        out = []
        for e in t.elts:
            out.extend(_flatten_targets(e))
        return out
    if isinstance(t, ast.Starred):
        return _flatten_targets(t.value)
    return [t]


def _self_name_for(fn: FuncInfo) -> Optional[str]:
    f: Optional[FuncInfo] = fn
    while f is not None:
        if f.self_name:
            return f.self_name
        f = f.parent
    return None


# -- loops ---------------------------------------------------------------------------------


@dataclass
class LoopCheck:
    ok: bool
    reason: str = ''
    node: Optional[ast.AST] = None


def early_exits(loop: ast.AST, allow_raise: bool = True, allow_continue: bool = True) -> list[ast.stmt]:
    """break / return (and optionally raise / continue) statements that leave or cut short
    the body of this loop (nested loops' own break/continue are theirs)."""
    out: list[ast.stmt] = []

    def go(stmts: list[ast.stmt], depth: int):
        for s in stmts:
            if isinstance(s, ast.Return):
                out.append(s)
            elif isinstance(s, ast.Break) and depth == 0:
                out.append(s)
            elif isinstance(s, ast.Continue) and depth == 0 and not allow_continue:
                out.append(s)
            elif isinstance(s, ast.Raise) and not allow_raise:
                out.append(s)
            elif isinstance(s, (ast.For, ast.While, ast.AsyncFor)):
                go(s.body, depth + 1)
                go(s.orelse, depth)
            elif isinstance(s, (ast.FunctionDef, ast.AsyncFunctionDef, ast.ClassDef)):
                continue
            else:
                for fld in ('body', 'orelse', 'finalbody'):
                    sub = getattr(s, fld, None)
                    if isinstance(sub, list):
                        go([x for x in sub if isinstance(x, ast.stmt)], depth)
                for h in getattr(s, 'handlers', []) or []:
                    go(h.body, depth)
                for c in getattr(s, 'cases', []) or []:
                    go(c.body, depth)
    go(getattr(loop, 'body', []), 0)
    return out


SLICING_WRAPPERS = {'islice', 'itertools.islice', 'set', 'frozenset', 'sorted', 'reversed', 'filter',
                    'zip', 'enumerate', 'iter', 'list', 'tuple'}


def strip_order_preserving(e: ast.AST) -> ast.AST:
    """Remove wrappers that keep all elements in order: list(x), tuple(x), iter(x), x.keys(),
    x.copy(), list(x)[:] ."""
    while True:
        if isinstance(e, ast.Call) and dotted(e.func) in ('list', 'tuple', 'iter') and len(e.args) == 1 \
                and not e.keywords:
            e = e.args[0]
        elif isinstance(e, ast.Call) and isinstance(e.func, ast.Attribute) and e.func.attr in ('keys', 'copy') \
                and not e.args:
            e = e.func.value
        elif isinstance(e, ast.Subscript) and isinstance(e.slice, ast.Slice) and e.slice.lower is None \
                and e.slice.upper is None and e.slice.step is None:
            e = e.value
        else:
            return e


def digest(text: str) -> str:
    return hashlib.sha1(text.encode('utf-8')).hexdigest()[:12]


# -- guard / path-condition conveniences ------------------------------------------------------


def loop_region(ctx: Ctx, fn: FuncInfo, loop: ast.AST) -> tuple[int, set[int]]:
    g = ctx.cfg(fn)
    header = g.primary(loop)
    return header, g.loop_body_nodes(header)


def cond_in_loop(ctx: Ctx, fn: FuncInfo, loop: ast.AST, target: ast.AST):
    """Exact condition, over one iteration of `loop`, under which control reaches the CFG node
    holding `target` (a statement or a sub-expression of one)."""
    g = ctx.cfg(fn)
    header, body = loop_region(ctx, fn, loop)
    t = g.primary(target)
    c = dataflow.path_condition(g, header, t, body | {header}, ctx.fb(fn), expand=_expander(ctx, fn))
    return f_and_ctx(ctx, fn, c, target)


def cond_from_entry(ctx: Ctx, fn: FuncInfo, target: ast.AST):
    """Conjunction of the branch facts that hold on every (normal) path from the function entry
    to the node holding `target`."""
    g = ctx.cfg(fn)
    t = g.primary(target)
    c = ctx.facts(fn, exc=False).formula_at(t, ctx.fb(fn), expand=_expander(ctx, fn))
    return f_and_ctx(ctx, fn, c, target)


def _expander(ctx: Ctx, fn: FuncInfo):
    """Tests are normalised after substituting single-definition locals by their definitions (a named
    boolean or an alias of a sub-expression does not change a guard)."""
    g = ctx.cfg(fn)
    rd = ctx.rd(fn)

    def expand(e, at):
        return dataflow.expand_locals(g, rd, e, at, only=dataflow.guard_like)
    return expand


def expression_context(stmt_part: ast.AST, target: ast.AST) -> list[tuple[ast.AST, bool]]:
    """Conditions under which `target` (a sub-expression) is evaluated inside the expression tree it belongs
    to: enclosing conditional expressions and short-circuit operators."""
    out: list[tuple[ast.AST, bool]] = []

    def go(node: ast.AST, conds: list) -> bool:
        if node is target:
            out.extend(conds)
            return True
        if isinstance(node, ast.IfExp):
            return go(node.test, conds) or go(node.body, conds + [(node.test, True)]) or go(node.orelse, conds + [(node.test, False)])
        if isinstance(node, ast.BoolOp):
            acc = list(conds)
            for v in node.values:
                if go(v, acc):
                    return True
                acc = acc + [(v, isinstance(node.op, ast.And))]
            return False
        if isinstance(node, (ast.FunctionDef, ast.AsyncFunctionDef, ast.Lambda, ast.ClassDef)):
            return False
        for c in ast.iter_child_nodes(node):
            if go(c, conds):
                return True
        return False
    go(stmt_part, [])
    return out


def f_and_ctx(ctx: Ctx, fn: FuncInfo, c, target: ast.AST):
    """Add the expression-level conditions (IfExp / and / or) under which `target` is evaluated."""
    from .formula import f_and, f_not
    if isinstance(target, ast.stmt):
        return c
    m = enclosing_stmt_map(fn.node)
    st = m.get(id(target))
    if st is None:
        return c
    from .cfg import header_parts
    parts = []
    for hp in header_parts(st):
        for (t, pol) in expression_context(hp, target):
            f = ctx.fb(fn).build(t)
            parts.append(f if pol else f_not(f))
    return f_and(c, *parts)


def formula_of(ctx: Ctx, fn: FuncInfo, text_or_expr):
    from .formula import parse_expr
    e = parse_expr(text_or_expr) if isinstance(text_or_expr, str) else text_or_expr
    return ctx.fb(fn).build(e)


MEMO_DECORATORS = ('lru_cache', 'cache', 'cached_property', 'memoize', 'memoized', 'cached')


def memo_decorators(fn: FuncInfo) -> list[str]:
    """Decorators that memoise a function by argument equality (functools.lru_cache & co)."""
    return [d for d in fn.decorators if d.split('.')[-1] in MEMO_DECORATORS]


def stable_root(e: ast.AST) -> Optional[str]:
    """Root name of a Name / attribute chain (a value that only changes when the root is rebound or the
    attribute path is assigned)."""
    d = dotted(e)
    return d.split('.')[0] if d else None


def same_value(ctx: Ctx, fn: FuncInfo, e1: Optional[ast.AST], n1: int, e2: Optional[ast.AST], n2: int) -> bool:
    """Both expressions are the same name / attribute path and its root has the same single binding at both
    CFG nodes: they denote the same value."""
    if e1 is None or e2 is None or not same_expr(e1, e2):
        return False
    r = stable_root(e1)
    if r is None:
        return False
    return ctx.rd(fn).same_binding(n1, n2, r)



# Calls that cannot fail in a running interpreter (no arguments, no I/O).  A binding whose right-hand side is one of these
# (or a constant / plain name) cannot be the origin of an exception.
NON_RAISING_CALLS = {'multiprocessing.current_process', 'threading.current_thread', 'os.getpid', 'time.time', 'time.monotonic',
                     'datetime.datetime.now', 'uuid.uuid4'}


def cannot_raise(ctx: 'Ctx', fn: FuncInfo, st: ast.AST) -> bool:
    """A simple binding `name = <constant | name | argument-less call from NON_RAISING_CALLS>`."""
    if not isinstance(st, (ast.Assign, ast.AnnAssign)) or getattr(st, 'value', None) is None:
        return isinstance(st, ast.Pass) or (isinstance(st, ast.AnnAssign) and st.value is None)
    targets = st.targets if isinstance(st, ast.Assign) else [st.target]
    if not all(isinstance(x, ast.Name) for x in targets):
        return False
    v = st.value
    if isinstance(v, (ast.Constant, ast.Name)):
        return True
    if isinstance(v, ast.Call) and not v.args and not v.keywords:
        d = dotted(v.func)
        r = ctx.P.resolve_dotted(fn.module, d) if d else None
        return r in NON_RAISING_CALLS
    return False
