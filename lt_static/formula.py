"""E6 - guard conditions in normal form.

A test expression is turned into a propositional formula over *atoms*; linear integer
comparisons are canonicalised to `L >= k` so that `a > b`, `b < a`, `not a <= b`,
`a - b >= 1`, `len(x) > 0`, `len(x) != 0`, `x` (truthiness of a sized collection) and their
negations all meet in the same atoms.  Implication / equivalence between formulas is decided
by enumerating every consistent valuation of the atoms (linear atoms over the same L are
ordered thresholds, so their valuations are the regions between thresholds) - a truth table,
not an execution.
"""
from __future__ import annotations

import ast
import itertools
from typing import Callable, Iterable, Optional

from .model import AnalysisError, dotted, dump

TRUE = ('true',)
FALSE = ('false',)

MAX_VALUATIONS = 1 << 14


def f_not(f):
    if f == TRUE:
        return FALSE
    if f == FALSE:
        return TRUE
    if f[0] == 'not':
        return f[1]
    return ('not', f)


def f_and(*fs):
    out = []
    for f in fs:
        if f == FALSE:
            return FALSE
        if f == TRUE:
            continue
        if f[0] == 'and':
            out.extend(f[1])
        else:
            out.append(f)
    # duplicates and complementary pairs (x and not x)
    uniq = []
    for f in out:
        if f not in uniq:
            uniq.append(f)
    out = uniq
    for f in out:
        if f_not(f) in out:
            return FALSE
    if not out:
        return TRUE
    if len(out) == 1:
        return out[0]
    return ('and', tuple(out))


def f_or(*fs):
    out = []
    for f in fs:
        if f == TRUE:
            return TRUE
        if f == FALSE:
            continue
        if f[0] == 'or':
            out.extend(f[1])
        else:
            out.append(f)
    # duplicates and complementary pairs (x or not x): the two arms of an if without else join to "always"
    uniq = []
    for f in out:
        if f not in uniq:
            uniq.append(f)
    out = uniq
    for f in out:
        if f_not(f) in out:
            return TRUE
    if not out:
        return FALSE
    if len(out) == 1:
        return out[0]
    return ('or', tuple(out))


def lin_atom(lkey: tuple, k: int):
    return ('lin', lkey, k)


def opaque(kind: str, *keys: str):
    return ('atom', kind, tuple(keys))


# ----------------------------------------------------------------------------------------
# canonical terms


_EMPTY_CALLS = {'set', 'list', 'dict', 'tuple', 'frozenset', 'OrderedSet'}


def _is_empty_literal(e: ast.AST) -> bool:
    if isinstance(e, (ast.List, ast.Tuple, ast.Set)) and not e.elts:
        return True
    if isinstance(e, ast.Dict) and not e.keys:
        return True
    if isinstance(e, ast.Call) and not e.args and not e.keywords and dotted(e.func) in _EMPTY_CALLS:
        return True
    return False


def _is_zero(e: ast.AST) -> bool:
    # a count read with `d.get(k, 0)`: a missing key counts as 0, which is what Counter / defaultdict(int) give for d[k]
    return isinstance(e, ast.Constant) and e.value == 0 and not isinstance(e.value, bool)


class _Canon(ast.NodeTransformer):
    """Rewrites that do not change the value as far as guards are concerned:
    d.get(k, <empty>) -> d[k];  (x) is x."""

    def visit_Call(self, node: ast.Call):
        self.generic_visit(node)
        if isinstance(node.func, ast.Attribute) and node.func.attr == 'get' and not node.keywords \
                and ((len(node.args) == 2 and (_is_empty_literal(node.args[1]) or _is_zero(node.args[1]))) or len(node.args) == 1):
            # (inside len()/truthiness a missing key (None / empty default) behaves like an empty entry)
            return ast.Subscript(value=node.func.value, slice=node.args[0], ctx=ast.Load())
        return node


def canon(e: ast.AST) -> str:
    import copy
    e2 = _Canon().visit(copy.deepcopy(e))
    # contexts do not matter
    for n in ast.walk(e2):
        if hasattr(n, 'ctx'):
            n.ctx = ast.Load()
    return dump(e2)


# ----------------------------------------------------------------------------------------
# linear expressions


def linearize(e: ast.AST) -> Optional[tuple[dict[str, int], int]]:
    """e as sum(coef * term) + const over integer-valued terms, or None."""
    if isinstance(e, ast.Constant):
        if isinstance(e.value, bool):
            return ({}, int(e.value))
        if isinstance(e.value, int):
            return ({}, e.value)
        return None
    if isinstance(e, ast.UnaryOp) and isinstance(e.op, ast.USub):
        r = linearize(e.operand)
        if r is None:
            return None
        return ({t: -c for t, c in r[0].items()}, -r[1])
    if isinstance(e, ast.UnaryOp) and isinstance(e.op, ast.UAdd):
        return linearize(e.operand)
    if isinstance(e, ast.BinOp) and isinstance(e.op, (ast.Add, ast.Sub)):
        a = linearize(e.left)
        b = linearize(e.right)
        if a is None or b is None:
            return None
        sign = 1 if isinstance(e.op, ast.Add) else -1
        terms = dict(a[0])
        for t, c in b[0].items():
            terms[t] = terms.get(t, 0) + sign * c
        return ({t: c for t, c in terms.items() if c != 0}, a[1] + sign * b[1])
    if isinstance(e, ast.BinOp) and isinstance(e.op, ast.Mult):
        a = linearize(e.left)
        b = linearize(e.right)
        if a is not None and b is not None:
            if not a[0]:
                return ({t: c * a[1] for t, c in b[0].items() if c * a[1] != 0}, a[1] * b[1])
            if not b[0]:
                return ({t: c * b[1] for t, c in a[0].items() if c * b[1] != 0}, a[1] * b[1])
        return ({canon(e): 1}, 0)
    if isinstance(e, ast.Constant):
        return None
    return ({canon(e): 1}, 0)


def _ge_atom(terms: dict[str, int], const: int, k: int):
    """Formula for  sum(terms) + const >= k."""
    k = k - const
    terms = {t: c for t, c in terms.items() if c != 0}
    if not terms:
        return TRUE if 0 >= k else FALSE
    items = sorted(terms.items())
    flip = items[0][1] < 0
    if flip:
        # -L' >= k  <=>  L' <= -k  <=>  not (L' >= -k + 1)
        lkey = tuple((t, -c) for t, c in items)
        return f_not(_ge_canon(lkey, -k + 1))
    return _ge_canon(tuple(items), k)


def _is_len_term(tkey: str) -> bool:
    return tkey.startswith("Call(Name('len'")


def _ge_canon(lkey: tuple, k: int):
    # domain knowledge: len(x) >= 0
    if len(lkey) == 1 and lkey[0][1] > 0 and _is_len_term(lkey[0][0]) and k <= 0:
        return TRUE
    # normalise coefficient gcd for single-term L:  c*t >= k  <=>  t >= ceil(k/c)
    if len(lkey) == 1 and lkey[0][1] > 1:
        c = lkey[0][1]
        kk = -((-k) // c)
        return _ge_canon(((lkey[0][0], 1),), kk)
    return lin_atom(lkey, k)


def truthy_atom(e: ast.AST):
    """Truthiness of a non-boolean-operator expression == len(e) >= 1 (sized collections);
    for plain flags this is just a consistent opaque atom."""
    call = ast.Call(func=ast.Name(id='len', ctx=ast.Load()), args=[e], keywords=[])
    return _ge_canon(((canon(call), 1),), 1)


# ----------------------------------------------------------------------------------------
# expression -> formula


class FormulaBuilder:
    """inline(call) may return a replacement boolean expression for a call to a pure package
    predicate; isinstance_types(expr) may expand a type expression to a list of type names."""

    def __init__(self, inline: Optional[Callable[[ast.Call], Optional[ast.expr]]] = None,
                 type_names: Optional[Callable[[ast.expr], Optional[list[str]]]] = None,
                 inline_bound: int = 2):
        self.inline = inline
        self.type_names = type_names
        self.inline_bound = inline_bound

    def build(self, e: ast.AST, _depth: int = 0):
        if isinstance(e, ast.BoolOp):
            vals = list(e.values)
            if isinstance(e.op, ast.And):
                # `k in d and <something about d[k]>`: the membership test only protects the subscript
                # (a missing entry behaves like an empty one for len()/truthiness)
                keep = []
                for v in vals:
                    if isinstance(v, ast.Compare) and len(v.ops) == 1 and isinstance(v.ops[0], ast.In):
                        sub = canon(ast.Subscript(value=v.comparators[0], slice=v.left, ctx=ast.Load()))
                        if any(o is not v and any(canon(x) == sub for x in ast.walk(o) if isinstance(x, (ast.Subscript, ast.Call))) for o in vals):
                            continue
                    keep.append(v)
                vals = keep or vals
            parts = [self.build(v, _depth) for v in vals]
            return f_and(*parts) if isinstance(e.op, ast.And) else f_or(*parts)
        if isinstance(e, ast.UnaryOp) and isinstance(e.op, ast.Not):
            return f_not(self.build(e.operand, _depth))
        if isinstance(e, ast.NamedExpr):
            return self.build(e.value, _depth)
        if isinstance(e, ast.IfExp):
            c = self.build(e.test, _depth)
            return f_or(f_and(c, self.build(e.body, _depth)), f_and(f_not(c), self.build(e.orelse, _depth)))
        if isinstance(e, ast.Constant):
            return TRUE if e.value else FALSE
        if isinstance(e, ast.Compare):
            parts = []
            left = e.left
            for op, right in zip(e.ops, e.comparators):
                parts.append(self._compare(left, op, right))
                left = right
            return f_and(*parts)
        if isinstance(e, ast.Call):
            d = dotted(e.func)
            if d == 'isinstance' and len(e.args) == 2:
                names = self._types(e.args[1])
                x = canon(e.args[0])
                return f_or(*[opaque('inst', x, n) for n in names])
            if d == 'bool' and len(e.args) == 1:
                return self.build(e.args[0], _depth)
            if d in ('any', 'all'):
                return opaque('call', canon(e))
            # d.get(k, <empty>) in a boolean position is the truthiness of d[k]
            if isinstance(e.func, ast.Attribute) and e.func.attr == 'get' and not e.keywords \
                    and ((len(e.args) == 2 and _is_empty_literal(e.args[1])) or len(e.args) == 1):
                return truthy_atom(e)
            if self.inline is not None and _depth < self.inline_bound:
                rep = self.inline(e)
                if rep is not None:
                    return self.build(rep, _depth + 1)
            return opaque('call', canon(e))
        return truthy_atom(e)

    def _types(self, t: ast.expr) -> list[str]:
        if self.type_names is not None:
            r = self.type_names(t)
            if r is not None:
                return r
        if isinstance(t, ast.Tuple):
            out = []
            for el in t.elts:
                out.extend(self._types(el))
            return out
        d = dotted(t)
        return [d.split('.')[-1] if d else canon(t)]

    def _compare(self, a: ast.AST, op: ast.cmpop, b: ast.AST):
        if isinstance(op, (ast.Is, ast.IsNot)):
            none_side = None
            other = None
            if isinstance(b, ast.Constant) and b.value is None:
                none_side, other = b, a
            elif isinstance(a, ast.Constant) and a.value is None:
                none_side, other = a, b
            if none_side is not None:
                if isinstance(other, ast.Call) and isinstance(other.func, ast.Attribute) \
                        and other.func.attr in ('fullmatch', 'match', 'search'):
                    # a regex match object is truthy exactly when it is not None
                    f = f_not(opaque('call', canon(other)))
                else:
                    f = opaque('isnone', canon(other))
            else:
                ks = sorted([canon(a), canon(b)])
                f = opaque('is', *ks)
            return f if isinstance(op, ast.Is) else f_not(f)
        if isinstance(op, (ast.In, ast.NotIn)):
            f = opaque('in', canon(a), canon(b))
            return f if isinstance(op, ast.In) else f_not(f)
        numeric = isinstance(op, (ast.Lt, ast.LtE, ast.Gt, ast.GtE)) or _looks_numeric(a) or _looks_numeric(b)
        if numeric:
            la, lb = linearize(a), linearize(b)
            if la is not None and lb is not None:
                diff = dict(la[0])
                for t, c in lb[0].items():
                    diff[t] = diff.get(t, 0) - c
                const = la[1] - lb[1]          # a - b = diff + const
                neg = {t: -c for t, c in diff.items()}
                if isinstance(op, ast.GtE):
                    return _ge_atom(diff, const, 0)
                if isinstance(op, ast.Gt):
                    return _ge_atom(diff, const, 1)
                if isinstance(op, ast.LtE):
                    return _ge_atom(neg, -const, 0)
                if isinstance(op, ast.Lt):
                    return _ge_atom(neg, -const, 1)
                if isinstance(op, ast.Eq):
                    return f_and(_ge_atom(diff, const, 0), _ge_atom(neg, -const, 0))
                if isinstance(op, ast.NotEq):
                    return f_not(f_and(_ge_atom(diff, const, 0), _ge_atom(neg, -const, 0)))
        if isinstance(op, (ast.Eq, ast.NotEq)):
            ks = sorted([canon(a), canon(b)])
            f = opaque('eq', *ks)
            return f if isinstance(op, ast.Eq) else f_not(f)
        return opaque('cmp', type(op).__name__, canon(a), canon(b))


def _looks_numeric(e: ast.AST) -> bool:
    if isinstance(e, ast.Constant) and isinstance(e.value, int) and not isinstance(e.value, bool):
        return True
    if isinstance(e, ast.Call) and dotted(e.func) in ('len', 'int', 'max', 'min', 'sum', 'abs'):
        return True
    if isinstance(e, ast.BinOp) and isinstance(e.op, (ast.Add, ast.Sub, ast.Mult)):
        return True
    if isinstance(e, ast.UnaryOp) and isinstance(e.op, ast.USub):
        return True
    return False


# ----------------------------------------------------------------------------------------
# evaluation


def atoms_of(f, acc: Optional[set] = None) -> set:
    if acc is None:
        acc = set()
    if f[0] in ('lin', 'atom'):
        acc.add(f)
    elif f[0] == 'not':
        atoms_of(f[1], acc)
    elif f[0] in ('and', 'or'):
        for g in f[1]:
            atoms_of(g, acc)
    return acc


def ev(f, val: dict) -> bool:
    k = f[0]
    if k == 'true':
        return True
    if k == 'false':
        return False
    if k in ('lin', 'atom'):
        return val[f]
    if k == 'not':
        return not ev(f[1], val)
    if k == 'and':
        return all(ev(g, val) for g in f[1])
    if k == 'or':
        return any(ev(g, val) for g in f[1])
    raise AssertionError(f)


def valuations(atoms: Iterable) -> Iterable[dict]:
    """All consistent valuations: independent opaque atoms; ordered thresholds per linear L."""
    atoms = sorted(set(atoms), key=repr)
    opaques = [a for a in atoms if a[0] == 'atom']
    by_l: dict[tuple, list[int]] = {}
    for a in atoms:
        if a[0] == 'lin':
            by_l.setdefault(a[1], []).append(a[2])
    lin_groups = [(lk, sorted(set(ks))) for lk, ks in sorted(by_l.items(), key=repr)]
    total = (1 << len(opaques))
    for _lk, ks in lin_groups:
        total *= (len(ks) + 1)
    if total > MAX_VALUATIONS:
        raise AnalysisError(f'guard formula too large for a truth table ({total} valuations)')
    for bits in itertools.product([False, True], repeat=len(opaques)):
        base = dict(zip(opaques, bits))
        for regions in itertools.product(*[range(len(ks) + 1) for _lk, ks in lin_groups]):
            val = dict(base)
            for (lk, ks), r in zip(lin_groups, regions):
                # region r: value lies in [ks[r-1], ks[r])  => L >= ks[i] iff i < r
                for i, k in enumerate(ks):
                    val[('lin', lk, k)] = i < r
            yield val


def implies(f, g) -> bool:
    at = atoms_of(f) | atoms_of(g)
    return all((not ev(f, v)) or ev(g, v) for v in valuations(at))


def equivalent(f, g) -> bool:
    at = atoms_of(f) | atoms_of(g)
    return all(ev(f, v) == ev(g, v) for v in valuations(at))


def counterexample(f, g, mode: str = 'equiv') -> Optional[dict]:
    at = atoms_of(f) | atoms_of(g)
    for v in valuations(at):
        a, b = ev(f, v), ev(g, v)
        if (mode == 'equiv' and a != b) or (mode == 'implies' and a and not b):
            return {show_atom(k): val for k, val in v.items()}
    return None


def satisfiable(f) -> bool:
    return any(ev(f, v) for v in valuations(atoms_of(f)))


def show_atom(a) -> str:
    if a[0] == 'lin':
        terms = ' + '.join((f'{c}*' if c != 1 else '') + _short(t) for t, c in a[1])
        return f'{terms} >= {a[2]}'
    return f'{a[1]}(' + ', '.join(_short(k) for k in a[2]) + ')'


def _short(tkey: str) -> str:
    # turn a dump back into something readable where possible
    try:
        node = eval(tkey, {n: getattr(ast, n) for n in dir(ast) if not n.startswith('_')})  # noqa: S307
        ast.fix_missing_locations(node)
        return ast.unparse(node)
    except Exception:
        return tkey[:60]


def show(f) -> str:
    k = f[0]
    if k in ('true', 'false'):
        return k
    if k in ('lin', 'atom'):
        return show_atom(f)
    if k == 'not':
        return f'not ({show(f[1])})'
    sep = ' and ' if k == 'and' else ' or '
    return '(' + sep.join(show(g) for g in f[1]) + ')'


def parse_expr(text: str) -> ast.expr:
    return ast.parse(text, mode='eval').body
