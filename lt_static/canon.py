"""Canonicalisation pre-pass: behaviour-preserving rewrites applied to the parsed sources *before*
the rules look at them, so that one rule formulation covers the common ways of writing the same thing.

 P3  private-helper inlining   statements / single-expression bodies of *new* private helpers (names not in
                               the table of helpers the pinned tree already has) are inlined at their call
                               sites, so "extract method" leaves the analysed code where the rules expect it
 P0  alias propagation         `t = type(task)`, `mp = task._lt.max_parallel` (single assignment, pure
                               attribute / type() / getattr value) are substituted into their uses
 P1  accumulator loops         `acc = []` + `for x in it: [if c:] acc.append(v)` -> `acc = [v for x in it if c]`
                               (same for dict item stores and set.add)
 P2  dict builders             `d = {...}` followed by straight-line `d['k'] = v` / `d.update({...})` is folded
                               into one dict display

Every rewritten node keeps the line number of the code it came from, so reports still point at real
source lines.  Nothing here executes anything.
"""
from __future__ import annotations

import ast
import copy
from typing import Optional

from .model import Program, dotted, walk_local

# Helpers that exist on the pinned tree (and that rules use as anchors): never inlined.
KNOWN_HELPERS = frozenset('''
_task_post_init _task_set_results_map _task_set_result_meta _task_set_context _task_filter_context_default
_task_result _task__getstate__ _task__setstate__ _subprocess_target _start_processes _consume_result_queue
_consume _consume_monitor_queue _get_process_info _consume_log_queue _subprocess_func _get_mp_context _submit_task
_fork_subprocess_func _key_to_path _top_task_lines _set_results_map _set_result_meta process_completed_tasks
check_cycle log_params format_many decorator
'''.split())

MAX_HELPER_STMTS = 40

# every function / class name of the pinned tree: a def whose name is not in this table was introduced by the change under
# analysis (an extracted helper), whatever its spelling - it may be inlined like a private helper
BASELINE_DEF_NAMES = frozenset('''
BaseCache Cache CacheDefault CacheError ForkProcessRunner ForkRunnerBackend FsspecStorage Future FutureState
FutureStateError Lab LabError LabtechError LabtechPlugin LocalStorage LoggerFileProxy MultilineDisplay
NotebookMultilineDisplay NullCache NullStorage OrderedSet PickleCache ProcessEndEvent ProcessEvent ProcessExecutor
ProcessMonitor ProcessRunner ProcessStartEvent ResultMeta ResultsMap Runner RunnerBackend RunnerError RunnerMemory
SerialRunner SerialRunnerBackend SerializationError Serializer SpawnProcessRunner SpawnRunnerBackend Storage
StorageError Task TaskCoordinator TaskDiedError TaskError TaskInfo TaskMonitor TaskNotFound TaskRelInfo TaskRelKey
TaskResult TaskState TaskStructure TaskSubmission TerminalMultilineDisplay __add__ __contains__ __eq__ __getitem__
__hash__ __init__ __iter__ __len__ __repr__ __str__ _consume _consume_log_queue _consume_monitor_queue
_consume_result_queue _fork_subprocess_func _get_mp_context _get_process_info _key_to_path _set_result_meta
_set_results_map _start_processes _submit_task _subprocess_func _subprocess_target _task__getstate__ _task__setstate__
_task_filter_context_default _task_post_init _task_result _task_set_context _task_set_result_meta
_task_set_results_map _top_task_lines add add_relationship add_task_type build build_result_meta build_runner
build_task_diagram cache_key cached_tasks cancel cancelled check_cycle check_cyclic_dependences check_task_types
check_tasks close complete_task decorator delete deserialize_class deserialize_enum deserialize_task deserialize_value
diagram_task_relationship diagram_task_structure diagram_task_type display_task_diagram done ensure_dict_key_str
exists file_handle filter_context find_keys find_tasks_in_param flush format_many format_type fs_constructor get
get_class_decorator_hook get_direct_dependencies get_direct_dependency_instances get_info_formatted get_info_value
get_logger get_pbar get_process_info get_process_infos get_ready_tasks get_result get_task_infos handle_failure
immutable_param_value insert_task is_cached is_ipython is_serialized_enum is_serialized_task is_task is_task_type
load_cache_timestamp load_metadata load_result load_result_with_meta load_task log_params optional_mlflow
pending_task_count plugin process_completed_tasks process_tasks remove remove_results result run run_or_load_task
run_task run_tasks save save_result serialize_class serialize_enum serialize_task serialize_value set_context
set_exception set_result show split_done_futures start_task stop submit submit_task task task_tag_callback tqdm
tqdm_notebook uncache_tasks update use_cache validate_file_path_key wait write
'''.split())

# structure digests (def_shape) of every function of the pinned tree: a function that was only renamed is not 'new'
BASELINE_DEF_SHAPES = frozenset('''
002cd47e62 0230e5e9f7 0387cb38fd 07eb3196fe 095146ecea 0aa307caa8 0aebbf8a39 0fef6aa06f 0ff6aea594 11a2d79bb6
120554f265 122b0d9146 1255f6ed7c 13653e8ec9 1422bb1d37 1596e9b34b 16091db0f2 165adfe45a 1750e5050f 18b537841c
1e624d5462 203f31311d 23a6ddbb8e 26a830940f 2986bcc8e2 2a63b4357f 2ba030aa04 2c21a5f4e6 2c65dc722e 30ad49e36d
30e124a98c 31463b1b8c 31bf5ca091 31f177a7b4 327d02016b 32b2a2d2f2 34d4093a5f 34e3a698ee 3574bacc2a 35f4a4b3a8
373a62ed10 39726dafd4 3986fa0c2d 39fabaacce 3bdcc02b8a 3d140baf48 3dfd4c694c 3e422e8821 40b33e4b72 44c40760c8
47fed4aa9c 48875001e8 4994f38666 4a83d48248 4b98fbf8ae 4c1e91e3c5 4c36bb9998 4f848b73ac 4fb513fa83 517fc3b86f
54990fa268 563db4dbac 5665f30b7a 5b08a82bf9 5c224a3562 5e91154490 60caad434f 616a706d33 62c8236277 6353af83cf
6400eff89f 646a0a91f4 6736771860 69860bb9cb 6a53143eee 6a6fc712e4 6aa00705f9 740364178b 74ec3983f8 7723182d7c
77a75bda37 77edd41e84 78972aad0c 78a751c04c 795e42ccd9 7ac4f702e5 7cb6c8f6bc 7e30522294 80027d1e39 81387dd956
8328757a33 8378024c36 83f66632b4 8593775f6b 874a0ac733 883b0219b2 8a10b9fb96 8a51760bce 8aedbb7980 8fec740bfd
909ac59845 92041c8dfd 9223304aad 94cf90ad34 9518909122 9607d654f7 96c3166fb3 9c8a7d9337 9da81b8e6c 9e8000b90b
a0048a7d18 a3d3f8fddc a51329fb03 a904d6bcd3 aad872eb16 ad4c1cce9c b59f1599b5 b5e3ac9fbf b764525f04 b78c64f442
b87e909208 ba883d1535 bbf78c658d bda7e6ea99 be49cbd517 bf15913ad1 bfc8b01df3 bfe0178127 c26712bdaf c2cfc2493d
c303cf525f c31a8eaefd c380e01ff8 cccae25707 cce11449c1 cf2ff2aa84 d040da744d d0451c57ba d0cf142027 d2c4c80cc3
d51c0f3b41 d6d16d95c8 d6e787f39f d97b15122a d9e7943b66 dc8e20bf1e dd69efec61 dff3fcd41c e04148cbc3 e1262f50dc
e30f3a576f e41df88f53 e43c44864f e74372bb9b e7be343a38 e9564a6555 e998c78b0a eb0915b733 ec6550bdd3 efad34af15
f0b264d847 f0c5ad47d6 f12f60117d f177bc69af f34edd6251 f45bb0ae02 f5f0901b5f f64b681bf4 faad925d04 fac55b52e8
fc61446535 fc8d9f5c3f fce7ce22ff fd86cd349e ff33afd631
'''.split())

def def_shape(fn_node: ast.AST) -> str:
    """Digest of a function's structure with every identifier masked and docstrings / annotations dropped: a renamed function
    (with renamed locals and attributes) keeps its shape, an extracted fragment has a shape of its own."""
    import copy as _copy
    import hashlib as _hashlib
    n = _copy.deepcopy(fn_node)

    class M(ast.NodeTransformer):
        def visit_Name(self, x):
            return ast.Name(id='_', ctx=x.ctx)

        def visit_arg(self, x):
            return ast.arg(arg='_', annotation=None)

        def visit_Attribute(self, x):
            self.generic_visit(x)
            return ast.Attribute(value=x.value, attr='_', ctx=x.ctx)

        def visit_keyword(self, x):
            self.generic_visit(x)
            return ast.keyword(arg='_' if x.arg else None, value=x.value)

        def visit_AnnAssign(self, x):
            self.generic_visit(x)
            if x.value is None:
                return None
            return ast.Assign(targets=[x.target], value=x.value)

        def visit_FunctionDef(self, x):
            x.name = '_'
            x.returns = None
            x.decorator_list = []
            x.body = [s for s in x.body if not (isinstance(s, ast.Expr) and isinstance(s.value, ast.Constant) and isinstance(s.value.value, str))] or [ast.Pass()]
            self.generic_visit(x)
            return x

        def visit_ExceptHandler(self, x):
            self.generic_visit(x)
            x.name = '_' if x.name else None
            return x
    n = M().visit(n)
    return _hashlib.sha1(ast.dump(n, annotate_fields=False, include_attributes=False).encode()).hexdigest()[:10]


# every local / parameter name of the pinned tree: a local whose name is not in this table was introduced by the change under
# analysis (a named intermediate); P16 folds such single-use intermediates back into the statement that consumes them
BASELINE_LOCAL_NAMES = frozenset('''
CACHE_DEFAULT CANCELLED CovariantResultT FINISHED KEY_PREFIX LabContext METADATA_FILENAME PENDING ParamScalar
RESULT_FILENAME ResultT T TaskMonitorInfo TaskMonitorInfoItem TaskMonitorInfoValue TaskT _ _RESERVED_ATTRS
_RUNNER_FORK_MEMORY __all__ __version__ _ex _is_task _lt _result _results_map _state _subprocess_func active_tasks
align all_dependencies arg_t args args_str buf bust_cache cache cache_key char child children classes cls cls_fields
cls_fullname cls_module cls_name combined consumer_thread context context_type continue_on_failure coordinator
covariant_result_t_type cpu_percent ctx current_process data_file dead_process_futures default_logger_handler
dependencies dependency dependency_task dependency_tasks dependent deserialized_value diagram dict_key dict_value
direction disable_progress disable_top disallowed_key_chars done done_futures duration duration_seconds end entry
enum_cls event ex exception_type executor f field field_set field_value file_path filename filtered_context
first_keyboard_interrupt fn found_tasks from_param_name from_task_type fs fullname future future_id
future_process_pairs futures futures_to_start gitignore_file gitignore_path hashed i id indentation info
inner_timeout_seconds is_scalar item items items_repr items_str jsonable key key_path keys kwargs lab lab_error
left_align line line_count lines log_queue logger logger_func max_len max_parallel max_workers memory_rss_percent
memory_vms_percent message meta metadata metadata_file mlflow_run mode module monitor_interval mp_context msg
multi_cardinality name next_task_submission not_done_futures notebook obj old_info orig_post_init orig_process_name
origin other param_value params parents path pbar pbar_func pbars pending_futures pickle_protocol pid post_init prefix
process process_event_queue process_info process_infos ready_tasks record redirected_loggers rel_info rel_key
relationships rels res reserved_attr result result_meta result_or_ex result_queue results results_map results_map_type
run_func run_return run_return_type runner runner_backend runner_memory searched_coll_ids self serialized
serialized_class serialized_field serialized_str serializer start start_count start_datetime start_event start_methods
start_timestamp state status storage storage_dir storage_path sub_task sub_tasks t task task_cls task_count task_info
task_info_item task_infos task_instance task_makers task_monitor task_name task_number task_result task_results
task_structure task_submission task_type task_type_count task_type_counts task_type_max_digits task_type_to_task_count
task_types tasks tasks_with_removable_results threads thunk timeout_seconds to_task_type top_format top_n top_sort
top_task_lines use_cache uuid value version visited whitespace_only_re with_gitignore
'''.split())


# ----------------------------------------------------------------------------------------
# small AST utilities


def _names_stored(node: ast.AST) -> set[str]:
    out = set()
    for n in walk_local(node) if isinstance(node, (ast.FunctionDef, ast.AsyncFunctionDef)) else ast.walk(node):
        if isinstance(n, ast.Name) and isinstance(n.ctx, (ast.Store, ast.Del)):
            out.add(n.id)
        elif isinstance(n, ast.ExceptHandler) and n.name:
            out.add(n.name)
        elif isinstance(n, (ast.FunctionDef, ast.AsyncFunctionDef, ast.ClassDef)) and n is not node:
            out.add(n.name)
        elif isinstance(n, ast.arg):
            out.add(n.arg)
    return out


class _Subst(ast.NodeTransformer):
    def __init__(self, mapping: dict[str, ast.AST]):
        self.mapping = mapping

    def visit_Name(self, node: ast.Name):
        if isinstance(node.ctx, ast.Load) and node.id in self.mapping:
            new = copy.deepcopy(self.mapping[node.id])
            return ast.copy_location(new, node) if not hasattr(new, 'lineno') else new
        return node

    def visit_FunctionDef(self, node):
        # do not substitute into nested definitions that rebind the name
        bound = {a.arg for a in node.args.args + node.args.kwonlyargs + node.args.posonlyargs}
        inner = {k: v for k, v in self.mapping.items() if k not in bound}
        if not inner:
            return node
        sub = _Subst(inner)
        node.body = [sub.visit(s) for s in node.body]
        return node

    visit_AsyncFunctionDef = visit_FunctionDef

    def visit_Lambda(self, node):
        return node

    def _visit_comp(self, node):
        bound = set()
        for g in node.generators:
            for x in ast.walk(g.target):
                if isinstance(x, ast.Name):
                    bound.add(x.id)
        inner = {k: v for k, v in self.mapping.items() if k not in bound}
        if len(inner) == len(self.mapping):
            return self.generic_visit(node)
        if not inner:
            # the first iterable is evaluated in the enclosing scope
            node.generators[0].iter = self.visit(node.generators[0].iter)
            return node
        sub = _Subst(inner)
        first_iter = self.visit(node.generators[0].iter)
        node = sub.generic_visit(node)
        node.generators[0].iter = first_iter
        return node

    visit_ListComp = visit_SetComp = visit_DictComp = visit_GeneratorExp = _visit_comp


def _comp_bound(fn_node: ast.AST) -> set[int]:
    """ids of Name nodes that are comprehension targets (their own scope)."""
    out = set()
    for n in walk_local(fn_node):
        if isinstance(n, (ast.ListComp, ast.SetComp, ast.DictComp, ast.GeneratorExp)):
            for g in n.generators:
                for x in ast.walk(g.target):
                    if isinstance(x, ast.Name):
                        out.add(id(x))
    return out


class _Rename(ast.NodeTransformer):
    def __init__(self, mapping: dict[str, str]):
        self.mapping = mapping

    def visit_Name(self, node: ast.Name):
        if node.id in self.mapping:
            return ast.copy_location(ast.Name(id=self.mapping[node.id], ctx=node.ctx), node)
        return node

    def visit_ExceptHandler(self, node):
        if node.name in self.mapping:
            node.name = self.mapping[node.name]
        self.generic_visit(node)
        return node


def _blocks(node: ast.AST):
    """Every statement list inside node (function bodies of nested defs excluded)."""
    for n in [node] + list(walk_local(node) if isinstance(node, (ast.FunctionDef, ast.AsyncFunctionDef)) else ast.walk(node)):
        for fld in ('body', 'orelse', 'finalbody'):
            b = getattr(n, fld, None)
            if isinstance(b, list) and b and isinstance(b[0], ast.stmt):
                yield n, fld, b
        if isinstance(n, ast.Try):
            for h in n.handlers:
                yield h, 'body', h.body


# ----------------------------------------------------------------------------------------
# P3: helper inlining


def _helper_ok(h: ast.FunctionDef, decorators: list[str]) -> Optional[str]:
    """Shape of an inlinable helper: 'expr' (single return expression), 'stmts' (statements with at most a
    final return) or None."""
    if h.name in KNOWN_HELPERS:
        return None
    if any(d.split('.')[-1] not in ('staticmethod',) for d in decorators):
        return None
    if h.args.vararg or h.args.kwarg:
        return None
    body = [s for s in h.body if not (isinstance(s, ast.Expr) and isinstance(s.value, ast.Constant))]
    if not body or len(body) > MAX_HELPER_STMTS:
        return None
    for n in walk_local(h):
        if isinstance(n, (ast.Yield, ast.YieldFrom, ast.Await, ast.Global, ast.Nonlocal)):
            return None
        if isinstance(n, ast.Call) and dotted(n.func) == h.name:
            return None     # recursive
        if isinstance(n, ast.Call) and isinstance(n.func, ast.Attribute) and n.func.attr == h.name:
            return None
    if h.name.startswith('_') or h.name not in BASELINE_DEF_NAMES:
        if fold_new_intermediates(h):
            body = [s for s in h.body if not (isinstance(s, ast.Expr) and isinstance(s.value, ast.Constant))]
    rets = [n for n in walk_local(h) if isinstance(n, ast.Return)]
    if len(rets) > 1 and h.name not in KNOWN_HELPERS and (h.name.startswith('_') or h.name not in BASELINE_DEF_NAMES):
        # a decision helper (`if a: return X` / `if b: return Y` / `return Z`) is given a single exit: every return becomes an
        # assignment to one result name on its own path, followed by one final return
        conv = _single_exit(body, '_result__' + h.name.strip('_'))
        if conv is not None:
            doc = [x for x in h.body if isinstance(x, ast.Expr) and isinstance(x.value, ast.Constant)]
            h.body[:] = doc + conv
            for x in conv:
                ast.copy_location(x, h)
                ast.fix_missing_locations(x)
            body = conv
            rets = [n for n in walk_local(h) if isinstance(n, ast.Return)]
    if len(body) == 2 and h.name not in BASELINE_DEF_NAMES and isinstance(body[0], ast.Assign) and len(body[0].targets) == 1 \
            and isinstance(body[0].targets[0], ast.Name) and isinstance(body[1], ast.Return) and body[1].value is not None:
        # `t = E; return G(t)` with t used once and nothing evaluated before it: the same as `return G(E)`
        t = body[0].targets[0].id
        uses = [x for x in ast.walk(body[1].value) if isinstance(x, ast.Name) and x.id == t]
        calls_ok = all(any(y is uses[0] for y in ast.walk(c)) for c in ast.walk(body[1].value) if isinstance(c, ast.Call)) if len(uses) == 1 else False
        nested = any(isinstance(x, (ast.Lambda, ast.ListComp, ast.SetComp, ast.DictComp, ast.GeneratorExp)) for x in ast.walk(body[1].value))
        if len(uses) == 1 and calls_ok and not nested and not isinstance(body[1].value, (ast.BoolOp, ast.IfExp)):
            body[1].value = _Subst({t: body[0].value}).visit(body[1].value)
            h.body[:] = [x for x in h.body if x is not body[0]]
            return 'expr'
    if len(body) == 1 and isinstance(body[0], ast.Return) and body[0].value is not None:
        return 'expr'
    if not rets:
        return 'stmts'
    if len(rets) == 1 and rets[0] is body[-1]:
        return 'stmts'
    return None


def _single_exit(stmts: list[ast.stmt], rname: str) -> Optional[list[ast.stmt]]:
    def conv(ss: list[ast.stmt]) -> Optional[list[ast.stmt]]:
        if not ss:
            return None
        s0 = ss[0]
        if isinstance(s0, ast.Return):
            if len(ss) != 1 or s0.value is None:
                return None
            return [ast.Assign(targets=[ast.Name(id=rname, ctx=ast.Store())], value=s0.value)]
        if isinstance(s0, ast.If) and any(isinstance(x, ast.Return) for x in ast.walk(s0)):
            b = conv(s0.body)
            if b is None:
                return None
            if s0.orelse:
                if len(ss) != 1:
                    return None
                o = conv(s0.orelse)
            else:
                o = conv(ss[1:])
            if o is None:
                return None
            return [ast.If(test=s0.test, body=b, orelse=o)]
        if not isinstance(s0, (ast.FunctionDef, ast.AsyncFunctionDef, ast.ClassDef)) and not any(isinstance(x, ast.Return) for x in ast.walk(s0)):
            # a statement that cannot return (an assignment, a call, a guard that raises, a loop without return): passed through
            if isinstance(s0, ast.Raise):
                return [s0] if len(ss) == 1 else None
            r = conv(ss[1:])
            return None if r is None else [s0] + r
        return None
    c = conv(stmts)
    if c is None:
        return None
    return c + [ast.Return(value=ast.Name(id=rname, ctx=ast.Load()))]


class _Inliner:

    def __init__(self, program: Program):
        self.P = program
        self.counter = 0
        self.inlined: list[str] = []
        self.helpers_inlined: dict[str, object] = {}
        self._sites: dict[str, int] = {}

    def run(self) -> None:
        self._orig_nodes = {q: copy.deepcopy(f.node) for q, f in self.P.funcs.items()}
        for _round in range(2):
            changed = False
            for fn in list(self.P.funcs.values()):
                if self._inline_in(fn):
                    changed = True
            if not changed:
                break
        self._drop_fully_inlined()

    def _drop_fully_inlined(self) -> None:
        """A helper whose every use was inlined is dead code: remove its definition, so that rules which
        enumerate the functions of a class / module do not see the same statements twice."""
        for h in self.helpers_inlined.values():
            tree = h.module.tree
            refs = 0
            for n in ast.walk(tree):
                if n is h.node:
                    continue
                if isinstance(n, ast.Name) and n.id == h.name and isinstance(n.ctx, ast.Load):
                    refs += 1
                elif isinstance(n, ast.Attribute) and n.attr == h.name and isinstance(n.ctx, ast.Load):
                    refs += 1
                elif isinstance(n, ast.Constant) and n.value == h.name:
                    refs += 1
            # references inside the helper's own body do not count
            for n in ast.walk(h.node):
                if isinstance(n, ast.Name) and n.id == h.name and isinstance(n.ctx, ast.Load):
                    refs -= 1
                elif isinstance(n, ast.Attribute) and n.attr == h.name and isinstance(n.ctx, ast.Load):
                    refs -= 1
            if refs > 0:
                continue
            for n in ast.walk(tree):
                for fld in ('body', 'orelse', 'finalbody'):
                    b = getattr(n, fld, None)
                    if isinstance(b, list) and any(x is h.node for x in b):
                        b[:] = [x for x in b if x is not h.node] or [ast.copy_location(ast.Pass(), h.node)]
                        self.inlined.append(f'{h.short} definition dropped (all uses inlined)')

    def _resolve(self, call: ast.Call, fn) -> Optional[tuple]:
        """(helper FuncInfo, receiver expr or None) when the call uniquely resolves to an inlinable helper."""
        name = None
        recv = None
        if isinstance(call.func, ast.Name):
            name = call.func.id
        elif isinstance(call.func, ast.Attribute) and isinstance(call.func.value, ast.Name):
            name = call.func.attr
            recv = call.func.value
        else:
            return None
        new_name = name not in BASELINE_DEF_NAMES
        if not (name.startswith('_') or self._is_local_closure(name, fn) or new_name) or name.startswith('__'):
            return None
        renamed_only = False      # decided below, once the helper is known
        cs = self.P.resolve_call(call, fn, by_name=False)
        cs = [q for q in cs if not q.startswith('?')]
        if not cs and recv is not None:
            # receiver of unknown type: a private method name that exists exactly once in this module
            same = [f for f in self.P.funcs.values() if f.name == name and f.cls is not None and f.parent is None and f.module.name == fn.module.name]
            if len(same) == 1:
                cs = [same[0].qualname]
        if len(cs) != 1 or cs[0] not in self.P.funcs:
            return None
        h = self.P.funcs[cs[0]]
        if h.qualname == fn.qualname:
            return None
        if new_name and self._shape(h) in BASELINE_DEF_SHAPES:
            # a pinned function under a new name (rename refactoring): it keeps its role, it is not an extracted fragment
            new_name = False
            if not (name.startswith('_') or self._is_local_closure(name, fn)):
                return None
        if h.module.name != fn.module.name:
            # a helper shared between modules (extracted into a common module): only a *new* module-level function, and the
            # global names it reads are made available in the caller's module (see _import_free_names)
            if not (new_name and h.cls is None and h.parent is None):
                return None
        if not hasattr(self, '_norm'):
            self._norm = {}
        if h.qualname not in self._norm:
            hc = copy.deepcopy(h.node)
            self._norm[h.qualname] = (_helper_ok(hc, h.decorators), hc)
        shape, hnorm = self._norm[h.qualname]
        if shape is None:
            return None
        # a statement method must be called on the caller's own self (so attribute reads mean the same object); a
        # single-expression method may be called on any plain name (`old._merged_with(new)`): self is substituted by it
        if h.cls is not None and h.parent is None and not h.is_static:
            own = recv is not None and recv.id == (fn.self_name or self._outer_self(fn))
            # (another plain local as receiver - `structure._add(x)` inside a classmethod that built `structure` - is substituted
            # for self the same way; the helper cannot rebind the caller's name)
            if recv is None or (not own and shape != 'expr' and not new_name):
                return None
        if shape == 'stmts' and self._call_sites(h) != 1:
            # a helper shared by several call sites is an abstraction of its own (like the executor's top-up
            # routine); only single-use helpers are "extract method" artefacts - except a small *new* function that
            # removes a duplicated fragment (a handful of statements, a few call sites)
            nb = len([x for x in h.node.body if not (isinstance(x, ast.Expr) and isinstance(x.value, ast.Constant))])
            forwarder = nb == 1 and new_name     # a new one-statement wrapper, however often it is used
            if not (forwarder or (new_name and nb <= 6 and self._call_sites(h) <= 4)):
                return None
        if h.module.name != fn.module.name:
            self._import_free_names(h, fn)
        return h, recv, shape

    def _install_norm(self, h) -> None:
        """The helper is about to be inlined: from here on use its normalised body (single exit, folded intermediates)."""
        shape, hnorm = self._norm.get(h.qualname, (None, None))
        if hnorm is not None and h.node.body is not hnorm.body:
            h.node.body = hnorm.body

    def _shape(self, h) -> str:
        if not hasattr(self, '_shapes'):
            self._shapes = {}
        if h.qualname not in self._shapes:
            self._shapes[h.qualname] = getattr(self, 'raw_shapes', {}).get(h.qualname) or def_shape(self._orig_nodes.get(h.qualname, h.node))
        return self._shapes[h.qualname]

    def _import_free_names(self, h, fn) -> None:
        """Make the module-level names the helper reads resolvable in the caller's module (the rebuilt Program resolves calls
        through each module's own imports): copy the helper module's import of the name, or import it from the helper's module."""
        bound_locally = _names_stored(h.node) | {a.arg for a in h.node.args.posonlyargs + h.node.args.args + h.node.args.kwonlyargs}
        free = {x.id for x in walk_local(h.node) if isinstance(x, ast.Name) and isinstance(x.ctx, ast.Load)} - bound_locally
        ctree = fn.module.tree
        have = set()
        for st in ctree.body:
            if isinstance(st, (ast.Import, ast.ImportFrom)):
                for a in st.names:
                    have.add((a.asname or a.name).split('.')[0])
            elif isinstance(st, (ast.FunctionDef, ast.AsyncFunctionDef, ast.ClassDef)):
                have.add(st.name)
            elif isinstance(st, ast.Assign):
                for t in st.targets:
                    if isinstance(t, ast.Name):
                        have.add(t.id)
        import builtins
        pkg_mod = h.module.name
        for nm in sorted(free - have):
            if hasattr(builtins, nm):
                continue
            stmt = None
            for st in h.module.tree.body:
                if isinstance(st, ast.ImportFrom) and any((a.asname or a.name) == nm for a in st.names):
                    mod = st.module or ''
                    if st.level:
                        base = pkg_mod.split('.')[:-st.level] if not h.module.path.endswith('__init__.py') else pkg_mod.split('.')[:len(pkg_mod.split('.')) - st.level + 1]
                        mod = '.'.join(base + ([mod] if mod else []))
                    stmt = ast.ImportFrom(module=mod, names=[a for a in st.names if (a.asname or a.name) == nm], level=0)
                elif isinstance(st, ast.Import) and any((a.asname or a.name).split('.')[0] == nm for a in st.names):
                    stmt = ast.Import(names=[a for a in st.names if (a.asname or a.name).split('.')[0] == nm])
                elif isinstance(st, (ast.FunctionDef, ast.AsyncFunctionDef, ast.ClassDef)) and st.name == nm:
                    stmt = ast.ImportFrom(module=pkg_mod, names=[ast.alias(name=nm, asname=None)], level=0)
            if stmt is not None:
                ast.fix_missing_locations(stmt)
                ctree.body.insert(0, stmt)

    def _call_sites(self, h) -> int:
        if h.qualname not in self._sites:
            n = 0
            for f in self.P.funcs.values():
                if f.module.name != h.module.name and not (h.name not in BASELINE_DEF_NAMES and h.cls is None and h.parent is None):
                    continue
                for c in [x for x in walk_local(f.node) if isinstance(x, ast.Call)]:
                    nm = c.func.id if isinstance(c.func, ast.Name) else (c.func.attr if isinstance(c.func, ast.Attribute) else None)
                    if nm == h.name:
                        n += 1
                # references as a value (Thread(target=self._h), partial(self._h, ...)) count as further uses
                for x in walk_local(f.node):
                    if isinstance(x, ast.Attribute) and x.attr == h.name and isinstance(x.ctx, ast.Load):
                        n += 0
            refs = 0
            for x in ast.walk(h.module.tree):
                if isinstance(x, ast.Attribute) and x.attr == h.name and isinstance(x.ctx, ast.Load):
                    refs += 1
                elif isinstance(x, ast.Name) and x.id == h.name and isinstance(x.ctx, ast.Load):
                    refs += 1
            # refs counts call-position uses too; value references = refs - calls
            self._sites[h.qualname] = n if refs <= n else max(n, refs)
        return self._sites[h.qualname]

    def _outer_self(self, fn):
        f = fn
        while f is not None:
            if f.self_name:
                return f.self_name
            f = f.parent
        return None

    def _is_local_closure(self, name: str, fn) -> bool:
        f = fn
        while f is not None:
            if name in f.nested:
                return True
            f = f.parent
        return False

    def _bind(self, h, recv, call: ast.Call) -> Optional[tuple[dict[str, ast.AST], list[ast.stmt]]]:
        """Parameter -> argument expression; complex arguments get a temporary."""
        node = h.node
        pos = list(node.args.posonlyargs) + list(node.args.args)
        names = [a.arg for a in pos]
        mapping: dict[str, ast.AST] = {}
        pre: list[ast.stmt] = []
        if h.cls is not None and h.parent is None and not h.is_static:
            if not names:
                return None
            mapping[names[0]] = recv
            names = names[1:]
        if any(isinstance(a, ast.Starred) for a in call.args) or len(call.args) > len(names):
            return None
        given: dict[str, ast.AST] = dict(zip(names, call.args))
        allowed = set(names) | {a.arg for a in node.args.kwonlyargs}
        for kw in call.keywords:
            if kw.arg is None or kw.arg not in allowed or kw.arg in given:
                return None
            given[kw.arg] = kw.value
        defaults = node.args.defaults
        for a, d in zip(pos[len(pos) - len(defaults):], defaults):
            given.setdefault(a.arg, d)
        for a, d in zip(node.args.kwonlyargs, node.args.kw_defaults):
            if d is not None:
                given.setdefault(a.arg, d)
        for n in names + [a.arg for a in node.args.kwonlyargs]:
            if n not in given:
                return None
        stored = _names_stored(node)
        for p, a in given.items():
            simple = isinstance(a, (ast.Name, ast.Constant)) or (isinstance(a, ast.Attribute) and dotted(a) is not None)
            reassigned = sum(1 for x in walk_local(node) if isinstance(x, ast.Name) and x.id == p and isinstance(x.ctx, ast.Store)) > 0
            if simple and not reassigned:
                mapping[p] = a
            else:
                self.counter += 1
                tmp = f'{p}__inl{self.counter}'
                asg = ast.Assign(targets=[ast.Name(id=tmp, ctx=ast.Store())], value=copy.deepcopy(a))
                ast.copy_location(asg, call)
                ast.fix_missing_locations(asg)
                pre.append(asg)
                mapping[p] = ast.Name(id=tmp, ctx=ast.Load())
        return mapping, pre

    def _instantiate(self, h, mapping: dict[str, ast.AST], caller_names: set[str]) -> list[ast.stmt]:
        body = [copy.deepcopy(s) for s in h.node.body
                if not (isinstance(s, ast.Expr) and isinstance(s.value, ast.Constant))]
        params = {a.arg for a in h.node.args.posonlyargs + h.node.args.args + h.node.args.kwonlyargs}
        locals_ = set()
        for s in body:
            locals_ |= _names_stored(s)
        locals_ -= params
        self.counter += 1
        ren = {n: f'{n}__inl{self.counter}' for n in locals_ if n in caller_names}
        # params reassigned in the helper are handled by _bind (temporaries), remaining params are substituted
        out = []
        for s in body:
            s = _Rename(ren).visit(s)
            s = _Subst(mapping).visit(s)
            out.append(s)
        return out

    def _inline_in(self, fn) -> bool:
        changed = False
        caller_names = _names_stored(fn.node) | {a.arg for a in fn.params}
        # expression helpers anywhere
        class ExprInl(ast.NodeTransformer):
            def __init__(s2):
                s2.changed = False

            def visit_FunctionDef(s2, node):
                if node is fn.node:
                    s2.generic_visit(node)
                return node

            visit_AsyncFunctionDef = visit_FunctionDef

            def visit_Lambda(s2, node):
                return node

            def visit_Call(s2, node):
                s2.generic_visit(node)
                r = self._resolve(node, fn)
                if r is None or r[2] != 'expr':
                    return node
                h, recv, _shape = r
                self._install_norm(h)
                b = self._bind(h, recv, node)
                if b is None or b[1]:
                    return node
                ret = [s for s in h.node.body if isinstance(s, ast.Return)][0]
                e = _Subst(b[0]).visit(copy.deepcopy(ret.value))
                s2.changed = True
                self.helpers_inlined[h.qualname] = h
                self.inlined.append(f'{h.short} -> {fn.short} (expression)')
                return e
        ei = ExprInl()
        ei.visit(fn.node)
        changed = changed or ei.changed
        # statement helpers
        for owner, fld, block in list(_blocks(fn.node)):
            i = 0
            while i < len(block):
                s = block[i]
                call = None
                kind = None
                if isinstance(s, ast.Expr) and isinstance(s.value, ast.Call):
                    call, kind = s.value, 'expr'
                elif isinstance(s, ast.Assign) and len(s.targets) == 1 and isinstance(s.value, ast.Call) \
                        and (isinstance(s.targets[0], (ast.Name, ast.Tuple))
                             or (isinstance(s.targets[0], ast.Attribute) and isinstance(s.targets[0].value, ast.Name))):
                    call, kind = s.value, 'assign'
                elif isinstance(s, ast.AnnAssign) and isinstance(s.target, ast.Name) and isinstance(s.value, ast.Call):
                    call, kind = s.value, 'assign'
                elif isinstance(s, ast.Return) and isinstance(s.value, ast.Call):
                    call, kind = s.value, 'return'
                elif isinstance(s, ast.AugAssign) and isinstance(s.target, ast.Name) and isinstance(s.value, ast.Call):
                    call, kind = s.value, 'augassign'
                if isinstance(s, ast.Expr) and isinstance(s.value, ast.Call) and dotted(s.value.func) is not None and not s.value.keywords \
                        and len(s.value.args) == 1 and isinstance(s.value.args[0], ast.Call):
                    # `sink(helper(...))`: only the (side-effect free) look-up of `sink` precedes the helper call
                    r0 = self._resolve(s.value.args[0], fn)
                    if r0 is not None and r0[2] == 'stmts':
                        call, kind = s.value.args[0], 'arg'
                if call is None:
                    i += 1
                    continue
                r = self._resolve(call, fn)
                # (an expression helper that the expression pass left alone - an argument needs a temporary - is inlined here,
                # where the temporary can be a statement of its own)
                if r is None or r[2] not in ('stmts', 'expr'):
                    i += 1
                    continue
                h, recv, _shape = r
                self._install_norm(h)
                b = self._bind(h, recv, call)
                if b is None:
                    i += 1
                    continue
                mapping, pre = b
                body = self._instantiate(h, mapping, caller_names)
                last = body[-1] if body else None
                tail: list[ast.stmt] = []
                if isinstance(last, ast.Return):
                    body = body[:-1]
                    val = last.value
                    if kind == 'assign' and val is not None:
                        tgt = s.targets[0] if isinstance(s, ast.Assign) else s.target
                        new = ast.Assign(targets=[copy.deepcopy(tgt)], value=val)
                        ast.copy_location(new, last)
                        tail = [new]
                    elif kind == 'return':
                        new = ast.Return(value=val)
                        ast.copy_location(new, last)
                        tail = [new]
                    elif kind == 'augassign' and val is not None:
                        new = ast.AugAssign(target=copy.deepcopy(s.target), op=s.op, value=val)
                        ast.copy_location(new, last)
                        tail = [new]
                    elif kind == 'arg' and val is not None:
                        new = ast.Expr(value=ast.Call(func=copy.deepcopy(s.value.func), args=[val], keywords=[]))
                        ast.copy_location(new, last)
                        tail = [new]
                    elif kind == 'expr' and val is not None:
                        new = ast.Expr(value=val)
                        ast.copy_location(new, last)
                        tail = [new]
                else:
                    if kind in ('augassign', 'arg'):
                        i += 1
                        continue
                    if kind == 'assign':
                        # helper without return value assigned: x = None
                        tgt = s.targets[0] if isinstance(s, ast.Assign) else s.target
                        new = ast.Assign(targets=[copy.deepcopy(tgt)], value=ast.Constant(value=None))
                        ast.copy_location(new, s)
                        tail = [new]
                    elif kind == 'return':
                        new = ast.Return(value=None)
                        ast.copy_location(new, s)
                        tail = [new]
                repl = pre + body + tail
                for x in repl:
                    ast.fix_missing_locations(x)
                block[i:i + 1] = repl
                caller_names |= set().union(*[_names_stored(x) for x in repl]) if repl else set()
                self.inlined.append(f'{h.short} -> {fn.short}')
                self.helpers_inlined[h.qualname] = h
                changed = True
                i += len(repl)
        return changed


# ----------------------------------------------------------------------------------------
# P0: alias propagation


def _pure_alias_value(e: ast.AST, allow_subscript: bool = False) -> bool:
    """Attribute chains, names, constants, type(x), getattr(x, y.name), and comparisons / boolean
    combinations / `is None` tests of those.  No subscripts (contents may change), no other calls."""
    if isinstance(e, (ast.Name, ast.Constant)):
        return True
    if isinstance(e, ast.Attribute):
        return _pure_alias_value(e.value)
    if isinstance(e, ast.Subscript) and allow_subscript:
        # alias of a container entry (`deps = self.m[k]`): the same object as long as self.m[k] is not re-assigned
        return isinstance(e.value, ast.Attribute) and _pure_alias_value(e.value) and _pure_alias_value(e.slice)
    if isinstance(e, ast.Call):
        d = dotted(e.func)
        if d == 'type' and len(e.args) == 1 and not e.keywords:
            return _pure_alias_value(e.args[0])
        if d == 'getattr' and len(e.args) == 2 and not e.keywords:
            return all(_pure_alias_value(a) for a in e.args)
        return False
    return False


def propagate_aliases(fn_node: ast.AST) -> int:
    """Substitute single-assignment pure aliases into their uses (uses must come after the assignment in
    the same or a nested block; the names the value reads must never be rebound after their own
    definition point)."""
    count = 0
    stores: dict[str, int] = {}
    comp_targets = _comp_bound(fn_node)
    comp_names = set()
    for n in walk_local(fn_node):
        if isinstance(n, ast.Name) and id(n) in comp_targets:
            comp_names.add(n.id)
    for n in walk_local(fn_node):
        if isinstance(n, ast.Name) and isinstance(n.ctx, (ast.Store, ast.Del)) and id(n) not in comp_targets:
            stores[n.id] = stores.get(n.id, 0) + 1
        elif isinstance(n, ast.ExceptHandler) and n.name:
            stores[n.name] = stores.get(n.name, 0) + 1
    params = {a.arg for a in fn_node.args.posonlyargs + fn_node.args.args + fn_node.args.kwonlyargs} \
        if isinstance(fn_node, (ast.FunctionDef, ast.AsyncFunctionDef)) else set()
    # names used inside nested function definitions: leave alone
    nested_uses = set()
    for n in walk_local(fn_node):
        if isinstance(n, (ast.FunctionDef, ast.AsyncFunctionDef, ast.Lambda)):
            for x in ast.walk(n):
                if isinstance(x, ast.Name):
                    nested_uses.add(x.id)
    for owner, fld, block in list(_blocks(fn_node)):
        i = 0
        while i < len(block):
            s = block[i]
            tgt = None
            if isinstance(s, ast.Assign) and len(s.targets) == 1 and isinstance(s.targets[0], ast.Name):
                tgt, val = s.targets[0].id, s.value
            elif isinstance(s, ast.AnnAssign) and isinstance(s.target, ast.Name) and s.value is not None:
                tgt, val = s.target.id, s.value
            def _bound_once_before(name: str) -> bool:
                # the source name is bound exactly once, by a plain assignment earlier in this very block
                if stores.get(name, 0) != 1 or name in comp_names or name in params:
                    return False
                for prev in block[:i]:
                    if isinstance(prev, ast.Assign) and len(prev.targets) == 1 and isinstance(prev.targets[0], ast.Name) and prev.targets[0].id == name:
                        return True
                    if isinstance(prev, ast.AnnAssign) and isinstance(prev.target, ast.Name) and prev.target.id == name and prev.value is not None:
                        return True
                return False
            if tgt is None or stores.get(tgt, 0) != 1 or tgt in params or tgt in nested_uses \
                    or not _pure_alias_value(val, allow_subscript=True) or isinstance(val, ast.Constant) \
                    or (isinstance(val, ast.Name) and ((stores.get(val.id, 0) > 0 and not _bound_once_before(val.id)) or val.id in comp_names)):
                i += 1
                continue
            if isinstance(val, ast.Subscript):
                # the entry must not be re-assigned / deleted anywhere in the function (mutation through the
                # alias or through the entry is the same object)
                base = dotted(val.value)
                rebound = False
                for x in walk_local(fn_node):
                    if isinstance(x, ast.Subscript) and isinstance(x.ctx, (ast.Store, ast.Del)) and dotted(x.value) == base:
                        rebound = True
                if rebound:
                    i += 1
                    continue
            reads = {x.id for x in ast.walk(val) if isinstance(x, ast.Name)}
            # every name the value reads is bound at most once (parameter, loop target, single assignment)
            if any(stores.get(r, 0) > 1 for r in reads) or tgt in reads:
                i += 1
                continue
            # all uses of tgt lie in the statements after this one, in this block
            after = block[i + 1:]
            # an attribute path the value reads must not be written afterwards
            vpaths = {dotted(x) for x in ast.walk(val) if isinstance(x, ast.Attribute) and dotted(x)}
            wpaths = set()
            for st in after:
                for x in ast.walk(st):
                    if isinstance(x, ast.Attribute) and isinstance(x.ctx, (ast.Store, ast.Del)) and dotted(x):
                        wpaths.add(dotted(x))
            if any(w == v or v.startswith(w + '.') or w.startswith(v + '.') for w in wpaths for v in vpaths):
                i += 1
                continue
            def _uses(root):
                # occurrences of the function-scope variable tgt (comprehensions that bind the same name are
                # a different variable)
                cnt = 0
                stack = [root]
                while stack:
                    x = stack.pop()
                    if isinstance(x, (ast.ListComp, ast.SetComp, ast.DictComp, ast.GeneratorExp)):
                        bound = {y.id for g in x.generators for y in ast.walk(g.target) if isinstance(y, ast.Name)}
                        if tgt in bound:
                            stack.append(x.generators[0].iter)
                            continue
                    if isinstance(x, (ast.FunctionDef, ast.AsyncFunctionDef, ast.Lambda)) and x is not root:
                        continue
                    if isinstance(x, ast.Name) and x.id == tgt and isinstance(x.ctx, ast.Load):
                        cnt += 1
                    stack.extend(ast.iter_child_nodes(x))
                return cnt
            uses_after = sum(_uses(st) for st in after)
            total_uses = _uses(fn_node)
            if uses_after != total_uses or total_uses == 0:
                i += 1
                continue
            sub = _Subst({tgt: val})
            block[i + 1:] = [sub.visit(st) for st in after]
            del block[i]
            count += 1
        # do not advance i when a statement was deleted (handled by loop structure)
    return count


# ----------------------------------------------------------------------------------------
# P1: accumulator loops -> comprehensions


def _empty_container(e: ast.AST) -> Optional[str]:
    if isinstance(e, ast.List) and not e.elts:
        return 'list'
    if isinstance(e, ast.Dict) and not e.keys:
        return 'dict'
    if isinstance(e, ast.Call) and not e.args and not e.keywords:
        d = dotted(e.func)
        if d in ('list', 'dict', 'set'):
            return d
        if d in ('Counter', 'collections.Counter', 'OrderedDict', 'collections.OrderedDict'):
            return 'dict:' + d       # `c = Counter(); for …: c[k] = v`  ==  `c = Counter({k: v for …})`
    return None


def _loop_to_generators(loop: ast.For, acc: str, kind: str):
    """If `loop` only accumulates into acc: (generators, element) where element is the value expr (list/set)
    or (key, value) (dict)."""
    if loop.orelse:
        return None
    gens = [ast.comprehension(target=loop.target, iter=loop.iter, ifs=[], is_async=0)]
    body = list(loop.body)
    subst: dict[str, ast.AST] = {}
    while True:
        # leading guards `if c: continue`
        while body and isinstance(body[0], ast.If) and not body[0].orelse and len(body[0].body) == 1 \
                and isinstance(body[0].body[0], ast.Continue):
            gens[-1].ifs.append(ast.UnaryOp(op=ast.Not(), operand=body[0].test))
            body = body[1:]
        # leading single-use local assignments (substituted into what follows)
        if len(body) > 1 and isinstance(body[0], ast.Assign) and len(body[0].targets) == 1 and isinstance(body[0].targets[0], ast.Name) \
                and not any(isinstance(x, ast.Name) and x.id == acc for x in ast.walk(body[0].value)):
            nm = body[0].targets[0].id
            rest_uses = sum(1 for st in body[1:] for x in ast.walk(st) if isinstance(x, ast.Name) and x.id == nm)
            if rest_uses >= 1 and not any(isinstance(x, ast.Call) for x in ast.walk(body[0].value)) or rest_uses == 1:
                subst[nm] = body[0].value
                body = body[1:]
                continue
        if len(body) == 1 and isinstance(body[0], ast.If) and not body[0].orelse:
            gens[-1].ifs.append(body[0].test)
            body = list(body[0].body)
            continue
        if len(body) == 1 and isinstance(body[0], ast.For) and not body[0].orelse:
            gens.append(ast.comprehension(target=body[0].target, iter=body[0].iter, ifs=[], is_async=0))
            body = list(body[0].body)
            continue
        break
    if len(body) != 1:
        return None
    s = body[0]
    elem = None
    if kind in ('list', 'set') and isinstance(s, ast.Expr) and isinstance(s.value, ast.Call) and isinstance(s.value.func, ast.Attribute) \
            and s.value.func.attr == ('append' if kind == 'list' else 'add') and isinstance(s.value.func.value, ast.Name) \
            and s.value.func.value.id == acc and len(s.value.args) == 1 and not s.value.keywords:
        elem = s.value.args[0]
    elif kind == 'dict' and isinstance(s, ast.Assign) and len(s.targets) == 1 and isinstance(s.targets[0], ast.Subscript) \
            and isinstance(s.targets[0].value, ast.Name) and s.targets[0].value.id == acc:
        elem = (s.targets[0].slice, s.value)
    else:
        # `acc.extend(E)` / `acc += E` (list) / `acc.update(E)` (set): one more generator over E
        more = None
        if kind in ('list', 'set') and isinstance(s, ast.Expr) and isinstance(s.value, ast.Call) and isinstance(s.value.func, ast.Attribute) \
                and s.value.func.attr == ('extend' if kind == 'list' else 'update') and isinstance(s.value.func.value, ast.Name) \
                and s.value.func.value.id == acc and len(s.value.args) == 1 and not s.value.keywords:
            more = s.value.args[0]
        elif kind == 'list' and isinstance(s, ast.AugAssign) and isinstance(s.op, ast.Add) and isinstance(s.target, ast.Name) and s.target.id == acc:
            more = s.value
        if more is not None and not isinstance(more, (ast.List, ast.Tuple, ast.Set)):
            ev = '_each__' + acc
            gens.append(ast.comprehension(target=ast.Name(id=ev, ctx=ast.Store()), iter=more, ifs=[], is_async=0))
            elem = ast.Name(id=ev, ctx=ast.Load())
    if elem is None:
        return None
    # acc must not be read inside the loop
    probe = [g.iter for g in gens] + [i for g in gens for i in g.ifs] + (list(elem) if isinstance(elem, tuple) else [elem])
    if any(isinstance(x, ast.Name) and x.id == acc for p in probe for x in ast.walk(p)):
        return None
    if subst:
        sb = _Subst(subst)
        for g in gens:
            g.ifs = [sb.visit(i) for i in g.ifs]
        elem = tuple(sb.visit(e) for e in elem) if isinstance(elem, tuple) else sb.visit(elem)
    return gens, elem


def fold_accumulator_loops(fn_node: ast.AST) -> int:
    count = 0
    for owner, fld, block in list(_blocks(fn_node)):
        i = 0
        while i + 1 < len(block):
            s, nxt = block[i], block[i + 1]
            acc = kind = None
            if isinstance(s, ast.Assign) and len(s.targets) == 1 and isinstance(s.targets[0], ast.Name):
                acc, kind = s.targets[0].id, _empty_container(s.value)
            elif isinstance(s, ast.AnnAssign) and isinstance(s.target, ast.Name) and s.value is not None:
                acc, kind = s.target.id, _empty_container(s.value)
            if acc is None or kind is None or not isinstance(nxt, ast.For):
                i += 1
                continue
            wrapper = None
            if kind.startswith('dict:'):
                kind, wrapper = 'dict', kind[5:]
            r = _loop_to_generators(nxt, acc, kind)
            if r is None:
                i += 1
                continue
            gens, elem = r
            if kind == 'list':
                comp: ast.AST = ast.ListComp(elt=elem, generators=gens)
            elif kind == 'set':
                comp = ast.SetComp(elt=elem, generators=gens)
            else:
                comp = ast.DictComp(key=elem[0], value=elem[1], generators=gens)
                if wrapper is not None:
                    ast.copy_location(comp, nxt)
                    comp = ast.Call(func=ast.parse(wrapper, mode='eval').body, args=[comp], keywords=[])
            new = ast.Assign(targets=[ast.Name(id=acc, ctx=ast.Store())], value=comp)
            ast.copy_location(new, nxt)
            ast.copy_location(comp, nxt)
            ast.fix_missing_locations(new)
            block[i:i + 2] = [new]
            count += 1
        # no increment needed beyond the while condition
    return count


# ----------------------------------------------------------------------------------------
# P2: dict builders


def fold_dict_builders(fn_node: ast.AST) -> int:
    count = 0
    for owner, fld, block in list(_blocks(fn_node)):
        i = 0
        while i + 1 < len(block):
            s = block[i]
            d = None
            if isinstance(s, ast.Assign) and len(s.targets) == 1 and isinstance(s.targets[0], ast.Name):
                d, val = s.targets[0].id, s.value
            elif isinstance(s, ast.AnnAssign) and isinstance(s.target, ast.Name) and s.value is not None:
                d, val = s.target.id, s.value
            if d is None or not isinstance(val, (ast.Dict, ast.DictComp)):
                i += 1
                continue
            disp = val if isinstance(val, ast.Dict) else ast.Dict(keys=[None], values=[val])
            if disp is not val:
                ast.copy_location(disp, val)
            j = i + 1
            folded = 0
            while j < len(block):
                t = block[j]
                if isinstance(t, ast.Assign) and len(t.targets) == 1 and isinstance(t.targets[0], ast.Subscript) \
                        and isinstance(t.targets[0].value, ast.Name) and t.targets[0].value.id == d \
                        and isinstance(t.targets[0].slice, ast.Constant) \
                        and not any(isinstance(x, ast.Name) and x.id == d for x in ast.walk(t.value)):
                    disp.keys.append(t.targets[0].slice)
                    disp.values.append(t.value)
                elif isinstance(t, ast.Expr) and isinstance(t.value, ast.Call) and isinstance(t.value.func, ast.Attribute) \
                        and t.value.func.attr == 'update' and isinstance(t.value.func.value, ast.Name) and t.value.func.value.id == d \
                        and len(t.value.args) == 1 and not t.value.keywords and isinstance(t.value.args[0], (ast.Dict, ast.DictComp)) \
                        and not any(isinstance(x, ast.Name) and x.id == d for x in ast.walk(t.value.args[0])):
                    if isinstance(t.value.args[0], ast.Dict):
                        disp.keys.extend(t.value.args[0].keys)         # {**a, **{'k': v}} is {**a, 'k': v}
                        disp.values.extend(t.value.args[0].values)
                    else:
                        disp.keys.append(None)
                        disp.values.append(t.value.args[0])
                else:
                    break
                folded += 1
                j += 1
            if folded:
                if isinstance(s, ast.Assign):
                    s.value = disp
                else:
                    s.value = disp
                del block[i + 1:j]
                count += 1
            i += 1
    return count


# ----------------------------------------------------------------------------------------
# driver


def split_pops(fn_node: ast.AST) -> int:
    """`x = self.d.pop(k)` -> `x = self.d[k]; del self.d[k]`, statement `self.d.pop(k)` -> `del self.d[k]`
    (one-argument pop on an attribute of self: a dict entry removal)."""
    count = 0

    def is_self_pop(c: ast.AST) -> bool:
        return isinstance(c, ast.Call) and isinstance(c.func, ast.Attribute) and c.func.attr == 'pop' and len(c.args) == 1 \
            and not c.keywords and isinstance(c.func.value, ast.Attribute) and isinstance(c.func.value.value, ast.Name) \
            and c.func.value.value.id in ('self',) and not (isinstance(c.args[0], ast.Constant) and isinstance(c.args[0].value, int))
    for owner, fld, block in list(_blocks(fn_node)):
        i = 0
        while i < len(block):
            s = block[i]
            if isinstance(s, ast.Assign) and len(s.targets) == 1 and is_self_pop(s.value):
                c = s.value
                sub = ast.Subscript(value=c.func.value, slice=c.args[0], ctx=ast.Load())
                get = ast.Assign(targets=s.targets, value=sub)
                dele = ast.Delete(targets=[ast.Subscript(value=copy.deepcopy(c.func.value), slice=copy.deepcopy(c.args[0]), ctx=ast.Del())])
                for n in (get, dele):
                    ast.copy_location(n, s)
                    ast.fix_missing_locations(n)
                block[i:i + 1] = [get, dele]
                count += 1
                i += 2
                continue
            if isinstance(s, ast.Expr) and is_self_pop(s.value):
                c = s.value
                dele = ast.Delete(targets=[ast.Subscript(value=c.func.value, slice=c.args[0], ctx=ast.Del())])
                ast.copy_location(dele, s)
                ast.fix_missing_locations(dele)
                block[i] = dele
                count += 1
            i += 1
    return count


def partials_to_closures(fn_node: ast.AST) -> int:
    """`name = functools.partial(F, *a, **kw)` (name assigned once, only ever called) -> `def name(*x, **y): return F(*a, *x, **kw, **y)`
    restricted to the zero-extra-argument use: `def name(): return F(*a, **kw)`."""
    count = 0
    for owner, fld, block in list(_blocks(fn_node)):
        for i, s in enumerate(block):
            if isinstance(s, ast.Assign) and len(s.targets) == 1 and isinstance(s.targets[0], ast.Name) and isinstance(s.value, ast.Call) \
                    and dotted(s.value.func) in ('functools.partial', 'partial') and s.value.args:
                name = s.targets[0].id
                stores = sum(1 for x in walk_local(fn_node) if isinstance(x, ast.Name) and x.id == name and isinstance(x.ctx, ast.Store))
                loads = [x for x in walk_local(fn_node) if isinstance(x, ast.Name) and x.id == name and isinstance(x.ctx, ast.Load)]
                calls = [c for c in walk_local(fn_node) if isinstance(c, ast.Call) and isinstance(c.func, ast.Name) and c.func.id == name
                         and not c.args and not c.keywords]
                if stores != 1 or len(loads) != len(calls) or not calls:
                    continue
                call = ast.Call(func=s.value.args[0], args=list(s.value.args[1:]), keywords=list(s.value.keywords))
                fdef = ast.FunctionDef(name=name, args=ast.arguments(posonlyargs=[], args=[], vararg=None, kwonlyargs=[], kw_defaults=[],
                                                                      kwarg=None, defaults=[]),
                                       body=[ast.Return(value=call)], decorator_list=[], returns=None, type_comment=None, type_params=[])
                ast.copy_location(fdef, s)
                ast.fix_missing_locations(fdef)
                block[i] = fdef
                count += 1
    return count


def canonicalise(sources: dict[str, str]) -> tuple[Program, dict]:
    """Parse, inline new private helpers, normalise every function body; returns the Program over the
    canonical trees and a small report."""
    pre0 = Program(sources)
    report = {'inlined_helpers': [], 'aliases_propagated': 0, 'accumulator_loops_folded': 0, 'dict_builders_folded': 0,
              'pops_split': 0, 'partials_to_closures': 0}
    if pre0.parse_errors:
        return pre0, report
    trees0 = {m.path: m.tree for m in pre0.modules.values()}
    raw_shapes = {q: def_shape(f.node) for q, f in pre0.funcs.items()}     # before any pass touches the trees
    from . import canon_decl
    report['private_properties_inlined'] = canon_decl.inline_private_properties(trees0)
    report['private_mixins_flattened'] = canon_decl.flatten_private_mixins(trees0)
    report['private_context_managers_desugared'] = canon_decl.desugar_private_context_managers(trees0)
    report['callable_classes_to_closures'] = canon_decl.callable_classes_to_closures(trees0)
    report['listed_generators_inlined'] = canon_decl.inline_listed_generators(trees0)
    report['drain_generators_inlined'] = canon_decl.inline_looped_drain_generators(trees0)
    report['search_helpers_inlined'] = canon_decl.inline_search_helpers(trees0)
    report['method_objects_dissolved'] = canon_decl.dissolve_method_objects(trees0)
    report['forwarding_adapters_dropped'] = canon_decl.drop_forwarding_adapters(trees0)
    report['private_holders_dissolved'] = canon_decl.dissolve_private_holders(trees0)
    report['dataclass_inits_written'] = sum(canon_decl.desugar_dataclasses(t) for t in trees0.values())
    report['namedtuple_uses_flattened'] = canon_decl.desugar_namedtuples(trees0)
    report['new_constants_inlined'] = sum(canon_decl.inline_new_constants(t) for t in trees0.values())
    for tree in trees0.values():
        for n in ast.walk(tree):
            if isinstance(n, (ast.FunctionDef, ast.AsyncFunctionDef)):
                report['closing_iterators_unwrapped'] = report.get('closing_iterators_unwrapped', 0) + unwrap_closing_iterators(n)
                report['filter_generators_unfolded'] = report.get('filter_generators_unfolded', 0) + unfold_filter_generators(n)
                report['items_loops_to_keys'] = report.get('items_loops_to_keys', 0) + items_loops_to_keys(n)
                report['isinstance_reraise_split'] = report.get('isinstance_reraise_split', 0) + split_isinstance_reraise(n)
                report['suppress_desugared'] = report.get('suppress_desugared', 0) + desugar_suppress(n)
                report['pops_split'] += split_pops(n)
                report['partials_to_closures'] += partials_to_closures(n)
                report['partials_to_closures'] += hoist_inline_partials(n)
    pre = Program(sources, trees=trees0)
    inl = _Inliner(pre)
    inl.raw_shapes = raw_shapes
    inl.run()
    report['inlined_helpers'] = inl.inlined
    trees = {m.path: m.tree for m in pre.modules.values()}
    for tree in trees.values():
        for n in ast.walk(tree):
            if isinstance(n, (ast.FunctionDef, ast.AsyncFunctionDef)):
                report['nested_fstrings_flattened'] = report.get('nested_fstrings_flattened', 0) + flatten_nested_fstrings(n)
                report['joined_tails_sunk'] = report.get('joined_tails_sunk', 0) + sink_joined_tails(n)
                report['hash_updates_folded'] = report.get('hash_updates_folded', 0) + fold_hash_updates(n)
                report['counter_updates_folded'] = report.get('counter_updates_folded', 0) + fold_counter_updates(n)
                report['setdefault_forms_folded'] = report.get('setdefault_forms_folded', 0) + fold_setdefault_forms(n)
                report['new_intermediates_folded'] = report.get('new_intermediates_folded', 0) + fold_new_intermediates(n)
                report['relay_accumulators_dropped'] = report.get('relay_accumulators_dropped', 0) + drop_relay_accumulators(n)
                for _ in range(3):
                    a = fold_accumulator_loops(n)
                    b = fold_dict_builders(n)
                    c = propagate_aliases(n)
                    report['accumulator_loops_folded'] += a
                    report['dict_builders_folded'] += b
                    report['aliases_propagated'] += c
                    if not (a or b or c):
                        break
                if fold_new_intermediates(n):
                    report['new_intermediates_folded'] = report.get('new_intermediates_folded', 0) + 1
                    propagate_aliases(n)
        ast.fix_missing_locations(tree)
    prog = Program(sources, trees=trees)
    prog.canon_report = report
    return prog, report


# ----------------------------------------------------------------------------------------
# P5: a joined tail statement is sunk back into the branches that feed it
#
#     try: ... except E as ex: outcome = ex            try: ... except E as ex: yield (task, ex)
#     else: outcome = r.meta                    ->     else: yield (task, r.meta)
#     yield (task, outcome)
#
# (only when every branch that can fall through ends with `v = <expr>`, the tail is a simple statement, `v` is read
# nowhere else, and - for a try statement - there is an else clause and no finally, so that exception coverage of the
# tail does not change)

def _terminates(block: list[ast.stmt]) -> bool:
    return bool(block) and isinstance(block[-1], (ast.Raise, ast.Return, ast.Continue, ast.Break))


def _leaves(st: ast.stmt) -> Optional[list[list[ast.stmt]]]:
    if isinstance(st, ast.If):
        out = []
        for blk in (st.body, st.orelse):
            if not blk:
                return None              # no else: one path falls through without an assignment
            if len(blk) == 1 and isinstance(blk[0], ast.If):
                sub = _leaves(blk[0])
                if sub is None:
                    return None
                out.extend(sub)
            else:
                out.append(blk)
        return out
    if isinstance(st, ast.Try):
        if st.finalbody or not st.orelse or not st.handlers:
            return None
        return [h.body for h in st.handlers] + [st.orelse]
    return None


def sink_joined_tails(fn_node: ast.AST) -> int:
    n = 0
    changed = True
    while changed:
        changed = False
        for _owner, _fld, blk in _blocks(fn_node):
            for i in range(len(blk) - 1):
                s, t = blk[i], blk[i + 1]
                leaves = _leaves(s)
                if leaves is None or not isinstance(t, (ast.Expr, ast.Assign)):
                    continue
                if any(isinstance(x, (ast.Lambda, ast.ListComp, ast.DictComp, ast.SetComp, ast.GeneratorExp)) for x in ast.walk(t)):
                    continue
                open_leaves = [lf for lf in leaves if not _terminates(lf)]
                if not open_leaves:
                    continue
                last = [lf[-1] for lf in open_leaves]
                if not all(isinstance(a, ast.Assign) and len(a.targets) == 1 and isinstance(a.targets[0], ast.Name) for a in last):
                    continue
                names = {a.targets[0].id for a in last}
                if len(names) != 1:
                    continue
                v = next(iter(names))
                loads_t = [x for x in ast.walk(t) if isinstance(x, ast.Name) and x.id == v and isinstance(x.ctx, ast.Load)]
                loads_all = [x for x in ast.walk(fn_node) if isinstance(x, ast.Name) and x.id == v and isinstance(x.ctx, ast.Load)]
                stores_all = [x for x in ast.walk(fn_node) if isinstance(x, ast.Name) and x.id == v and isinstance(x.ctx, ast.Store)]
                decls = [x for x in ast.walk(fn_node) if isinstance(x, ast.AnnAssign) and x.value is None and isinstance(x.target, ast.Name) and x.target.id == v]
                if not loads_t or len(loads_t) != len(loads_all) or len(stores_all) != len(last) + len(decls):
                    continue
                if isinstance(t, ast.Assign) and any(isinstance(x, ast.Name) and x.id == v for tg in t.targets for x in ast.walk(tg)):
                    continue
                for lf, a in zip(open_leaves, last):
                    t2 = _Subst({v: a.value}).visit(copy.deepcopy(t))
                    ast.copy_location(t2, a)
                    lf[-1] = t2
                del blk[i + 1]
                for d in decls:
                    for _o2, _f2, b2 in _blocks(fn_node):
                        if d in b2:
                            b2.remove(d)
                n += 1
                changed = True
                break
            if changed:
                break
    return n


# ----------------------------------------------------------------------------------------
# P6: `h = hashlib.sha1(); h.update(E); ... h.hexdigest()`  ->  `hashlib.sha1(E).hexdigest()`  (exactly one update)

def fold_hash_updates(fn_node: ast.AST) -> int:
    n = 0
    for _owner, _fld, blk in _blocks(fn_node):
        for i, st in enumerate(list(blk)):
            if not (isinstance(st, ast.Assign) and len(st.targets) == 1 and isinstance(st.targets[0], ast.Name) and isinstance(st.value, ast.Call)
                    and (dotted(st.value.func) or '').startswith('hashlib.') and not st.value.args and not st.value.keywords):
                continue
            h = st.targets[0].id
            ups = [s for s in blk if isinstance(s, ast.Expr) and isinstance(s.value, ast.Call) and isinstance(s.value.func, ast.Attribute)
                   and s.value.func.attr == 'update' and isinstance(s.value.func.value, ast.Name) and s.value.func.value.id == h and len(s.value.args) == 1]
            loads = [x for x in ast.walk(fn_node) if isinstance(x, ast.Name) and x.id == h and isinstance(x.ctx, ast.Load)]
            stores = [x for x in ast.walk(fn_node) if isinstance(x, ast.Name) and x.id == h and isinstance(x.ctx, ast.Store)]
            if len(ups) != 1 or len(stores) != 1 or blk.index(ups[0]) < i:
                continue
            arg = ups[0].value.args[0]
            ctor = ast.Call(func=st.value.func, args=[arg], keywords=[])
            ast.copy_location(ctor, st.value)
            ok = True
            uses = [x for x in loads if x is not ups[0].value.func.value]
            if not uses:
                continue

            class R(ast.NodeTransformer):
                def visit_Name(self, node: ast.Name):
                    if node.id == h and isinstance(node.ctx, ast.Load):
                        return copy.deepcopy(ctor)
                    return node
            blk.remove(ups[0])
            blk.remove(st)
            for s2 in blk:
                R().visit(s2)
            if ok:
                n += 1
            break
    if n:
        ast.fix_missing_locations(fn_node)
    return n


# ----------------------------------------------------------------------------------------
# P7: counter updates spelled out:  `d[k] = d.get(k, 0) + e`  /  `d[k] = d[k] + e`   ->   `d[k] += e`

def fold_counter_updates(fn_node: ast.AST) -> int:
    n = 0
    for _owner, _fld, blk in _blocks(fn_node):
        for i, st in enumerate(blk):
            if not (isinstance(st, ast.Assign) and len(st.targets) == 1 and isinstance(st.targets[0], ast.Subscript)
                    and isinstance(st.value, ast.BinOp) and isinstance(st.value.op, ast.Add)):
                continue
            tgt = st.targets[0]
            if not _pure_alias_value(tgt.value) or not isinstance(tgt.value, (ast.Name, ast.Attribute)):
                continue
            for cur, inc in ((st.value.left, st.value.right), (st.value.right, st.value.left)):
                same = False
                if isinstance(cur, ast.Subscript) and ast.dump(cur.value) == ast.dump(tgt.value) and ast.dump(cur.slice) == ast.dump(tgt.slice):
                    same = True
                elif isinstance(cur, ast.Call) and isinstance(cur.func, ast.Attribute) and cur.func.attr == 'get' and len(cur.args) == 2 \
                        and ast.dump(cur.func.value) == ast.dump(tgt.value) and ast.dump(cur.args[0]) == ast.dump(tgt.slice) \
                        and isinstance(cur.args[1], ast.Constant) and cur.args[1].value == 0 and not isinstance(cur.args[1].value, bool):
                    same = True
                if same:
                    t2 = copy.deepcopy(tgt)
                    new = ast.AugAssign(target=t2, op=ast.Add(), value=inc)
                    ast.copy_location(new, st)
                    blk[i] = new
                    n += 1
                    break
    if n:
        ast.fix_missing_locations(fn_node)
    return n


# ----------------------------------------------------------------------------------------
# P8: `except T as e:  if isinstance(e, K): raise ; REST`   ->   `except K: raise`  +  `except T as e: REST`
# P9: `with contextlib.suppress(E): BODY`                    ->   `try: BODY  except E: pass`

def split_isinstance_reraise(fn_node: ast.AST) -> int:
    n = 0
    for t in [x for x in walk_local(fn_node) if isinstance(x, ast.Try)]:
        new_handlers = []
        for h in t.handlers:
            first = h.body[0] if h.body else None
            ok = (h.name and isinstance(first, ast.If) and not first.orelse and len(first.body) == 1 and isinstance(first.body[0], ast.Raise)
                  and (first.body[0].exc is None or (isinstance(first.body[0].exc, ast.Name) and first.body[0].exc.id == h.name and first.body[0].cause is None))
                  and isinstance(first.test, ast.Call) and dotted(first.test.func) == 'isinstance' and len(first.test.args) == 2
                  and isinstance(first.test.args[0], ast.Name) and first.test.args[0].id == h.name and len(h.body) > 1)
            if ok:
                k = ast.ExceptHandler(type=copy.deepcopy(first.test.args[1]), name=None, body=[ast.Raise(exc=None, cause=None)])
                ast.copy_location(k, first)
                ast.copy_location(k.body[0], first.body[0])
                new_handlers.append(k)
                h.body = h.body[1:]
                n += 1
            new_handlers.append(h)
        t.handlers = new_handlers
    if n:
        ast.fix_missing_locations(fn_node)
    return n


def desugar_suppress(fn_node: ast.AST) -> int:
    n = 0
    for _owner, _fld, blk in _blocks(fn_node):
        for i, st in enumerate(blk):
            if isinstance(st, ast.With) and len(st.items) == 1 and st.items[0].optional_vars is None:
                ce = st.items[0].context_expr
                if isinstance(ce, ast.Call) and (dotted(ce.func) or '').split('.')[-1] == 'suppress' and ce.args and not ce.keywords:
                    typ = ce.args[0] if len(ce.args) == 1 else ast.Tuple(elts=list(ce.args), ctx=ast.Load())
                    h = ast.ExceptHandler(type=typ, name=None, body=[ast.Pass()])
                    new = ast.Try(body=st.body, handlers=[h], orelse=[], finalbody=[])
                    ast.copy_location(new, st)
                    ast.copy_location(h, st)
                    ast.copy_location(h.body[0], st)
                    blk[i] = new
                    n += 1
    if n:
        ast.fix_missing_locations(fn_node)
    return n


# ----------------------------------------------------------------------------------------
# P10: `f(..., functools.partial(F, a, b), ...)` as a thread target / callback  ->  `def _partial_N(): return F(a, b)` before
#      the statement, and the name in its place (the inliner then fills in a new private F)

def hoist_inline_partials(fn_node: ast.AST) -> int:
    count = 0
    for owner, fld, block in list(_blocks(fn_node)):
        i = 0
        while i < len(block):
            s = block[i]
            if isinstance(s, (ast.FunctionDef, ast.AsyncFunctionDef, ast.ClassDef)) or not isinstance(s, (ast.Expr, ast.Assign, ast.AnnAssign, ast.Return)):
                i += 1
                continue
            target = None
            for c in ast.walk(s):
                if isinstance(c, ast.Call) and dotted(c.func) in ('functools.partial', 'partial') and c.args \
                        and not (isinstance(s, ast.Assign) and s.value is c):
                    # only as a keyword value `target=` / `callback=` or a plain argument of an enclosing call
                    target = c
                    break
            if target is None or any(isinstance(a, ast.Starred) for a in target.args) or any(k.arg is None for k in target.keywords):
                i += 1
                continue
            name = f'_partial_{getattr(s, "lineno", 0)}_{count}'
            call = ast.Call(func=target.args[0], args=list(target.args[1:]), keywords=list(target.keywords))
            fdef = ast.FunctionDef(name=name, args=ast.arguments(posonlyargs=[], args=[], vararg=None, kwonlyargs=[], kw_defaults=[], kwarg=None, defaults=[]),
                                   body=[ast.Return(value=call)], decorator_list=[], returns=None, type_comment=None, type_params=[])
            ast.copy_location(fdef, s)

            class R(ast.NodeTransformer):
                def visit_Call(self, node):
                    if node is target:
                        return ast.copy_location(ast.Name(id=name, ctx=ast.Load()), node)
                    self.generic_visit(node)
                    return node
            block[i] = R().visit(s)
            block.insert(i, fdef)
            ast.fix_missing_locations(fdef)
            count += 1
            i += 2
    return count


# ----------------------------------------------------------------------------------------
# P11: defaultdict spelled out:  `d.setdefault(k, <empty>).append(v)` -> `d[k].append(v)`;   `for x in d.get(k, <empty>)` -> `for x in d[k]`

def _empty_ctor(e: ast.AST) -> bool:
    if isinstance(e, (ast.List, ast.Set, ast.Tuple)) and not e.elts:
        return True
    if isinstance(e, ast.Dict) and not e.keys:
        return True
    return isinstance(e, ast.Call) and not e.args and not e.keywords and (dotted(e.func) or '').split('.')[-1] in ('list', 'set', 'dict', 'OrderedSet', 'deque', 'tuple', 'frozenset')


def fold_setdefault_forms(fn_node: ast.AST) -> int:
    n = 0

    class T(ast.NodeTransformer):
        def visit_Call(self, node: ast.Call):
            nonlocal n
            self.generic_visit(node)
            f = node.func
            if isinstance(f, ast.Attribute) and isinstance(f.value, ast.Call) and isinstance(f.value.func, ast.Attribute) \
                    and f.value.func.attr == 'setdefault' and len(f.value.args) == 2 and _empty_ctor(f.value.args[1]) \
                    and f.attr in ('append', 'add', 'extend', 'update', 'appendleft'):
                n += 1
                node.func = ast.copy_location(ast.Attribute(value=ast.Subscript(value=f.value.func.value, slice=f.value.args[0], ctx=ast.Load()),
                                                            attr=f.attr, ctx=ast.Load()), f)
            return node

        def visit_For(self, node: ast.For):
            nonlocal n
            self.generic_visit(node)
            it = node.iter
            if isinstance(it, ast.Call) and isinstance(it.func, ast.Attribute) and it.func.attr == 'get' and len(it.args) == 2 and _empty_ctor(it.args[1]) \
                    and not it.keywords:
                n += 1
                node.iter = ast.copy_location(ast.Subscript(value=it.func.value, slice=it.args[0], ctx=ast.Load()), it)
            return node
    T().visit(fn_node)
    if n:
        ast.fix_missing_locations(fn_node)
    return n


# ----------------------------------------------------------------------------------------
# P12: a lazily filtered generator feeding one loop  ->  the guard at the top of the loop body
#      `todo = (t for t in ts if c(t))` ... `for t in todo: BODY`   ->   `for t in ts: if not c(t): continue; BODY`

_NEG_OPS = {ast.In: ast.NotIn, ast.NotIn: ast.In, ast.Is: ast.IsNot, ast.IsNot: ast.Is, ast.Eq: ast.NotEq, ast.NotEq: ast.Eq}


def _negate(e: ast.AST) -> ast.AST:
    """`not e` in its simplest spelling (`not (a not in b)` is `a in b`)."""
    if isinstance(e, ast.UnaryOp) and isinstance(e.op, ast.Not):
        return e.operand
    if isinstance(e, ast.Compare) and len(e.ops) == 1 and type(e.ops[0]) in _NEG_OPS:
        return ast.copy_location(ast.Compare(left=e.left, ops=[_NEG_OPS[type(e.ops[0])]()], comparators=e.comparators), e)
    return ast.UnaryOp(op=ast.Not(), operand=e)


def _flat_names(t: ast.AST):
    if isinstance(t, ast.Name):
        return [t.id]
    if isinstance(t, ast.Tuple) and all(isinstance(e, ast.Name) for e in t.elts):
        return [e.id for e in t.elts]
    return None


def _identity_elt(g: ast.GeneratorExp) -> bool:
    """The generator yields its own loop variable(s) unchanged: `(x for x in ...)`, `((k, v) for k, v in ...)`."""
    a, b = _flat_names(g.generators[0].target), _flat_names(g.elt)
    return a is not None and a == b


def unfold_filter_generators(fn_node: ast.AST) -> int:
    n = 0
    gens: dict[str, tuple] = {}
    for owner, fld, blk in list(_blocks(fn_node)):
        for st in blk:
            if isinstance(st, ast.Assign) and len(st.targets) == 1 and isinstance(st.targets[0], ast.Name) and isinstance(st.value, ast.GeneratorExp):
                g = st.value
                if len(g.generators) == 1 and _identity_elt(g) and not g.generators[0].is_async:
                    gens[st.targets[0].id] = (st, blk, g)
    loops = [x for x in walk_local(fn_node) if isinstance(x, ast.For)]
    for lp in loops:
        g = None
        holder = None
        if isinstance(lp.iter, ast.GeneratorExp):
            ge = lp.iter
            if len(ge.generators) == 1 and _identity_elt(ge):
                g = ge
        elif isinstance(lp.iter, ast.Name) and lp.iter.id in gens:
            name = lp.iter.id
            loads = [x for x in walk_local(fn_node) if isinstance(x, ast.Name) and x.id == name and isinstance(x.ctx, ast.Load)]
            stores = [x for x in walk_local(fn_node) if isinstance(x, ast.Name) and x.id == name and isinstance(x.ctx, ast.Store)]
            if len(loads) == 1 and len(stores) == 1:
                holder, hblk, g = gens[name]
                # the loop must follow the definition in the same block (nothing in between can observe the difference: the
                # generator is not started before the loop)
                if lp not in hblk or hblk.index(lp) < hblk.index(holder):
                    g = None
        if g is None:
            continue
        gen = g.generators[0]
        gnames = _flat_names(gen.target)
        lnames = _flat_names(lp.target)
        if gnames is None or lnames is None or len(gnames) != len(lnames):
            continue
        ren = {a: ast.Name(id=b, ctx=ast.Load()) for a, b in zip(gnames, lnames) if a != b}
        guards = []
        for c in gen.ifs:
            c2 = _Subst(ren).visit(copy.deepcopy(c)) if ren else copy.deepcopy(c)
            guard = ast.If(test=_negate(c2), body=[ast.Continue()], orelse=[])
            ast.copy_location(guard, lp)
            ast.copy_location(guard.body[0], lp)
            guards.append(guard)
        lp.iter = gen.iter
        lp.body = guards + lp.body
        if holder is not None:
            hblk.remove(holder)
        n += 1
    if n:
        ast.fix_missing_locations(fn_node)
    return n


# ----------------------------------------------------------------------------------------
# P13: `for k, v in list(D.items())[:n]: BODY`  ->  `for k in list(D.keys())[:n]: v = D[k]; BODY`
#      (D an attribute chain whose entries are not re-assigned in the function; a snapshot of the items and a snapshot of
#      the keys followed by a look-up then see the same values)

def items_loops_to_keys(fn_node: ast.AST) -> int:
    n = 0
    for lp in [x for x in walk_local(fn_node) if isinstance(x, ast.For)]:
        if not (isinstance(lp.target, ast.Tuple) and len(lp.target.elts) == 2 and all(isinstance(e, ast.Name) for e in lp.target.elts)):
            continue
        it = lp.iter
        if isinstance(it, ast.Name):
            # a snapshot held in a local that only this loop reads
            defs = [a for a in walk_local(fn_node) if isinstance(a, ast.Assign) and len(a.targets) == 1 and isinstance(a.targets[0], ast.Name)
                    and a.targets[0].id == it.id]
            loads = [x for x in walk_local(fn_node) if isinstance(x, ast.Name) and x.id == it.id and isinstance(x.ctx, ast.Load)]
            if len(defs) != 1 or len(loads) != 1:
                continue
            it = defs[0].value
        path = []
        cur = it
        sl = None
        if isinstance(cur, ast.Subscript) and isinstance(cur.slice, ast.Slice):
            sl = cur
            cur = cur.value
        wrap = None
        if isinstance(cur, ast.Call) and isinstance(cur.func, ast.Name) and cur.func.id in ('list', 'tuple') and len(cur.args) == 1 and not cur.keywords:
            wrap = cur
            cur = cur.args[0]
        if not (isinstance(cur, ast.Call) and isinstance(cur.func, ast.Attribute) and cur.func.attr == 'items' and not cur.args and not cur.keywords):
            continue
        d = cur.func.value
        if not (isinstance(d, ast.Attribute) and dotted(d) is not None) or (wrap is None and sl is None):
            continue          # only snapshots: a live items() loop is left as it is
        base = dotted(d)
        if any(isinstance(x, ast.Subscript) and isinstance(x.ctx, ast.Store) and dotted(x.value) == base for x in walk_local(fn_node)):
            continue
        k, v = lp.target.elts
        cur.func.attr = 'keys'
        lp.target = ast.copy_location(ast.Name(id=k.id, ctx=ast.Store()), lp.target)
        asg = ast.Assign(targets=[ast.Name(id=v.id, ctx=ast.Store())],
                         value=ast.Subscript(value=copy.deepcopy(d), slice=ast.Name(id=k.id, ctx=ast.Load()), ctx=ast.Load()))
        ast.copy_location(asg, lp)
        lp.body.insert(0, asg)
        n += 1
    if n:
        ast.fix_missing_locations(fn_node)
    return n


# ----------------------------------------------------------------------------------------
# P14: `with contextlib.closing(E) as it: for x in it: BODY`  ->  `for x in E: BODY`
#      (closing only makes the implicit close of an abandoned iterator explicit; the loop is the same loop)

def unwrap_closing_iterators(fn_node: ast.AST) -> int:
    n = 0
    for _owner, _fld, blk in _blocks(fn_node):
        for i, st in enumerate(list(blk)):
            if not (isinstance(st, ast.With) and len(st.items) == 1 and isinstance(st.items[0].optional_vars, ast.Name)):
                continue
            ce = st.items[0].context_expr
            if not (isinstance(ce, ast.Call) and (dotted(ce.func) or '').split('.')[-1] == 'closing' and len(ce.args) == 1 and not ce.keywords):
                continue
            name = st.items[0].optional_vars.id
            loads = [x for b in st.body for x in ast.walk(b) if isinstance(x, ast.Name) and x.id == name and isinstance(x.ctx, ast.Load)]
            fors = [x for b in st.body for x in ast.walk(b) if isinstance(x, ast.For) and x.iter in loads]
            if len(loads) != 1 or len(fors) != 1:
                continue
            fors[0].iter = ce.args[0]
            j = blk.index(st)
            blk[j:j + 1] = st.body
            n += 1
    if n:
        ast.fix_missing_locations(fn_node)
    return n


# ----------------------------------------------------------------------------------------
# P16: a new single-use intermediate is folded into the statement that consumes it
#
#     cls_name = self.serialize_class(task.__class__)
#     field_map = {f.name: ... for f in fields(task)}          ->     return {'__class__': self.serialize_class(task.__class__),
#     return {'__class__': cls_name, **field_map}                             **{f.name: ... for f in fields(task)}}
#
# (only names that do not occur in the pinned tree; bound once, read once, in the next non-intermediate statement of the same
# block; the read is evaluated unconditionally and nothing that can have an effect is evaluated before it there, so the order of
# evaluation does not change)

_PURE_BUILTINS = frozenset({'id', 'len', 'type', 'isinstance', 'set', 'frozenset', 'tuple', 'list', 'dict', 'bool', 'str', 'int', 'float', 'repr'})


def _eval_order(e: ast.AST):
    """Pre-order walk that follows evaluation order closely enough for displays, calls, operators."""
    yield e
    if isinstance(e, ast.Dict):
        for k, v in zip(e.keys, e.values):
            if k is not None:
                yield from _eval_order(k)
            yield from _eval_order(v)
        return
    if isinstance(e, (ast.ListComp, ast.SetComp, ast.GeneratorExp, ast.DictComp)):
        # the first iterable is evaluated first (and unconditionally), everything else per element
        yield from _eval_order(e.generators[0].iter)
        for c in ast.iter_child_nodes(e):
            if c is e.generators[0]:
                yield from _eval_order(e.generators[0].target)
                for i_ in e.generators[0].ifs:
                    yield from _eval_order(i_)
            else:
                yield from _eval_order(c)
        return
    for c in ast.iter_child_nodes(e):
        yield from _eval_order(c)


def fold_new_intermediates(fn_node: ast.AST) -> int:
    count = 0
    stores: dict[str, int] = {}
    loads: dict[str, int] = {}
    nested: set[str] = set()
    for n in walk_local(fn_node):
        if isinstance(n, ast.Name):
            if isinstance(n.ctx, (ast.Store, ast.Del)):
                stores[n.id] = stores.get(n.id, 0) + 1
            else:
                loads[n.id] = loads.get(n.id, 0) + 1
        if isinstance(n, (ast.FunctionDef, ast.AsyncFunctionDef, ast.Lambda)) and n is not fn_node:
            for x in ast.walk(n):
                if isinstance(x, ast.Name):
                    nested.add(x.id)
    params = {a.arg for a in fn_node.args.posonlyargs + fn_node.args.args + fn_node.args.kwonlyargs} \
        if isinstance(fn_node, (ast.FunctionDef, ast.AsyncFunctionDef)) else set()
    # `x = E` immediately followed by `return x`: the same as `return E`, whatever x is called (x is a local of this function)
    if isinstance(fn_node, (ast.FunctionDef, ast.AsyncFunctionDef)):
        declared = {nm for x in walk_local(fn_node) if isinstance(x, (ast.Global, ast.Nonlocal)) for nm in x.names}
        for owner, fld, block in list(_blocks(fn_node)):
            if len(block) >= 2 and isinstance(block[-1], ast.Return) and isinstance(block[-1].value, ast.Name):
                s = block[-2]
                t = block[-1].value.id
                val = None
                if isinstance(s, ast.Assign) and len(s.targets) == 1 and isinstance(s.targets[0], ast.Name) and s.targets[0].id == t:
                    val = s.value
                elif isinstance(s, ast.AnnAssign) and isinstance(s.target, ast.Name) and s.target.id == t and s.value is not None:
                    val = s.value
                if val is not None and t not in declared and t not in nested \
                        and not any(isinstance(x, (ast.Yield, ast.YieldFrom, ast.Await)) for x in ast.walk(val)):
                    block[-1].value = val
                    del block[-2]
                    count += 1
    changed = True
    while changed:
        changed = False
        for owner, fld, block in list(_blocks(fn_node)):
            for i in range(len(block) - 1):
                s = block[i]
                if isinstance(s, ast.Assign) and len(s.targets) == 1 and isinstance(s.targets[0], ast.Name):
                    t, val = s.targets[0].id, s.value
                elif isinstance(s, ast.AnnAssign) and isinstance(s.target, ast.Name) and s.value is not None:
                    t, val = s.target.id, s.value
                else:
                    continue
                if t in BASELINE_LOCAL_NAMES or t in params or t in nested or stores.get(t, 0) != 1 or loads.get(t, 0) != 1:
                    continue
                if any(isinstance(x, (ast.Yield, ast.YieldFrom, ast.Await, ast.NamedExpr)) for x in ast.walk(val)):
                    continue
                # the consumer is the next statement - or a later one when only effect-free local assignments lie in between (those
                # can be evaluated before or after `val` alike)
                j = i + 1
                val_names = {x.id for x in ast.walk(val) if isinstance(x, ast.Name)}
                while j < len(block) - 1:
                    m = block[j]
                    mt = m.targets[0] if (isinstance(m, ast.Assign) and len(m.targets) == 1) else (m.target if isinstance(m, ast.AnnAssign) else None)
                    mv = getattr(m, 'value', None)
                    if not (isinstance(mt, ast.Name) and mv is not None) or mt.id in val_names or mt.id == t:
                        break
                    if any(isinstance(x, ast.Name) and x.id == t for x in ast.walk(mv)):
                        break
                    if any(isinstance(x, (ast.Await, ast.Yield, ast.YieldFrom, ast.NamedExpr)) for x in ast.walk(mv)) or \
                            any(isinstance(x, ast.Call) and dotted(x.func) not in _PURE_BUILTINS for x in ast.walk(mv)):
                        break
                    j += 1
                c = block[j]
                if not isinstance(c, (ast.Return, ast.Assign, ast.AnnAssign, ast.Expr, ast.AugAssign, ast.Raise, ast.If, ast.For)):
                    continue
                if isinstance(c, (ast.If, ast.For)) and any(isinstance(x, ast.Name) and x.id == t for b_ in (c.body, c.orelse) for st_ in b_ for x in ast.walk(st_)):
                    continue
                roots = [c.test] if isinstance(c, ast.If) else [c.iter] if isinstance(c, ast.For) else \
                    [getattr(c, 'value', None)] if not isinstance(c, ast.Raise) else [c.exc]
                if isinstance(c, (ast.Assign, ast.AugAssign, ast.AnnAssign)):
                    tg = c.targets if isinstance(c, ast.Assign) else [c.target]
                    # targets are evaluated after the value for plain assignment; a subscript / attribute target reading t is left alone
                    if any(isinstance(x, ast.Name) and x.id == t for g_ in tg for x in ast.walk(g_)):
                        continue
                    if isinstance(c, ast.AugAssign):
                        continue
                root = roots[0]
                if root is None:
                    continue
                order = list(_eval_order(root))
                use = [x for x in order if isinstance(x, ast.Name) and x.id == t and isinstance(x.ctx, ast.Load)]
                if len(use) != 1:
                    continue
                u = use[0]
                ui = next(k for k, x in enumerate(order) if x is u)
                # unconditional position: not under a short-circuit operand, conditional expression arm, comprehension or lambda
                bad = False
                for x in ast.walk(root):
                    inside = any(y is u for y in ast.walk(x))
                    if not inside or x is u:
                        continue
                    if isinstance(x, (ast.Lambda, ast.ListComp, ast.SetComp, ast.DictComp, ast.GeneratorExp)):
                        first_iter = getattr(x, 'generators', [None])[0]
                        if not (first_iter is not None and any(y is u for y in ast.walk(first_iter.iter))):
                            bad = True
                    if isinstance(x, ast.BoolOp) and not any(y is u for y in ast.walk(x.values[0])):
                        bad = True
                    if isinstance(x, ast.IfExp) and not any(y is u for y in ast.walk(x.test)):
                        bad = True
                if bad:
                    continue
                # nothing with a possible effect completes before the read
                before = [x for k, x in enumerate(order) if k < ui and isinstance(x, (ast.Call, ast.Subscript, ast.Await))
                          and not any(y is u for y in ast.walk(x))]
                if before:
                    continue
                sub = _Subst({t: val})
                if isinstance(c, ast.Raise):
                    c.exc = sub.visit(c.exc)
                elif isinstance(c, ast.If):
                    c.test = sub.visit(c.test)
                elif isinstance(c, ast.For):
                    c.iter = sub.visit(c.iter)
                else:
                    c.value = sub.visit(c.value)
                del block[i]
                loads[t] = 0
                stores[t] = 0
                for x in ast.walk(val):
                    pass
                count += 1
                changed = True
                break
            if changed:
                break
    return count


# ----------------------------------------------------------------------------------------
# P17: a relay accumulator
#
#     acc = []                                       for f in fs:
#     for f in fs:                           ->          …
#         …                                              work += found
#         acc += found
#     work += acc
#
# (acc is used for nothing else; the loop neither reads nor writes `work`, so appending piecewise is the same)

def drop_relay_accumulators(fn_node: ast.AST) -> int:
    count = 0
    for owner, fld, block in list(_blocks(fn_node)):
        i = 0
        while i + 2 < len(block) + 0 and i + 2 <= len(block) - 1:
            s, lp, tail = block[i], block[i + 1], block[i + 2]
            acc = None
            if isinstance(s, ast.Assign) and len(s.targets) == 1 and isinstance(s.targets[0], ast.Name) and _empty_container(s.value) == 'list':
                acc = s.targets[0].id
            elif isinstance(s, ast.AnnAssign) and isinstance(s.target, ast.Name) and s.value is not None and _empty_container(s.value) == 'list':
                acc = s.target.id
            work = None
            if isinstance(tail, ast.AugAssign) and isinstance(tail.op, ast.Add) and isinstance(tail.target, ast.Name) \
                    and isinstance(tail.value, ast.Name):
                work, src_name = tail.target.id, tail.value.id
            elif isinstance(tail, ast.Expr) and isinstance(tail.value, ast.Call) and isinstance(tail.value.func, ast.Attribute) \
                    and tail.value.func.attr == 'extend' and isinstance(tail.value.func.value, ast.Name) and len(tail.value.args) == 1 \
                    and isinstance(tail.value.args[0], ast.Name):
                work, src_name = tail.value.func.value.id, tail.value.args[0].id
            if acc is None or work is None or src_name != acc or not isinstance(lp, ast.For) or lp.orelse or work == acc:
                i += 1
                continue
            # every use of acc: `acc += E` / `acc.extend(E)` / `acc.append(E)` statements inside the loop, plus the tail
            uses_total = sum(1 for x in walk_local(fn_node) if isinstance(x, ast.Name) and x.id == acc)
            ok_uses = 2    # the initialisation and the tail
            good = True
            for st in ast.walk(lp):
                if isinstance(st, ast.AugAssign) and isinstance(st.target, ast.Name) and st.target.id == acc and isinstance(st.op, ast.Add) \
                        and not any(isinstance(x, ast.Name) and x.id == acc for x in ast.walk(st.value)):
                    ok_uses += 1
                elif isinstance(st, ast.Expr) and isinstance(st.value, ast.Call) and isinstance(st.value.func, ast.Attribute) \
                        and st.value.func.attr in ('extend', 'append') and isinstance(st.value.func.value, ast.Name) and st.value.func.value.id == acc \
                        and not any(isinstance(x, ast.Name) and x.id == acc for a in st.value.args for x in ast.walk(a)):
                    ok_uses += 1
            if ok_uses != uses_total:
                good = False
            if any(isinstance(x, ast.Name) and x.id == work for x in ast.walk(lp)):
                good = False
            if any(isinstance(x, (ast.Break, ast.Return, ast.Raise, ast.Yield, ast.YieldFrom)) for x in ast.walk(lp)):
                good = False      # leaving the loop early would otherwise have discarded / kept different elements
            if not good:
                i += 1
                continue
            block[i + 1] = _Rename({acc: work}).visit(lp)
            del block[i + 2]
            del block[i]
            count += 1
        # next block
    return count


# ----------------------------------------------------------------------------------------
# P18: f'{f"{a}{b}"}__{c}'  ->  f'{a}{b}__{c}'   (a nested f-string without conversion or format spec is spliced in)

def flatten_nested_fstrings(fn_node: ast.AST) -> int:
    count = 0

    class F(ast.NodeTransformer):
        def visit_JoinedStr(self, node: ast.JoinedStr):
            nonlocal count
            self.generic_visit(node)
            out = []
            for v in node.values:
                if isinstance(v, ast.FormattedValue) and isinstance(v.value, ast.JoinedStr) and v.conversion == -1 and v.format_spec is None:
                    out.extend(v.value.values)
                    count += 1
                else:
                    out.append(v)
            # merge adjacent constants
            merged = []
            for v in out:
                if merged and isinstance(v, ast.Constant) and isinstance(merged[-1], ast.Constant) and isinstance(v.value, str) and isinstance(merged[-1].value, str):
                    merged[-1] = ast.copy_location(ast.Constant(value=merged[-1].value + v.value), merged[-1])
                else:
                    merged.append(v)
            node.values = merged
            return node
    F().visit(fn_node)
    return count
