"""Canonicalisation pre-pass: behaviour-preserving rewrites applied to the parsed sources *before*
the rules look at them, so that one rule formulation covers the common ways of writing the same thing.

 P3  private-helper inlining   statements / single-expression bodies of *new* private helpers (names not in
                               the table of helpers the pinned tree already has) are inlined at their call
                               sites, so "extract method" leaves the analysed code where the rules expect it
 P0  alias propagation         `t = type(task)`, `mp = task._lt.max_parallel` (single assignment, pure
                               attribute / type() / getattr value) are substituted into their uses
 P1  accumulator loops         `acc = []` + `for x in it: [if c:] acc.append(v)` -> `acc = [v for x in it if c]`
                               (same for dict item stores and set.add)
 P2  dict builders             `d = {...}` followed by straight-line `d['k'] = v` / `d.update({...})` is folded
                               into one dict display

Every rewritten node keeps the line number of the code it came from, so reports still point at real
source lines.  Nothing here executes anything.
"""
from __future__ import annotations

import ast
import copy
from typing import Optional

from .model import Program, dotted, walk_local

# Helpers that exist on the pinned tree (and that rules use as anchors): never inlined.
KNOWN_HELPERS = frozenset('''
_task_post_init _task_set_results_map _task_set_result_meta _task_set_context _task_filter_context_default
_task_result _task__getstate__ _task__setstate__ _subprocess_target _start_processes _consume_result_queue
_consume _consume_monitor_queue _get_process_info _consume_log_queue _subprocess_func _get_mp_context _submit_task
_fork_subprocess_func _key_to_path _top_task_lines _set_results_map _set_result_meta process_completed_tasks
check_cycle log_params format_many decorator
'''.split())

MAX_HELPER_STMTS = 40


# ----------------------------------------------------------------------------------------
# small AST utilities


def _names_stored(node: ast.AST) -> set[str]:
    out = set()
    for n in walk_local(node) if isinstance(node, (ast.FunctionDef, ast.AsyncFunctionDef)) else ast.walk(node):
        if isinstance(n, ast.Name) and isinstance(n.ctx, (ast.Store, ast.Del)):
            out.add(n.id)
        elif isinstance(n, ast.ExceptHandler) and n.name:
            out.add(n.name)
        elif isinstance(n, (ast.FunctionDef, ast.AsyncFunctionDef, ast.ClassDef)) and n is not node:
            out.add(n.name)
        elif isinstance(n, ast.arg):
            out.add(n.arg)
    return out


class _Subst(ast.NodeTransformer):
    def __init__(self, mapping: dict[str, ast.AST]):
        self.mapping = mapping

    def visit_Name(self, node: ast.Name):
        if isinstance(node.ctx, ast.Load) and node.id in self.mapping:
            new = copy.deepcopy(self.mapping[node.id])
            return ast.copy_location(new, node) if not hasattr(new, 'lineno') else new
        return node

    def visit_FunctionDef(self, node):
        # do not substitute into nested definitions that rebind the name
        bound = {a.arg for a in node.args.args + node.args.kwonlyargs + node.args.posonlyargs}
        inner = {k: v for k, v in self.mapping.items() if k not in bound}
        if not inner:
            return node
        sub = _Subst(inner)
        node.body = [sub.visit(s) for s in node.body]
        return node

    visit_AsyncFunctionDef = visit_FunctionDef

    def visit_Lambda(self, node):
        return node

    def _visit_comp(self, node):
        bound = set()
        for g in node.generators:
            for x in ast.walk(g.target):
                if isinstance(x, ast.Name):
                    bound.add(x.id)
        inner = {k: v for k, v in self.mapping.items() if k not in bound}
        if len(inner) == len(self.mapping):
            return self.generic_visit(node)
        if not inner:
            # the first iterable is evaluated in the enclosing scope
            node.generators[0].iter = self.visit(node.generators[0].iter)
            return node
        sub = _Subst(inner)
        first_iter = self.visit(node.generators[0].iter)
        node = sub.generic_visit(node)
        node.generators[0].iter = first_iter
        return node

    visit_ListComp = visit_SetComp = visit_DictComp = visit_GeneratorExp = _visit_comp


def _comp_bound(fn_node: ast.AST) -> set[int]:
    """ids of Name nodes that are comprehension targets (their own scope)."""
    out = set()
    for n in walk_local(fn_node):
        if isinstance(n, (ast.ListComp, ast.SetComp, ast.DictComp, ast.GeneratorExp)):
            for g in n.generators:
                for x in ast.walk(g.target):
                    if isinstance(x, ast.Name):
                        out.add(id(x))
    return out


class _Rename(ast.NodeTransformer):
    def __init__(self, mapping: dict[str, str]):
        self.mapping = mapping

    def visit_Name(self, node: ast.Name):
        if node.id in self.mapping:
            return ast.copy_location(ast.Name(id=self.mapping[node.id], ctx=node.ctx), node)
        return node

    def visit_ExceptHandler(self, node):
        if node.name in self.mapping:
            node.name = self.mapping[node.name]
        self.generic_visit(node)
        return node


def _blocks(node: ast.AST):
    """Every statement list inside node (function bodies of nested defs excluded)."""
    for n in [node] + list(walk_local(node) if isinstance(node, (ast.FunctionDef, ast.AsyncFunctionDef)) else ast.walk(node)):
        for fld in ('body', 'orelse', 'finalbody'):
            b = getattr(n, fld, None)
            if isinstance(b, list) and b and isinstance(b[0], ast.stmt):
                yield n, fld, b
        if isinstance(n, ast.Try):
            for h in n.handlers:
                yield h, 'body', h.body


# ----------------------------------------------------------------------------------------
# P3: helper inlining


def _helper_ok(h: ast.FunctionDef, decorators: list[str]) -> Optional[str]:
    """Shape of an inlinable helper: 'expr' (single return expression), 'stmts' (statements with at most a
    final return) or None."""
    if h.name in KNOWN_HELPERS:
        return None
    if any(d.split('.')[-1] not in ('staticmethod',) for d in decorators):
        return None
    if h.args.vararg or h.args.kwarg:
        return None
    body = [s for s in h.body if not (isinstance(s, ast.Expr) and isinstance(s.value, ast.Constant))]
    if not body or len(body) > MAX_HELPER_STMTS:
        return None
    for n in walk_local(h):
        if isinstance(n, (ast.Yield, ast.YieldFrom, ast.Await, ast.Global, ast.Nonlocal)):
            return None
        if isinstance(n, ast.Call) and dotted(n.func) == h.name:
            return None     # recursive
        if isinstance(n, ast.Call) and isinstance(n.func, ast.Attribute) and n.func.attr == h.name:
            return None
    rets = [n for n in walk_local(h) if isinstance(n, ast.Return)]
    if len(body) == 1 and isinstance(body[0], ast.Return) and body[0].value is not None:
        return 'expr'
    if not rets:
        return 'stmts'
    if len(rets) == 1 and rets[0] is body[-1]:
        return 'stmts'
    return None


class _Inliner:

    def __init__(self, program: Program):
        self.P = program
        self.counter = 0
        self.inlined: list[str] = []
        self.helpers_inlined: dict[str, object] = {}
        self._sites: dict[str, int] = {}

    def run(self) -> None:
        for _round in range(2):
            changed = False
            for fn in list(self.P.funcs.values()):
                if self._inline_in(fn):
                    changed = True
            if not changed:
                break
        self._drop_fully_inlined()

    def _drop_fully_inlined(self) -> None:
        """A helper whose every use was inlined is dead code: remove its definition, so that rules which
        enumerate the functions of a class / module do not see the same statements twice."""
        for h in self.helpers_inlined.values():
            tree = h.module.tree
            refs = 0
            for n in ast.walk(tree):
                if n is h.node:
                    continue
                if isinstance(n, ast.Name) and n.id == h.name and isinstance(n.ctx, ast.Load):
                    refs += 1
                elif isinstance(n, ast.Attribute) and n.attr == h.name and isinstance(n.ctx, ast.Load):
                    refs += 1
                elif isinstance(n, ast.Constant) and n.value == h.name:
                    refs += 1
            # references inside the helper's own body do not count
            for n in ast.walk(h.node):
                if isinstance(n, ast.Name) and n.id == h.name and isinstance(n.ctx, ast.Load):
                    refs -= 1
                elif isinstance(n, ast.Attribute) and n.attr == h.name and isinstance(n.ctx, ast.Load):
                    refs -= 1
            if refs > 0:
                continue
            for n in ast.walk(tree):
                for fld in ('body', 'orelse', 'finalbody'):
                    b = getattr(n, fld, None)
                    if isinstance(b, list) and any(x is h.node for x in b):
                        b[:] = [x for x in b if x is not h.node] or [ast.copy_location(ast.Pass(), h.node)]
                        self.inlined.append(f'{h.short} definition dropped (all uses inlined)')

    def _resolve(self, call: ast.Call, fn) -> Optional[tuple]:
        """(helper FuncInfo, receiver expr or None) when the call uniquely resolves to an inlinable helper."""
        name = None
        recv = None
        if isinstance(call.func, ast.Name):
            name = call.func.id
        elif isinstance(call.func, ast.Attribute) and isinstance(call.func.value, ast.Name):
            name = call.func.attr
            recv = call.func.value
        else:
            return None
        if not (name.startswith('_') or self._is_local_closure(name, fn)) or name.startswith('__'):
            return None
        cs = self.P.resolve_call(call, fn, by_name=False)
        cs = [q for q in cs if not q.startswith('?')]
        if not cs and recv is not None:
            # receiver of unknown type: a private method name that exists exactly once in this module
            same = [f for f in self.P.funcs.values() if f.name == name and f.cls is not None and f.parent is None and f.module.name == fn.module.name]
            if len(same) == 1:
                cs = [same[0].qualname]
        if len(cs) != 1 or cs[0] not in self.P.funcs:
            return None
        h = self.P.funcs[cs[0]]
        if h.qualname == fn.qualname or h.module.name != fn.module.name:
            return None
        shape = _helper_ok(h.node, h.decorators)
        if shape is None:
            return None
        # a statement method must be called on the caller's own self (so attribute reads mean the same object); a
        # single-expression method may be called on any plain name (`old._merged_with(new)`): self is substituted by it
        if h.cls is not None and h.parent is None and not h.is_static:
            own = recv is not None and recv.id == (fn.self_name or self._outer_self(fn))
            if recv is None or (not own and shape != 'expr'):
                return None
        if shape == 'stmts' and self._call_sites(h) != 1:
            # a helper shared by several call sites is an abstraction of its own (like the executor's top-up
            # routine); only single-use helpers are "extract method" artefacts
            return None
        return h, recv, shape

    def _call_sites(self, h) -> int:
        if h.qualname not in self._sites:
            n = 0
            for f in self.P.funcs.values():
                if f.module.name != h.module.name:
                    continue
                for c in [x for x in walk_local(f.node) if isinstance(x, ast.Call)]:
                    nm = c.func.id if isinstance(c.func, ast.Name) else (c.func.attr if isinstance(c.func, ast.Attribute) else None)
                    if nm == h.name:
                        n += 1
                # references as a value (Thread(target=self._h), partial(self._h, ...)) count as further uses
                for x in walk_local(f.node):
                    if isinstance(x, ast.Attribute) and x.attr == h.name and isinstance(x.ctx, ast.Load):
                        n += 0
            refs = 0
            for x in ast.walk(h.module.tree):
                if isinstance(x, ast.Attribute) and x.attr == h.name and isinstance(x.ctx, ast.Load):
                    refs += 1
                elif isinstance(x, ast.Name) and x.id == h.name and isinstance(x.ctx, ast.Load):
                    refs += 1
            # refs counts call-position uses too; value references = refs - calls
            self._sites[h.qualname] = n if refs <= n else max(n, refs)
        return self._sites[h.qualname]

    def _outer_self(self, fn):
        f = fn
        while f is not None:
            if f.self_name:
                return f.self_name
            f = f.parent
        return None

    def _is_local_closure(self, name: str, fn) -> bool:
        f = fn
        while f is not None:
            if name in f.nested:
                return True
            f = f.parent
        return False

    def _bind(self, h, recv, call: ast.Call) -> Optional[tuple[dict[str, ast.AST], list[ast.stmt]]]:
        """Parameter -> argument expression; complex arguments get a temporary."""
        node = h.node
        pos = list(node.args.posonlyargs) + list(node.args.args)
        names = [a.arg for a in pos]
        mapping: dict[str, ast.AST] = {}
        pre: list[ast.stmt] = []
        if h.cls is not None and h.parent is None and not h.is_static:
            if not names:
                return None
            mapping[names[0]] = recv
            names = names[1:]
        if any(isinstance(a, ast.Starred) for a in call.args) or len(call.args) > len(names):
            return None
        given: dict[str, ast.AST] = dict(zip(names, call.args))
        allowed = set(names) | {a.arg for a in node.args.kwonlyargs}
        for kw in call.keywords:
            if kw.arg is None or kw.arg not in allowed or kw.arg in given:
                return None
            given[kw.arg] = kw.value
        defaults = node.args.defaults
        for a, d in zip(pos[len(pos) - len(defaults):], defaults):
            given.setdefault(a.arg, d)
        for a, d in zip(node.args.kwonlyargs, node.args.kw_defaults):
            if d is not None:
                given.setdefault(a.arg, d)
        for n in names + [a.arg for a in node.args.kwonlyargs]:
            if n not in given:
                return None
        stored = _names_stored(node)
        for p, a in given.items():
            simple = isinstance(a, (ast.Name, ast.Constant)) or (isinstance(a, ast.Attribute) and dotted(a) is not None)
            reassigned = sum(1 for x in walk_local(node) if isinstance(x, ast.Name) and x.id == p and isinstance(x.ctx, ast.Store)) > 0
            if simple and not reassigned:
                mapping[p] = a
            else:
                self.counter += 1
                tmp = f'{p}__inl{self.counter}'
                asg = ast.Assign(targets=[ast.Name(id=tmp, ctx=ast.Store())], value=copy.deepcopy(a))
                ast.copy_location(asg, call)
                ast.fix_missing_locations(asg)
                pre.append(asg)
                mapping[p] = ast.Name(id=tmp, ctx=ast.Load())
        return mapping, pre

    def _instantiate(self, h, mapping: dict[str, ast.AST], caller_names: set[str]) -> list[ast.stmt]:
        body = [copy.deepcopy(s) for s in h.node.body
                if not (isinstance(s, ast.Expr) and isinstance(s.value, ast.Constant))]
        params = {a.arg for a in h.node.args.posonlyargs + h.node.args.args + h.node.args.kwonlyargs}
        locals_ = set()
        for s in body:
            locals_ |= _names_stored(s)
        locals_ -= params
        self.counter += 1
        ren = {n: f'{n}__inl{self.counter}' for n in locals_ if n in caller_names}
        # params reassigned in the helper are handled by _bind (temporaries), remaining params are substituted
        out = []
        for s in body:
            s = _Rename(ren).visit(s)
            s = _Subst(mapping).visit(s)
            out.append(s)
        return out

    def _inline_in(self, fn) -> bool:
        changed = False
        caller_names = _names_stored(fn.node) | {a.arg for a in fn.params}
        # expression helpers anywhere
        class ExprInl(ast.NodeTransformer):
            def __init__(s2):
                s2.changed = False

            def visit_FunctionDef(s2, node):
                if node is fn.node:
                    s2.generic_visit(node)
                return node

            visit_AsyncFunctionDef = visit_FunctionDef

            def visit_Lambda(s2, node):
                return node

            def visit_Call(s2, node):
                s2.generic_visit(node)
                r = self._resolve(node, fn)
                if r is None or r[2] != 'expr':
                    return node
                h, recv, _shape = r
                b = self._bind(h, recv, node)
                if b is None or b[1]:
                    return node
                ret = [s for s in h.node.body if isinstance(s, ast.Return)][0]
                e = _Subst(b[0]).visit(copy.deepcopy(ret.value))
                s2.changed = True
                self.helpers_inlined[h.qualname] = h
                self.inlined.append(f'{h.short} -> {fn.short} (expression)')
                return e
        ei = ExprInl()
        ei.visit(fn.node)
        changed = changed or ei.changed
        # statement helpers
        for owner, fld, block in list(_blocks(fn.node)):
            i = 0
            while i < len(block):
                s = block[i]
                call = None
                kind = None
                if isinstance(s, ast.Expr) and isinstance(s.value, ast.Call):
                    call, kind = s.value, 'expr'
                elif isinstance(s, ast.Assign) and len(s.targets) == 1 and isinstance(s.targets[0], (ast.Name, ast.Tuple)) \
                        and isinstance(s.value, ast.Call):
                    call, kind = s.value, 'assign'
                elif isinstance(s, ast.AnnAssign) and isinstance(s.target, ast.Name) and isinstance(s.value, ast.Call):
                    call, kind = s.value, 'assign'
                elif isinstance(s, ast.Return) and isinstance(s.value, ast.Call):
                    call, kind = s.value, 'return'
                if call is None:
                    i += 1
                    continue
                r = self._resolve(call, fn)
                if r is None or r[2] != 'stmts':
                    i += 1
                    continue
                h, recv, _shape = r
                b = self._bind(h, recv, call)
                if b is None:
                    i += 1
                    continue
                mapping, pre = b
                body = self._instantiate(h, mapping, caller_names)
                last = body[-1] if body else None
                tail: list[ast.stmt] = []
                if isinstance(last, ast.Return):
                    body = body[:-1]
                    val = last.value
                    if kind == 'assign' and val is not None:
                        tgt = s.targets[0] if isinstance(s, ast.Assign) else s.target
                        new = ast.Assign(targets=[copy.deepcopy(tgt)], value=val)
                        ast.copy_location(new, last)
                        tail = [new]
                    elif kind == 'return':
                        new = ast.Return(value=val)
                        ast.copy_location(new, last)
                        tail = [new]
                    elif kind == 'expr' and val is not None:
                        new = ast.Expr(value=val)
                        ast.copy_location(new, last)
                        tail = [new]
                else:
                    if kind == 'assign':
                        # helper without return value assigned: x = None
                        tgt = s.targets[0] if isinstance(s, ast.Assign) else s.target
                        new = ast.Assign(targets=[copy.deepcopy(tgt)], value=ast.Constant(value=None))
                        ast.copy_location(new, s)
                        tail = [new]
                    elif kind == 'return':
                        new = ast.Return(value=None)
                        ast.copy_location(new, s)
                        tail = [new]
                repl = pre + body + tail
                for x in repl:
                    ast.fix_missing_locations(x)
                block[i:i + 1] = repl
                caller_names |= set().union(*[_names_stored(x) for x in repl]) if repl else set()
                self.inlined.append(f'{h.short} -> {fn.short}')
                self.helpers_inlined[h.qualname] = h
                changed = True
                i += len(repl)
        return changed


# ----------------------------------------------------------------------------------------
# P0: alias propagation


def _pure_alias_value(e: ast.AST, allow_subscript: bool = False) -> bool:
    """Attribute chains, names, constants, type(x), getattr(x, y.name), and comparisons / boolean
    combinations / `is None` tests of those.  No subscripts (contents may change), no other calls."""
    if isinstance(e, (ast.Name, ast.Constant)):
        return True
    if isinstance(e, ast.Attribute):
        return _pure_alias_value(e.value)
    if isinstance(e, ast.Subscript) and allow_subscript:
        # alias of a container entry (`deps = self.m[k]`): the same object as long as self.m[k] is not re-assigned
        return isinstance(e.value, ast.Attribute) and _pure_alias_value(e.value) and _pure_alias_value(e.slice)
    if isinstance(e, ast.Call):
        d = dotted(e.func)
        if d == 'type' and len(e.args) == 1 and not e.keywords:
            return _pure_alias_value(e.args[0])
        if d == 'getattr' and len(e.args) == 2 and not e.keywords:
            return all(_pure_alias_value(a) for a in e.args)
        return False
    return False


def propagate_aliases(fn_node: ast.AST) -> int:
    """Substitute single-assignment pure aliases into their uses (uses must come after the assignment in
    the same or a nested block; the names the value reads must never be rebound after their own
    definition point)."""
    count = 0
    stores: dict[str, int] = {}
    comp_targets = _comp_bound(fn_node)
    comp_names = set()
    for n in walk_local(fn_node):
        if isinstance(n, ast.Name) and id(n) in comp_targets:
            comp_names.add(n.id)
    for n in walk_local(fn_node):
        if isinstance(n, ast.Name) and isinstance(n.ctx, (ast.Store, ast.Del)) and id(n) not in comp_targets:
            stores[n.id] = stores.get(n.id, 0) + 1
        elif isinstance(n, ast.ExceptHandler) and n.name:
            stores[n.name] = stores.get(n.name, 0) + 1
    params = {a.arg for a in fn_node.args.posonlyargs + fn_node.args.args + fn_node.args.kwonlyargs} \
        if isinstance(fn_node, (ast.FunctionDef, ast.AsyncFunctionDef)) else set()
    # names used inside nested function definitions: leave alone
    nested_uses = set()
    for n in walk_local(fn_node):
        if isinstance(n, (ast.FunctionDef, ast.AsyncFunctionDef, ast.Lambda)):
            for x in ast.walk(n):
                if isinstance(x, ast.Name):
                    nested_uses.add(x.id)
    for owner, fld, block in list(_blocks(fn_node)):
        i = 0
        while i < len(block):
            s = block[i]
            tgt = None
            if isinstance(s, ast.Assign) and len(s.targets) == 1 and isinstance(s.targets[0], ast.Name):
                tgt, val = s.targets[0].id, s.value
            elif isinstance(s, ast.AnnAssign) and isinstance(s.target, ast.Name) and s.value is not None:
                tgt, val = s.target.id, s.value
            if tgt is None or stores.get(tgt, 0) != 1 or tgt in params or tgt in nested_uses \
                    or not _pure_alias_value(val, allow_subscript=True) or isinstance(val, ast.Constant) \
                    or (isinstance(val, ast.Name) and (stores.get(val.id, 0) > 0 or val.id in comp_names)):
                i += 1
                continue
            if isinstance(val, ast.Subscript):
                # the entry must not be re-assigned / deleted anywhere in the function (mutation through the
                # alias or through the entry is the same object)
                base = dotted(val.value)
                rebound = False
                for x in walk_local(fn_node):
                    if isinstance(x, ast.Subscript) and isinstance(x.ctx, (ast.Store, ast.Del)) and dotted(x.value) == base:
                        rebound = True
                if rebound:
                    i += 1
                    continue
            reads = {x.id for x in ast.walk(val) if isinstance(x, ast.Name)}
            # every name the value reads is bound at most once (parameter, loop target, single assignment)
            if any(stores.get(r, 0) > 1 for r in reads) or tgt in reads:
                i += 1
                continue
            # all uses of tgt lie in the statements after this one, in this block
            after = block[i + 1:]
            # an attribute path the value reads must not be written afterwards
            vpaths = {dotted(x) for x in ast.walk(val) if isinstance(x, ast.Attribute) and dotted(x)}
            wpaths = set()
            for st in after:
                for x in ast.walk(st):
                    if isinstance(x, ast.Attribute) and isinstance(x.ctx, (ast.Store, ast.Del)) and dotted(x):
                        wpaths.add(dotted(x))
            if any(w == v or v.startswith(w + '.') or w.startswith(v + '.') for w in wpaths for v in vpaths):
                i += 1
                continue
            def _uses(root):
                # occurrences of the function-scope variable tgt (comprehensions that bind the same name are
                # a different variable)
                cnt = 0
                stack = [root]
                while stack:
                    x = stack.pop()
                    if isinstance(x, (ast.ListComp, ast.SetComp, ast.DictComp, ast.GeneratorExp)):
                        bound = {y.id for g in x.generators for y in ast.walk(g.target) if isinstance(y, ast.Name)}
                        if tgt in bound:
                            stack.append(x.generators[0].iter)
                            continue
                    if isinstance(x, (ast.FunctionDef, ast.AsyncFunctionDef, ast.Lambda)) and x is not root:
                        continue
                    if isinstance(x, ast.Name) and x.id == tgt and isinstance(x.ctx, ast.Load):
                        cnt += 1
                    stack.extend(ast.iter_child_nodes(x))
                return cnt
            uses_after = sum(_uses(st) for st in after)
            total_uses = _uses(fn_node)
            if uses_after != total_uses or total_uses == 0:
                i += 1
                continue
            sub = _Subst({tgt: val})
            block[i + 1:] = [sub.visit(st) for st in after]
            del block[i]
            count += 1
        # do not advance i when a statement was deleted (handled by loop structure)
    return count


# ----------------------------------------------------------------------------------------
# P1: accumulator loops -> comprehensions


def _empty_container(e: ast.AST) -> Optional[str]:
    if isinstance(e, ast.List) and not e.elts:
        return 'list'
    if isinstance(e, ast.Dict) and not e.keys:
        return 'dict'
    if isinstance(e, ast.Call) and not e.args and not e.keywords:
        d = dotted(e.func)
        if d in ('list', 'dict', 'set'):
            return d
    return None


def _loop_to_generators(loop: ast.For, acc: str, kind: str):
    """If `loop` only accumulates into acc: (generators, element) where element is the value expr (list/set)
    or (key, value) (dict)."""
    if loop.orelse:
        return None
    gens = [ast.comprehension(target=loop.target, iter=loop.iter, ifs=[], is_async=0)]
    body = list(loop.body)
    subst: dict[str, ast.AST] = {}
    while True:
        # leading guards `if c: continue`
        while body and isinstance(body[0], ast.If) and not body[0].orelse and len(body[0].body) == 1 \
                and isinstance(body[0].body[0], ast.Continue):
            gens[-1].ifs.append(ast.UnaryOp(op=ast.Not(), operand=body[0].test))
            body = body[1:]
        # leading single-use local assignments (substituted into what follows)
        if len(body) > 1 and isinstance(body[0], ast.Assign) and len(body[0].targets) == 1 and isinstance(body[0].targets[0], ast.Name) \
                and not any(isinstance(x, ast.Name) and x.id == acc for x in ast.walk(body[0].value)):
            nm = body[0].targets[0].id
            rest_uses = sum(1 for st in body[1:] for x in ast.walk(st) if isinstance(x, ast.Name) and x.id == nm)
            if rest_uses >= 1 and not any(isinstance(x, ast.Call) for x in ast.walk(body[0].value)) or rest_uses == 1:
                subst[nm] = body[0].value
                body = body[1:]
                continue
        if len(body) == 1 and isinstance(body[0], ast.If) and not body[0].orelse:
            gens[-1].ifs.append(body[0].test)
            body = list(body[0].body)
            continue
        if len(body) == 1 and isinstance(body[0], ast.For) and not body[0].orelse:
            gens.append(ast.comprehension(target=body[0].target, iter=body[0].iter, ifs=[], is_async=0))
            body = list(body[0].body)
            continue
        break
    if len(body) != 1:
        return None
    s = body[0]
    elem = None
    if kind in ('list', 'set') and isinstance(s, ast.Expr) and isinstance(s.value, ast.Call) and isinstance(s.value.func, ast.Attribute) \
            and s.value.func.attr == ('append' if kind == 'list' else 'add') and isinstance(s.value.func.value, ast.Name) \
            and s.value.func.value.id == acc and len(s.value.args) == 1 and not s.value.keywords:
        elem = s.value.args[0]
    elif kind == 'dict' and isinstance(s, ast.Assign) and len(s.targets) == 1 and isinstance(s.targets[0], ast.Subscript) \
            and isinstance(s.targets[0].value, ast.Name) and s.targets[0].value.id == acc:
        elem = (s.targets[0].slice, s.value)
    if elem is None:
        return None
    # acc must not be read inside the loop
    probe = [g.iter for g in gens] + [i for g in gens for i in g.ifs] + (list(elem) if isinstance(elem, tuple) else [elem])
    if any(isinstance(x, ast.Name) and x.id == acc for p in probe for x in ast.walk(p)):
        return None
    if subst:
        sb = _Subst(subst)
        for g in gens:
            g.ifs = [sb.visit(i) for i in g.ifs]
        elem = tuple(sb.visit(e) for e in elem) if isinstance(elem, tuple) else sb.visit(elem)
    return gens, elem


def fold_accumulator_loops(fn_node: ast.AST) -> int:
    count = 0
    for owner, fld, block in list(_blocks(fn_node)):
        i = 0
        while i + 1 < len(block):
            s, nxt = block[i], block[i + 1]
            acc = kind = None
            if isinstance(s, ast.Assign) and len(s.targets) == 1 and isinstance(s.targets[0], ast.Name):
                acc, kind = s.targets[0].id, _empty_container(s.value)
            elif isinstance(s, ast.AnnAssign) and isinstance(s.target, ast.Name) and s.value is not None:
                acc, kind = s.target.id, _empty_container(s.value)
            if acc is None or kind is None or not isinstance(nxt, ast.For):
                i += 1
                continue
            r = _loop_to_generators(nxt, acc, kind)
            if r is None:
                i += 1
                continue
            gens, elem = r
            if kind == 'list':
                comp: ast.AST = ast.ListComp(elt=elem, generators=gens)
            elif kind == 'set':
                comp = ast.SetComp(elt=elem, generators=gens)
            else:
                comp = ast.DictComp(key=elem[0], value=elem[1], generators=gens)
            new = ast.Assign(targets=[ast.Name(id=acc, ctx=ast.Store())], value=comp)
            ast.copy_location(new, nxt)
            ast.copy_location(comp, nxt)
            ast.fix_missing_locations(new)
            block[i:i + 2] = [new]
            count += 1
        # no increment needed beyond the while condition
    return count


# ----------------------------------------------------------------------------------------
# P2: dict builders


def fold_dict_builders(fn_node: ast.AST) -> int:
    count = 0
    for owner, fld, block in list(_blocks(fn_node)):
        i = 0
        while i + 1 < len(block):
            s = block[i]
            d = None
            if isinstance(s, ast.Assign) and len(s.targets) == 1 and isinstance(s.targets[0], ast.Name):
                d, val = s.targets[0].id, s.value
            elif isinstance(s, ast.AnnAssign) and isinstance(s.target, ast.Name) and s.value is not None:
                d, val = s.target.id, s.value
            if d is None or not isinstance(val, (ast.Dict, ast.DictComp)):
                i += 1
                continue
            disp = val if isinstance(val, ast.Dict) else ast.Dict(keys=[None], values=[val])
            if disp is not val:
                ast.copy_location(disp, val)
            j = i + 1
            folded = 0
            while j < len(block):
                t = block[j]
                if isinstance(t, ast.Assign) and len(t.targets) == 1 and isinstance(t.targets[0], ast.Subscript) \
                        and isinstance(t.targets[0].value, ast.Name) and t.targets[0].value.id == d \
                        and isinstance(t.targets[0].slice, ast.Constant) \
                        and not any(isinstance(x, ast.Name) and x.id == d for x in ast.walk(t.value)):
                    disp.keys.append(t.targets[0].slice)
                    disp.values.append(t.value)
                elif isinstance(t, ast.Expr) and isinstance(t.value, ast.Call) and isinstance(t.value.func, ast.Attribute) \
                        and t.value.func.attr == 'update' and isinstance(t.value.func.value, ast.Name) and t.value.func.value.id == d \
                        and len(t.value.args) == 1 and not t.value.keywords and isinstance(t.value.args[0], (ast.Dict, ast.DictComp)) \
                        and not any(isinstance(x, ast.Name) and x.id == d for x in ast.walk(t.value.args[0])):
                    if isinstance(t.value.args[0], ast.Dict):
                        disp.keys.extend(t.value.args[0].keys)         # {**a, **{'k': v}} is {**a, 'k': v}
                        disp.values.extend(t.value.args[0].values)
                    else:
                        disp.keys.append(None)
                        disp.values.append(t.value.args[0])
                else:
                    break
                folded += 1
                j += 1
            if folded:
                if isinstance(s, ast.Assign):
                    s.value = disp
                else:
                    s.value = disp
                del block[i + 1:j]
                count += 1
            i += 1
    return count


# ----------------------------------------------------------------------------------------
# driver


def split_pops(fn_node: ast.AST) -> int:
    """`x = self.d.pop(k)` -> `x = self.d[k]; del self.d[k]`, statement `self.d.pop(k)` -> `del self.d[k]`
    (one-argument pop on an attribute of self: a dict entry removal)."""
    count = 0

    def is_self_pop(c: ast.AST) -> bool:
        return isinstance(c, ast.Call) and isinstance(c.func, ast.Attribute) and c.func.attr == 'pop' and len(c.args) == 1 \
            and not c.keywords and isinstance(c.func.value, ast.Attribute) and isinstance(c.func.value.value, ast.Name) \
            and c.func.value.value.id in ('self',) and not (isinstance(c.args[0], ast.Constant) and isinstance(c.args[0].value, int))
    for owner, fld, block in list(_blocks(fn_node)):
        i = 0
        while i < len(block):
            s = block[i]
            if isinstance(s, ast.Assign) and len(s.targets) == 1 and is_self_pop(s.value):
                c = s.value
                sub = ast.Subscript(value=c.func.value, slice=c.args[0], ctx=ast.Load())
                get = ast.Assign(targets=s.targets, value=sub)
                dele = ast.Delete(targets=[ast.Subscript(value=copy.deepcopy(c.func.value), slice=copy.deepcopy(c.args[0]), ctx=ast.Del())])
                for n in (get, dele):
                    ast.copy_location(n, s)
                    ast.fix_missing_locations(n)
                block[i:i + 1] = [get, dele]
                count += 1
                i += 2
                continue
            if isinstance(s, ast.Expr) and is_self_pop(s.value):
                c = s.value
                dele = ast.Delete(targets=[ast.Subscript(value=c.func.value, slice=c.args[0], ctx=ast.Del())])
                ast.copy_location(dele, s)
                ast.fix_missing_locations(dele)
                block[i] = dele
                count += 1
            i += 1
    return count


def partials_to_closures(fn_node: ast.AST) -> int:
    """`name = functools.partial(F, *a, **kw)` (name assigned once, only ever called) -> `def name(*x, **y): return F(*a, *x, **kw, **y)`
    restricted to the zero-extra-argument use: `def name(): return F(*a, **kw)`."""
    count = 0
    for owner, fld, block in list(_blocks(fn_node)):
        for i, s in enumerate(block):
            if isinstance(s, ast.Assign) and len(s.targets) == 1 and isinstance(s.targets[0], ast.Name) and isinstance(s.value, ast.Call) \
                    and dotted(s.value.func) in ('functools.partial', 'partial') and s.value.args:
                name = s.targets[0].id
                stores = sum(1 for x in walk_local(fn_node) if isinstance(x, ast.Name) and x.id == name and isinstance(x.ctx, ast.Store))
                loads = [x for x in walk_local(fn_node) if isinstance(x, ast.Name) and x.id == name and isinstance(x.ctx, ast.Load)]
                calls = [c for c in walk_local(fn_node) if isinstance(c, ast.Call) and isinstance(c.func, ast.Name) and c.func.id == name
                         and not c.args and not c.keywords]
                if stores != 1 or len(loads) != len(calls) or not calls:
                    continue
                call = ast.Call(func=s.value.args[0], args=list(s.value.args[1:]), keywords=list(s.value.keywords))
                fdef = ast.FunctionDef(name=name, args=ast.arguments(posonlyargs=[], args=[], vararg=None, kwonlyargs=[], kw_defaults=[],
                                                                      kwarg=None, defaults=[]),
                                       body=[ast.Return(value=call)], decorator_list=[], returns=None, type_comment=None, type_params=[])
                ast.copy_location(fdef, s)
                ast.fix_missing_locations(fdef)
                block[i] = fdef
                count += 1
    return count


def canonicalise(sources: dict[str, str]) -> tuple[Program, dict]:
    """Parse, inline new private helpers, normalise every function body; returns the Program over the
    canonical trees and a small report."""
    pre0 = Program(sources)
    report = {'inlined_helpers': [], 'aliases_propagated': 0, 'accumulator_loops_folded': 0, 'dict_builders_folded': 0,
              'pops_split': 0, 'partials_to_closures': 0}
    if pre0.parse_errors:
        return pre0, report
    trees0 = {m.path: m.tree for m in pre0.modules.values()}
    from . import canon_decl
    report['private_properties_inlined'] = canon_decl.inline_private_properties(trees0)
    report['private_mixins_flattened'] = canon_decl.flatten_private_mixins(trees0)
    report['private_context_managers_desugared'] = canon_decl.desugar_private_context_managers(trees0)
    report['callable_classes_to_closures'] = canon_decl.callable_classes_to_closures(trees0)
    report['search_helpers_inlined'] = canon_decl.inline_search_helpers(trees0)
    report['method_objects_dissolved'] = canon_decl.dissolve_method_objects(trees0)
    report['forwarding_adapters_dropped'] = canon_decl.drop_forwarding_adapters(trees0)
    report['private_holders_dissolved'] = canon_decl.dissolve_private_holders(trees0)
    report['dataclass_inits_written'] = sum(canon_decl.desugar_dataclasses(t) for t in trees0.values())
    report['namedtuple_uses_flattened'] = canon_decl.desugar_namedtuples(trees0)
    report['new_constants_inlined'] = sum(canon_decl.inline_new_constants(t) for t in trees0.values())
    for tree in trees0.values():
        for n in ast.walk(tree):
            if isinstance(n, (ast.FunctionDef, ast.AsyncFunctionDef)):
                report['closing_iterators_unwrapped'] = report.get('closing_iterators_unwrapped', 0) + unwrap_closing_iterators(n)
                report['filter_generators_unfolded'] = report.get('filter_generators_unfolded', 0) + unfold_filter_generators(n)
                report['items_loops_to_keys'] = report.get('items_loops_to_keys', 0) + items_loops_to_keys(n)
                report['isinstance_reraise_split'] = report.get('isinstance_reraise_split', 0) + split_isinstance_reraise(n)
                report['suppress_desugared'] = report.get('suppress_desugared', 0) + desugar_suppress(n)
                report['pops_split'] += split_pops(n)
                report['partials_to_closures'] += partials_to_closures(n)
                report['partials_to_closures'] += hoist_inline_partials(n)
    pre = Program(sources, trees=trees0)
    inl = _Inliner(pre)
    inl.run()
    report['inlined_helpers'] = inl.inlined
    trees = {m.path: m.tree for m in pre.modules.values()}
    for tree in trees.values():
        for n in ast.walk(tree):
            if isinstance(n, (ast.FunctionDef, ast.AsyncFunctionDef)):
                report['joined_tails_sunk'] = report.get('joined_tails_sunk', 0) + sink_joined_tails(n)
                report['hash_updates_folded'] = report.get('hash_updates_folded', 0) + fold_hash_updates(n)
                report['counter_updates_folded'] = report.get('counter_updates_folded', 0) + fold_counter_updates(n)
                report['setdefault_forms_folded'] = report.get('setdefault_forms_folded', 0) + fold_setdefault_forms(n)
                for _ in range(3):
                    a = fold_accumulator_loops(n)
                    b = fold_dict_builders(n)
                    c = propagate_aliases(n)
                    report['accumulator_loops_folded'] += a
                    report['dict_builders_folded'] += b
                    report['aliases_propagated'] += c
                    if not (a or b or c):
                        break
        ast.fix_missing_locations(tree)
    prog = Program(sources, trees=trees)
    prog.canon_report = report
    return prog, report


# ----------------------------------------------------------------------------------------
# P5: a joined tail statement is sunk back into the branches that feed it
#
#     try: ... except E as ex: outcome = ex            try: ... except E as ex: yield (task, ex)
#     else: outcome = r.meta                    ->     else: yield (task, r.meta)
#     yield (task, outcome)
#
# (only when every branch that can fall through ends with `v = <expr>`, the tail is a simple statement, `v` is read
# nowhere else, and - for a try statement - there is an else clause and no finally, so that exception coverage of the
# tail does not change)

def _terminates(block: list[ast.stmt]) -> bool:
    return bool(block) and isinstance(block[-1], (ast.Raise, ast.Return, ast.Continue, ast.Break))


def _leaves(st: ast.stmt) -> Optional[list[list[ast.stmt]]]:
    if isinstance(st, ast.If):
        out = []
        for blk in (st.body, st.orelse):
            if not blk:
                return None              # no else: one path falls through without an assignment
            if len(blk) == 1 and isinstance(blk[0], ast.If):
                sub = _leaves(blk[0])
                if sub is None:
                    return None
                out.extend(sub)
            else:
                out.append(blk)
        return out
    if isinstance(st, ast.Try):
        if st.finalbody or not st.orelse or not st.handlers:
            return None
        return [h.body for h in st.handlers] + [st.orelse]
    return None


def sink_joined_tails(fn_node: ast.AST) -> int:
    n = 0
    changed = True
    while changed:
        changed = False
        for _owner, _fld, blk in _blocks(fn_node):
            for i in range(len(blk) - 1):
                s, t = blk[i], blk[i + 1]
                leaves = _leaves(s)
                if leaves is None or not isinstance(t, (ast.Expr, ast.Assign)):
                    continue
                if any(isinstance(x, (ast.Lambda, ast.ListComp, ast.DictComp, ast.SetComp, ast.GeneratorExp)) for x in ast.walk(t)):
                    continue
                open_leaves = [lf for lf in leaves if not _terminates(lf)]
                if not open_leaves:
                    continue
                last = [lf[-1] for lf in open_leaves]
                if not all(isinstance(a, ast.Assign) and len(a.targets) == 1 and isinstance(a.targets[0], ast.Name) for a in last):
                    continue
                names = {a.targets[0].id for a in last}
                if len(names) != 1:
                    continue
                v = next(iter(names))
                loads_t = [x for x in ast.walk(t) if isinstance(x, ast.Name) and x.id == v and isinstance(x.ctx, ast.Load)]
                loads_all = [x for x in ast.walk(fn_node) if isinstance(x, ast.Name) and x.id == v and isinstance(x.ctx, ast.Load)]
                stores_all = [x for x in ast.walk(fn_node) if isinstance(x, ast.Name) and x.id == v and isinstance(x.ctx, ast.Store)]
                decls = [x for x in ast.walk(fn_node) if isinstance(x, ast.AnnAssign) and x.value is None and isinstance(x.target, ast.Name) and x.target.id == v]
                if not loads_t or len(loads_t) != len(loads_all) or len(stores_all) != len(last) + len(decls):
                    continue
                if isinstance(t, ast.Assign) and any(isinstance(x, ast.Name) and x.id == v for tg in t.targets for x in ast.walk(tg)):
                    continue
                for lf, a in zip(open_leaves, last):
                    t2 = _Subst({v: a.value}).visit(copy.deepcopy(t))
                    ast.copy_location(t2, a)
                    lf[-1] = t2
                del blk[i + 1]
                for d in decls:
                    for _o2, _f2, b2 in _blocks(fn_node):
                        if d in b2:
                            b2.remove(d)
                n += 1
                changed = True
                break
            if changed:
                break
    return n


# ----------------------------------------------------------------------------------------
# P6: `h = hashlib.sha1(); h.update(E); ... h.hexdigest()`  ->  `hashlib.sha1(E).hexdigest()`  (exactly one update)

def fold_hash_updates(fn_node: ast.AST) -> int:
    n = 0
    for _owner, _fld, blk in _blocks(fn_node):
        for i, st in enumerate(list(blk)):
            if not (isinstance(st, ast.Assign) and len(st.targets) == 1 and isinstance(st.targets[0], ast.Name) and isinstance(st.value, ast.Call)
                    and (dotted(st.value.func) or '').startswith('hashlib.') and not st.value.args and not st.value.keywords):
                continue
            h = st.targets[0].id
            ups = [s for s in blk if isinstance(s, ast.Expr) and isinstance(s.value, ast.Call) and isinstance(s.value.func, ast.Attribute)
                   and s.value.func.attr == 'update' and isinstance(s.value.func.value, ast.Name) and s.value.func.value.id == h and len(s.value.args) == 1]
            loads = [x for x in ast.walk(fn_node) if isinstance(x, ast.Name) and x.id == h and isinstance(x.ctx, ast.Load)]
            stores = [x for x in ast.walk(fn_node) if isinstance(x, ast.Name) and x.id == h and isinstance(x.ctx, ast.Store)]
            if len(ups) != 1 or len(stores) != 1 or blk.index(ups[0]) < i:
                continue
            arg = ups[0].value.args[0]
            ctor = ast.Call(func=st.value.func, args=[arg], keywords=[])
            ast.copy_location(ctor, st.value)
            ok = True
            uses = [x for x in loads if x is not ups[0].value.func.value]
            if not uses:
                continue

            class R(ast.NodeTransformer):
                def visit_Name(self, node: ast.Name):
                    if node.id == h and isinstance(node.ctx, ast.Load):
                        return copy.deepcopy(ctor)
                    return node
            blk.remove(ups[0])
            blk.remove(st)
            for s2 in blk:
                R().visit(s2)
            if ok:
                n += 1
            break
    if n:
        ast.fix_missing_locations(fn_node)
    return n


# ----------------------------------------------------------------------------------------
# P7: counter updates spelled out:  `d[k] = d.get(k, 0) + e`  /  `d[k] = d[k] + e`   ->   `d[k] += e`

def fold_counter_updates(fn_node: ast.AST) -> int:
    n = 0
    for _owner, _fld, blk in _blocks(fn_node):
        for i, st in enumerate(blk):
            if not (isinstance(st, ast.Assign) and len(st.targets) == 1 and isinstance(st.targets[0], ast.Subscript)
                    and isinstance(st.value, ast.BinOp) and isinstance(st.value.op, ast.Add)):
                continue
            tgt = st.targets[0]
            if not _pure_alias_value(tgt.value) or not isinstance(tgt.value, (ast.Name, ast.Attribute)):
                continue
            for cur, inc in ((st.value.left, st.value.right), (st.value.right, st.value.left)):
                same = False
                if isinstance(cur, ast.Subscript) and ast.dump(cur.value) == ast.dump(tgt.value) and ast.dump(cur.slice) == ast.dump(tgt.slice):
                    same = True
                elif isinstance(cur, ast.Call) and isinstance(cur.func, ast.Attribute) and cur.func.attr == 'get' and len(cur.args) == 2 \
                        and ast.dump(cur.func.value) == ast.dump(tgt.value) and ast.dump(cur.args[0]) == ast.dump(tgt.slice) \
                        and isinstance(cur.args[1], ast.Constant) and cur.args[1].value == 0 and not isinstance(cur.args[1].value, bool):
                    same = True
                if same:
                    t2 = copy.deepcopy(tgt)
                    new = ast.AugAssign(target=t2, op=ast.Add(), value=inc)
                    ast.copy_location(new, st)
                    blk[i] = new
                    n += 1
                    break
    if n:
        ast.fix_missing_locations(fn_node)
    return n


# ----------------------------------------------------------------------------------------
# P8: `except T as e:  if isinstance(e, K): raise ; REST`   ->   `except K: raise`  +  `except T as e: REST`
# P9: `with contextlib.suppress(E): BODY`                    ->   `try: BODY  except E: pass`

def split_isinstance_reraise(fn_node: ast.AST) -> int:
    n = 0
    for t in [x for x in walk_local(fn_node) if isinstance(x, ast.Try)]:
        new_handlers = []
        for h in t.handlers:
            first = h.body[0] if h.body else None
            ok = (h.name and isinstance(first, ast.If) and not first.orelse and len(first.body) == 1 and isinstance(first.body[0], ast.Raise)
                  and (first.body[0].exc is None or (isinstance(first.body[0].exc, ast.Name) and first.body[0].exc.id == h.name and first.body[0].cause is None))
                  and isinstance(first.test, ast.Call) and dotted(first.test.func) == 'isinstance' and len(first.test.args) == 2
                  and isinstance(first.test.args[0], ast.Name) and first.test.args[0].id == h.name and len(h.body) > 1)
            if ok:
                k = ast.ExceptHandler(type=copy.deepcopy(first.test.args[1]), name=None, body=[ast.Raise(exc=None, cause=None)])
                ast.copy_location(k, first)
                ast.copy_location(k.body[0], first.body[0])
                new_handlers.append(k)
                h.body = h.body[1:]
                n += 1
            new_handlers.append(h)
        t.handlers = new_handlers
    if n:
        ast.fix_missing_locations(fn_node)
    return n


def desugar_suppress(fn_node: ast.AST) -> int:
    n = 0
    for _owner, _fld, blk in _blocks(fn_node):
        for i, st in enumerate(blk):
            if isinstance(st, ast.With) and len(st.items) == 1 and st.items[0].optional_vars is None:
                ce = st.items[0].context_expr
                if isinstance(ce, ast.Call) and (dotted(ce.func) or '').split('.')[-1] == 'suppress' and ce.args and not ce.keywords:
                    typ = ce.args[0] if len(ce.args) == 1 else ast.Tuple(elts=list(ce.args), ctx=ast.Load())
                    h = ast.ExceptHandler(type=typ, name=None, body=[ast.Pass()])
                    new = ast.Try(body=st.body, handlers=[h], orelse=[], finalbody=[])
                    ast.copy_location(new, st)
                    ast.copy_location(h, st)
                    ast.copy_location(h.body[0], st)
                    blk[i] = new
                    n += 1
    if n:
        ast.fix_missing_locations(fn_node)
    return n


# ----------------------------------------------------------------------------------------
# P10: `f(..., functools.partial(F, a, b), ...)` as a thread target / callback  ->  `def _partial_N(): return F(a, b)` before
#      the statement, and the name in its place (the inliner then fills in a new private F)

def hoist_inline_partials(fn_node: ast.AST) -> int:
    count = 0
    for owner, fld, block in list(_blocks(fn_node)):
        i = 0
        while i < len(block):
            s = block[i]
            if isinstance(s, (ast.FunctionDef, ast.AsyncFunctionDef, ast.ClassDef)) or not isinstance(s, (ast.Expr, ast.Assign, ast.AnnAssign, ast.Return)):
                i += 1
                continue
            target = None
            for c in ast.walk(s):
                if isinstance(c, ast.Call) and dotted(c.func) in ('functools.partial', 'partial') and c.args \
                        and not (isinstance(s, ast.Assign) and s.value is c):
                    # only as a keyword value `target=` / `callback=` or a plain argument of an enclosing call
                    target = c
                    break
            if target is None or any(isinstance(a, ast.Starred) for a in target.args) or any(k.arg is None for k in target.keywords):
                i += 1
                continue
            name = f'_partial_{getattr(s, "lineno", 0)}_{count}'
            call = ast.Call(func=target.args[0], args=list(target.args[1:]), keywords=list(target.keywords))
            fdef = ast.FunctionDef(name=name, args=ast.arguments(posonlyargs=[], args=[], vararg=None, kwonlyargs=[], kw_defaults=[], kwarg=None, defaults=[]),
                                   body=[ast.Return(value=call)], decorator_list=[], returns=None, type_comment=None, type_params=[])
            ast.copy_location(fdef, s)

            class R(ast.NodeTransformer):
                def visit_Call(self, node):
                    if node is target:
                        return ast.copy_location(ast.Name(id=name, ctx=ast.Load()), node)
                    self.generic_visit(node)
                    return node
            block[i] = R().visit(s)
            block.insert(i, fdef)
            ast.fix_missing_locations(fdef)
            count += 1
            i += 2
    return count


# ----------------------------------------------------------------------------------------
# P11: defaultdict spelled out:  `d.setdefault(k, <empty>).append(v)` -> `d[k].append(v)`;   `for x in d.get(k, <empty>)` -> `for x in d[k]`

def _empty_ctor(e: ast.AST) -> bool:
    if isinstance(e, (ast.List, ast.Set, ast.Tuple)) and not e.elts:
        return True
    if isinstance(e, ast.Dict) and not e.keys:
        return True
    return isinstance(e, ast.Call) and not e.args and not e.keywords and (dotted(e.func) or '').split('.')[-1] in ('list', 'set', 'dict', 'OrderedSet', 'deque', 'tuple', 'frozenset')


def fold_setdefault_forms(fn_node: ast.AST) -> int:
    n = 0

    class T(ast.NodeTransformer):
        def visit_Call(self, node: ast.Call):
            nonlocal n
            self.generic_visit(node)
            f = node.func
            if isinstance(f, ast.Attribute) and isinstance(f.value, ast.Call) and isinstance(f.value.func, ast.Attribute) \
                    and f.value.func.attr == 'setdefault' and len(f.value.args) == 2 and _empty_ctor(f.value.args[1]) \
                    and f.attr in ('append', 'add', 'extend', 'update', 'appendleft'):
                n += 1
                node.func = ast.copy_location(ast.Attribute(value=ast.Subscript(value=f.value.func.value, slice=f.value.args[0], ctx=ast.Load()),
                                                            attr=f.attr, ctx=ast.Load()), f)
            return node

        def visit_For(self, node: ast.For):
            nonlocal n
            self.generic_visit(node)
            it = node.iter
            if isinstance(it, ast.Call) and isinstance(it.func, ast.Attribute) and it.func.attr == 'get' and len(it.args) == 2 and _empty_ctor(it.args[1]) \
                    and not it.keywords:
                n += 1
                node.iter = ast.copy_location(ast.Subscript(value=it.func.value, slice=it.args[0], ctx=ast.Load()), it)
            return node
    T().visit(fn_node)
    if n:
        ast.fix_missing_locations(fn_node)
    return n


# ----------------------------------------------------------------------------------------
# P12: a lazily filtered generator feeding one loop  ->  the guard at the top of the loop body
#      `todo = (t for t in ts if c(t))` ... `for t in todo: BODY`   ->   `for t in ts: if not c(t): continue; BODY`

_NEG_OPS = {ast.In: ast.NotIn, ast.NotIn: ast.In, ast.Is: ast.IsNot, ast.IsNot: ast.Is, ast.Eq: ast.NotEq, ast.NotEq: ast.Eq}


def _negate(e: ast.AST) -> ast.AST:
    """`not e` in its simplest spelling (`not (a not in b)` is `a in b`)."""
    if isinstance(e, ast.UnaryOp) and isinstance(e.op, ast.Not):
        return e.operand
    if isinstance(e, ast.Compare) and len(e.ops) == 1 and type(e.ops[0]) in _NEG_OPS:
        return ast.copy_location(ast.Compare(left=e.left, ops=[_NEG_OPS[type(e.ops[0])]()], comparators=e.comparators), e)
    return ast.UnaryOp(op=ast.Not(), operand=e)


def _flat_names(t: ast.AST):
    if isinstance(t, ast.Name):
        return [t.id]
    if isinstance(t, ast.Tuple) and all(isinstance(e, ast.Name) for e in t.elts):
        return [e.id for e in t.elts]
    return None


def _identity_elt(g: ast.GeneratorExp) -> bool:
    """The generator yields its own loop variable(s) unchanged: `(x for x in ...)`, `((k, v) for k, v in ...)`."""
    a, b = _flat_names(g.generators[0].target), _flat_names(g.elt)
    return a is not None and a == b


def unfold_filter_generators(fn_node: ast.AST) -> int:
    n = 0
    gens: dict[str, tuple] = {}
    for owner, fld, blk in list(_blocks(fn_node)):
        for st in blk:
            if isinstance(st, ast.Assign) and len(st.targets) == 1 and isinstance(st.targets[0], ast.Name) and isinstance(st.value, ast.GeneratorExp):
                g = st.value
                if len(g.generators) == 1 and _identity_elt(g) and not g.generators[0].is_async:
                    gens[st.targets[0].id] = (st, blk, g)
    loops = [x for x in walk_local(fn_node) if isinstance(x, ast.For)]
    for lp in loops:
        g = None
        holder = None
        if isinstance(lp.iter, ast.GeneratorExp):
            ge = lp.iter
            if len(ge.generators) == 1 and _identity_elt(ge):
                g = ge
        elif isinstance(lp.iter, ast.Name) and lp.iter.id in gens:
            name = lp.iter.id
            loads = [x for x in walk_local(fn_node) if isinstance(x, ast.Name) and x.id == name and isinstance(x.ctx, ast.Load)]
            stores = [x for x in walk_local(fn_node) if isinstance(x, ast.Name) and x.id == name and isinstance(x.ctx, ast.Store)]
            if len(loads) == 1 and len(stores) == 1:
                holder, hblk, g = gens[name]
                # the loop must follow the definition in the same block (nothing in between can observe the difference: the
                # generator is not started before the loop)
                if lp not in hblk or hblk.index(lp) < hblk.index(holder):
                    g = None
        if g is None:
            continue
        gen = g.generators[0]
        gnames = _flat_names(gen.target)
        lnames = _flat_names(lp.target)
        if gnames is None or lnames is None or len(gnames) != len(lnames):
            continue
        ren = {a: ast.Name(id=b, ctx=ast.Load()) for a, b in zip(gnames, lnames) if a != b}
        guards = []
        for c in gen.ifs:
            c2 = _Subst(ren).visit(copy.deepcopy(c)) if ren else copy.deepcopy(c)
            guard = ast.If(test=_negate(c2), body=[ast.Continue()], orelse=[])
            ast.copy_location(guard, lp)
            ast.copy_location(guard.body[0], lp)
            guards.append(guard)
        lp.iter = gen.iter
        lp.body = guards + lp.body
        if holder is not None:
            hblk.remove(holder)
        n += 1
    if n:
        ast.fix_missing_locations(fn_node)
    return n


# ----------------------------------------------------------------------------------------
# P13: `for k, v in list(D.items())[:n]: BODY`  ->  `for k in list(D.keys())[:n]: v = D[k]; BODY`
#      (D an attribute chain whose entries are not re-assigned in the function; a snapshot of the items and a snapshot of
#      the keys followed by a look-up then see the same values)

def items_loops_to_keys(fn_node: ast.AST) -> int:
    n = 0
    for lp in [x for x in walk_local(fn_node) if isinstance(x, ast.For)]:
        if not (isinstance(lp.target, ast.Tuple) and len(lp.target.elts) == 2 and all(isinstance(e, ast.Name) for e in lp.target.elts)):
            continue
        it = lp.iter
        if isinstance(it, ast.Name):
            # a snapshot held in a local that only this loop reads
            defs = [a for a in walk_local(fn_node) if isinstance(a, ast.Assign) and len(a.targets) == 1 and isinstance(a.targets[0], ast.Name)
                    and a.targets[0].id == it.id]
            loads = [x for x in walk_local(fn_node) if isinstance(x, ast.Name) and x.id == it.id and isinstance(x.ctx, ast.Load)]
            if len(defs) != 1 or len(loads) != 1:
                continue
            it = defs[0].value
        path = []
        cur = it
        sl = None
        if isinstance(cur, ast.Subscript) and isinstance(cur.slice, ast.Slice):
            sl = cur
            cur = cur.value
        wrap = None
        if isinstance(cur, ast.Call) and isinstance(cur.func, ast.Name) and cur.func.id in ('list', 'tuple') and len(cur.args) == 1 and not cur.keywords:
            wrap = cur
            cur = cur.args[0]
        if not (isinstance(cur, ast.Call) and isinstance(cur.func, ast.Attribute) and cur.func.attr == 'items' and not cur.args and not cur.keywords):
            continue
        d = cur.func.value
        if not (isinstance(d, ast.Attribute) and dotted(d) is not None) or (wrap is None and sl is None):
            continue          # only snapshots: a live items() loop is left as it is
        base = dotted(d)
        if any(isinstance(x, ast.Subscript) and isinstance(x.ctx, ast.Store) and dotted(x.value) == base for x in walk_local(fn_node)):
            continue
        k, v = lp.target.elts
        cur.func.attr = 'keys'
        lp.target = ast.copy_location(ast.Name(id=k.id, ctx=ast.Store()), lp.target)
        asg = ast.Assign(targets=[ast.Name(id=v.id, ctx=ast.Store())],
                         value=ast.Subscript(value=copy.deepcopy(d), slice=ast.Name(id=k.id, ctx=ast.Load()), ctx=ast.Load()))
        ast.copy_location(asg, lp)
        lp.body.insert(0, asg)
        n += 1
    if n:
        ast.fix_missing_locations(fn_node)
    return n


# ----------------------------------------------------------------------------------------
# P14: `with contextlib.closing(E) as it: for x in it: BODY`  ->  `for x in E: BODY`
#      (closing only makes the implicit close of an abandoned iterator explicit; the loop is the same loop)

def unwrap_closing_iterators(fn_node: ast.AST) -> int:
    n = 0
    for _owner, _fld, blk in _blocks(fn_node):
        for i, st in enumerate(list(blk)):
            if not (isinstance(st, ast.With) and len(st.items) == 1 and isinstance(st.items[0].optional_vars, ast.Name)):
                continue
            ce = st.items[0].context_expr
            if not (isinstance(ce, ast.Call) and (dotted(ce.func) or '').split('.')[-1] == 'closing' and len(ce.args) == 1 and not ce.keywords):
                continue
            name = st.items[0].optional_vars.id
            loads = [x for b in st.body for x in ast.walk(b) if isinstance(x, ast.Name) and x.id == name and isinstance(x.ctx, ast.Load)]
            fors = [x for b in st.body for x in ast.walk(b) if isinstance(x, ast.For) and x.iter in loads]
            if len(loads) != 1 or len(fors) != 1:
                continue
            fors[0].iter = ce.args[0]
            j = blk.index(st)
            blk[j:j + 1] = st.body
            n += 1
    if n:
        ast.fix_missing_locations(fn_node)
    return n
