"""Variant corpus (DESIGN.md Appendix B): must-fire and must-stay-silent edits per property.

Each edit is (path, function-qualname-or-None, old text, new text[, expected occurrence count]).
"""
from .selftest import fire, silent

LAB = 'labtech/lab.py'
PROC = 'labtech/runners/process.py'
SER = 'labtech/runners/serial.py'
BASE = 'labtech/runners/base.py'
TASKS = 'labtech/tasks.py'
CACHE = 'labtech/cache.py'
STOR = 'labtech/storage.py'
SERI = 'labtech/serialization.py'
UTILS = 'labtech/utils.py'
DIAG = 'labtech/diagram.py'

# ------------------------------------------------------------------------------- C17
fire('c17-serial-return-in-release-loop', 'C17', 'C17.BATCH-ALL',
     (SER, 'SerialRunner.remove_results', 'continue', 'return'), note='regression of fix d52ec2c (D5)')
fire('c17-process-return-in-release-loop', 'C17', 'C17.BATCH-ALL',
     (PROC, 'ProcessRunner.remove_results', 'continue', 'return'), note='regression of fix d52ec2c (D5)')
fire('c17-break-in-release-loop', 'C17', 'C17.BATCH-ALL',
     (PROC, 'ProcessRunner.remove_results', 'continue', 'break'))
fire('c17-release-first-only', 'C17', 'C17.BATCH-ALL',
     (SER, 'SerialRunner.remove_results', 'for task in tasks:', 'for task in list(tasks)[:1]:'))
fire('c17-release-never-deletes', 'C17', 'C17.RELEASE-DELETES',
     (SER, 'SerialRunner.remove_results', 'del self.results_map[task]', 'pass'))
fire('c17-release-call-dropped', 'C17', 'C17.RELEASE-CALLED',
     (LAB, 'TaskCoordinator.run', 'runner.remove_results(tasks_with_removable_results)', 'pass'))
fire('c17-release-only-on-success', 'C17', 'C17.RELEASE-CALLED',
     (LAB, 'TaskCoordinator.run', '                runner.remove_results(tasks_with_removable_results)',
      '                if isinstance(res, ResultMeta):\n                    runner.remove_results(tasks_with_removable_results)'))
fire('c17-release-before-capture', 'C17', 'C17.CAPTURE-BEFORE-RELEASE',
     (LAB, 'TaskCoordinator.run',
      """                    if task in tasks:
                        task_results[task] = runner.get_result(task).value
                    tasks_with_removable_results = state.complete_task(task, result_meta=res)
""",
      """                    tasks_with_removable_results = state.complete_task(task, result_meta=res)
                    runner.remove_results(tasks_with_removable_results)
                    if task in tasks:
                        task_results[task] = runner.get_result(task).value
"""))
fire('c17-releasable-empty-set', 'C17', 'C17.RELEASABLE-SET',
     (LAB, 'TaskState.complete_task', 'tasks_with_removable_results.add(dependency)', 'pass'))
fire('c17-releasable-eq-1', 'C17', 'C17.RELEASABLE-SET',
     (LAB, 'TaskState.complete_task', 'if len(self.task_to_pending_dependents[dependency]) == 0:',
      'if len(self.task_to_pending_dependents[dependency]) == 1:'))
fire('c17-releasable-only-on-success', 'C17', 'C17.RELEASABLE-SET',
     (LAB, 'TaskState.complete_task',
      """        for dependency in self.task_to_direct_dependencies[task]:
            self.task_to_pending_dependents[dependency].remove(task)
            if len(self.task_to_pending_dependents[dependency]) == 0:
                tasks_with_removable_results.add(dependency)
""",
      """        if result_meta is not None:
            for dependency in self.task_to_direct_dependencies[task]:
                self.task_to_pending_dependents[dependency].remove(task)
                if len(self.task_to_pending_dependents[dependency]) == 0:
                    tasks_with_removable_results.add(dependency)
"""))
fire('c17-self-never-released', 'C17', 'C17.RELEASABLE-SET',
     (LAB, 'TaskState.complete_task', 'tasks_with_removable_results.add(task)', 'pass'))
fire('c17-self-always-released', 'C17', 'C17.RELEASABLE-SET',
     (LAB, 'TaskState.complete_task', 'if len(self.task_to_pending_dependents[task]) == 0:', 'if True:'))
fire('c17-dependents-removed-at-start', 'C17', 'C17.DEPENDENTS-BOOK',
     (LAB, 'TaskState.start_task', 'self.pending_tasks.remove(task)',
      'self.pending_tasks.remove(task)\n        self.task_to_pending_dependents[task].clear()'))
silent('c17-not-emptiness', 'C17',
       (LAB, 'TaskState.complete_task', 'if len(self.task_to_pending_dependents[dependency]) == 0:',
        'if not self.task_to_pending_dependents[dependency]:'))
silent('c17-nested-if-instead-of-continue', 'C17',
       (SER, 'SerialRunner.remove_results',
        """            if task not in self.results_map:
                continue
            logger.debug(f"Removing result from in-memory cache for task: '{task}'")
            del self.results_map[task]
""",
        """            if task in self.results_map:
                logger.debug(f"Removing result from in-memory cache for task: '{task}'")
                del self.results_map[task]
"""))
silent('c17-pop-with-default', 'C17',
       (PROC, 'ProcessRunner.remove_results',
        """            if task not in self.results_map:
                continue
            logger.debug(f"Removing result from in-memory cache for task: '{task}'")
            del self.results_map[task]
""",
        """            self.results_map.pop(task, None)
"""))
silent('c17-rename-locals', 'C17',
       (LAB, 'TaskState.complete_task', 'tasks_with_removable_results', 'releasable', 4),
       (LAB, 'TaskState.complete_task', 'dependency', 'dep', 0))

# ------------------------------------------------------------------------------- C18
fire('c18-filename-check-removed', 'C18', 'C18.GUARDED-FILE',
     (STOR, 'LocalStorage.file_handle', 'if file_path.parent != key_path:', 'if False:'))
fire('c18-filename-unresolved', 'C18', ['C18.GUARDED-FILE', 'C18.SINKS'],
     (STOR, 'LocalStorage.file_handle', 'file_path = (key_path / filename).resolve()', 'file_path = key_path / filename'))
fire('c18-delete-raw-key', 'C18', 'C18.SINKS',
     (STOR, 'LocalStorage.delete', 'key_path = self._key_to_path(key)', 'key_path = self._storage_path / key'))
fire('c18-exists-raw-key', 'C18', 'C18.SINKS',
     (STOR, 'LocalStorage.exists', 'key_path = self._key_to_path(key)', 'key_path = Path(self._storage_path, key)'))
fire('c18-validator-resolve-dropped', 'C18', 'C18.VALIDATOR-SHAPE',
     (STOR, 'validate_file_path_key', 'key_path = (storage_path / key).resolve()', 'key_path = (storage_path / key)'))
fire('c18-validator-dot-allowed', 'C18', 'C18.VALIDATOR-SHAPE',
     (STOR, 'validate_file_path_key', "['.', '/', '\\\\', os.path.sep, os.path.altsep]", "['/', '\\\\', os.path.sep, os.path.altsep]"))
fire('c18-validator-empty-allowed', 'C18', 'C18.VALIDATOR-SHAPE',
     (STOR, 'validate_file_path_key', 'if not key:', 'if key is None:'))
fire('c18-validator-break-after-first-char', 'C18', 'C18.VALIDATOR-SHAPE',
     (STOR, 'validate_file_path_key', "        if char is not None and char in key: # altsep can be None",
      "        if char is None:\n            break\n        if char in key:"))
fire('c18-validator-parent-check-dropped', 'C18', 'C18.VALIDATOR-SHAPE',
     (STOR, 'validate_file_path_key', 'if key_path.parent != storage_path.resolve():', 'if False:'))
fire('c18-key-to-path-skips-validation', 'C18', ['C18.KEY-TO-PATH', 'C18.SINKS'],
     (STOR, 'LocalStorage._key_to_path', 'validate_file_path_key(key, storage_path=self._storage_path)',
      "if '/' in key:\n            validate_file_path_key(key, storage_path=self._storage_path)"))
fire('c18-rmtree-root', 'C18', 'C18.SINKS',
     (STOR, 'LocalStorage.delete', 'shutil.rmtree(key_path)', 'shutil.rmtree(key_path.parent)'))
fire('c18-open-raw-filename', 'C18', 'C18.SINKS',
     (STOR, 'LocalStorage.file_handle', 'return file_path.open(mode=mode)', 'return open(filename, mode=mode)'))
silent('c18-guard-operands-swapped', 'C18',
       (STOR, 'LocalStorage.file_handle', 'if file_path.parent != key_path:', 'if not (key_path == file_path.parent):'))
silent('c18-validator-inline-key-path', 'C18',
       (STOR, 'validate_file_path_key',
        """    key_path = (storage_path / key).resolve()
    if key_path.parent != storage_path.resolve():""",
        """    if (storage_path / key).resolve().parent != storage_path.resolve():"""))
silent('c18-delete-inline', 'C18',
       (STOR, 'LocalStorage.delete',
        """        key_path = self._key_to_path(key)
        if key_path.exists():
            shutil.rmtree(key_path)""",
        """        if self._key_to_path(key).exists():
            shutil.rmtree(self._key_to_path(key))"""))
