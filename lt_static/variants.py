"""Variant corpus (DESIGN.md Appendix B): must-fire and must-stay-silent edits per property.

Each edit is (path, function-qualname-or-None, old text, new text[, expected occurrence count]).
"""
from .selftest import fire, silent

LAB = 'labtech/lab.py'
PROC = 'labtech/runners/process.py'
SER = 'labtech/runners/serial.py'
BASE = 'labtech/runners/base.py'
TASKS = 'labtech/tasks.py'
CACHE = 'labtech/cache.py'
STOR = 'labtech/storage.py'
SERI = 'labtech/serialization.py'
UTILS = 'labtech/utils.py'
DIAG = 'labtech/diagram.py'

# ------------------------------------------------------------------------------- C17
fire('c17-serial-return-in-release-loop', 'C17', 'C17.BATCH-ALL',
     (SER, 'SerialRunner.remove_results', 'continue', 'return'), note='regression of fix d52ec2c (D5)')
fire('c17-process-return-in-release-loop', 'C17', 'C17.BATCH-ALL',
     (PROC, 'ProcessRunner.remove_results', 'continue', 'return'), note='regression of fix d52ec2c (D5)')
fire('c17-break-in-release-loop', 'C17', 'C17.BATCH-ALL',
     (PROC, 'ProcessRunner.remove_results', 'continue', 'break'))
fire('c17-release-first-only', 'C17', 'C17.BATCH-ALL',
     (SER, 'SerialRunner.remove_results', 'for task in tasks:', 'for task in list(tasks)[:1]:'))
fire('c17-release-never-deletes', 'C17', 'C17.RELEASE-DELETES',
     (SER, 'SerialRunner.remove_results', 'del self.results_map[task]', 'pass'))
fire('c17-release-call-dropped', 'C17', 'C17.RELEASE-CALLED',
     (LAB, 'TaskCoordinator.run', 'runner.remove_results(tasks_with_removable_results)', 'pass'))
fire('c17-release-only-on-success', 'C17', 'C17.RELEASE-CALLED',
     (LAB, 'TaskCoordinator.run', '                runner.remove_results(tasks_with_removable_results)',
      '                if isinstance(res, ResultMeta):\n                    runner.remove_results(tasks_with_removable_results)'))
fire('c17-release-before-capture', 'C17', 'C17.CAPTURE-BEFORE-RELEASE',
     (LAB, 'TaskCoordinator.run',
      """                    if task in tasks:
                        task_results[task] = runner.get_result(task).value
                    tasks_with_removable_results = state.complete_task(task, result_meta=res)
""",
      """                    tasks_with_removable_results = state.complete_task(task, result_meta=res)
                    runner.remove_results(tasks_with_removable_results)
                    if task in tasks:
                        task_results[task] = runner.get_result(task).value
"""))
fire('c17-releasable-empty-set', 'C17', 'C17.RELEASABLE-SET',
     (LAB, 'TaskState.complete_task', 'tasks_with_removable_results.add(dependency)', 'pass'))
fire('c17-releasable-eq-1', 'C17', 'C17.RELEASABLE-SET',
     (LAB, 'TaskState.complete_task', 'if len(self.task_to_pending_dependents[dependency]) == 0:',
      'if len(self.task_to_pending_dependents[dependency]) == 1:'))
fire('c17-releasable-only-on-success', 'C17', 'C17.RELEASABLE-SET',
     (LAB, 'TaskState.complete_task',
      """        for dependency in self.task_to_direct_dependencies[task]:
            self.task_to_pending_dependents[dependency].remove(task)
            if len(self.task_to_pending_dependents[dependency]) == 0:
                tasks_with_removable_results.add(dependency)
""",
      """        if result_meta is not None:
            for dependency in self.task_to_direct_dependencies[task]:
                self.task_to_pending_dependents[dependency].remove(task)
                if len(self.task_to_pending_dependents[dependency]) == 0:
                    tasks_with_removable_results.add(dependency)
"""))
fire('c17-self-never-released', 'C17', 'C17.RELEASABLE-SET',
     (LAB, 'TaskState.complete_task', 'tasks_with_removable_results.add(task)', 'pass'))
fire('c17-self-always-released', 'C17', 'C17.RELEASABLE-SET',
     (LAB, 'TaskState.complete_task', 'if len(self.task_to_pending_dependents[task]) == 0:', 'if True:'))
fire('c17-dependents-removed-at-start', 'C17', 'C17.DEPENDENTS-BOOK',
     (LAB, 'TaskState.start_task', 'self.pending_tasks.remove(task)',
      'self.pending_tasks.remove(task)\n        self.task_to_pending_dependents[task].clear()'))
silent('c17-not-emptiness', 'C17',
       (LAB, 'TaskState.complete_task', 'if len(self.task_to_pending_dependents[dependency]) == 0:',
        'if not self.task_to_pending_dependents[dependency]:'))
silent('c17-nested-if-instead-of-continue', 'C17',
       (SER, 'SerialRunner.remove_results',
        """            if task not in self.results_map:
                continue
            logger.debug(f"Removing result from in-memory cache for task: '{task}'")
            del self.results_map[task]
""",
        """            if task in self.results_map:
                logger.debug(f"Removing result from in-memory cache for task: '{task}'")
                del self.results_map[task]
"""))
silent('c17-pop-with-default', 'C17',
       (PROC, 'ProcessRunner.remove_results',
        """            if task not in self.results_map:
                continue
            logger.debug(f"Removing result from in-memory cache for task: '{task}'")
            del self.results_map[task]
""",
        """            self.results_map.pop(task, None)
"""))
silent('c17-rename-locals', 'C17',
       (LAB, 'TaskState.complete_task', 'tasks_with_removable_results', 'releasable', 4),
       (LAB, 'TaskState.complete_task', 'dependency', 'dep', 0))

# ------------------------------------------------------------------------------- C18
fire('c18-filename-check-removed', 'C18', 'C18.GUARDED-FILE',
     (STOR, 'LocalStorage.file_handle', 'if file_path.parent != key_path:', 'if False:'))
fire('c18-filename-unresolved', 'C18', ['C18.GUARDED-FILE', 'C18.SINKS'],
     (STOR, 'LocalStorage.file_handle', 'file_path = (key_path / filename).resolve()', 'file_path = key_path / filename'))
fire('c18-delete-raw-key', 'C18', 'C18.SINKS',
     (STOR, 'LocalStorage.delete', 'key_path = self._key_to_path(key)', 'key_path = self._storage_path / key'))
fire('c18-exists-raw-key', 'C18', 'C18.SINKS',
     (STOR, 'LocalStorage.exists', 'key_path = self._key_to_path(key)', 'key_path = Path(self._storage_path, key)'))
fire('c18-validator-resolve-dropped', 'C18', 'C18.VALIDATOR-SHAPE',
     (STOR, 'validate_file_path_key', 'key_path = (storage_path / key).resolve()', 'key_path = (storage_path / key)'))
fire('c18-validator-dot-allowed', 'C18', 'C18.VALIDATOR-SHAPE',
     (STOR, 'validate_file_path_key', "['.', '/', '\\\\', os.path.sep, os.path.altsep]", "['/', '\\\\', os.path.sep, os.path.altsep]"))
fire('c18-validator-empty-allowed', 'C18', 'C18.VALIDATOR-SHAPE',
     (STOR, 'validate_file_path_key', 'if not key:', 'if key is None:'))
fire('c18-validator-break-after-first-char', 'C18', 'C18.VALIDATOR-SHAPE',
     (STOR, 'validate_file_path_key', "        if char is not None and char in key: # altsep can be None",
      "        if char is None:\n            break\n        if char in key:"))
fire('c18-validator-parent-check-dropped', 'C18', 'C18.VALIDATOR-SHAPE',
     (STOR, 'validate_file_path_key', 'if key_path.parent != storage_path.resolve():', 'if False:'))
fire('c18-key-to-path-skips-validation', 'C18', ['C18.KEY-TO-PATH', 'C18.SINKS'],
     (STOR, 'LocalStorage._key_to_path', 'validate_file_path_key(key, storage_path=self._storage_path)',
      "if '/' in key:\n            validate_file_path_key(key, storage_path=self._storage_path)"))
fire('c18-rmtree-root', 'C18', 'C18.SINKS',
     (STOR, 'LocalStorage.delete', 'shutil.rmtree(key_path)', 'shutil.rmtree(key_path.parent)'))
fire('c18-open-raw-filename', 'C18', 'C18.SINKS',
     (STOR, 'LocalStorage.file_handle', 'return file_path.open(mode=mode)', 'return open(filename, mode=mode)'))
silent('c18-guard-operands-swapped', 'C18',
       (STOR, 'LocalStorage.file_handle', 'if file_path.parent != key_path:', 'if not (key_path == file_path.parent):'))
silent('c18-validator-inline-key-path', 'C18',
       (STOR, 'validate_file_path_key',
        """    key_path = (storage_path / key).resolve()
    if key_path.parent != storage_path.resolve():""",
        """    if (storage_path / key).resolve().parent != storage_path.resolve():"""))
silent('c18-delete-inline', 'C18',
       (STOR, 'LocalStorage.delete',
        """        key_path = self._key_to_path(key)
        if key_path.exists():
            shutil.rmtree(key_path)""",
        """        if self._key_to_path(key).exists():
            shutil.rmtree(self._key_to_path(key))"""))

# ------------------------------------------------------------------------------- C01
fire('c01-iterate-results', 'C01', 'C01.ORDERKEYS',
     (LAB, 'Lab.run_tasks', 'for task in tasks if task in results}', 'for task in results}'))
fire('c01-iterate-set', 'C01', 'C01.ORDERKEYS',
     (LAB, 'Lab.run_tasks', 'for task in tasks if task in results}', 'for task in set(tasks) if task in results}'))
fire('c01-filter-by-value', 'C01', 'C01.ORDERKEYS',
     (LAB, 'Lab.run_tasks', 'if task in results}', 'if results.get(task) is not None}'))
fire('c01-capture-narrowed', 'C01', 'C01.CAPTURE',
     (LAB, 'TaskCoordinator.run', 'if task in tasks:', 'if task in tasks and res.duration is not None:'))
fire('c01-capture-wrong-task', 'C01', 'C01.CAPTURE',
     (LAB, 'TaskCoordinator.run', 'task_results[task] = runner.get_result(task).value', 'task_results[task] = runner.get_result(tasks[0]).value'))
fire('c01-other-dict-returned', 'C01', 'C01.CAPTURE',
     (LAB, 'TaskCoordinator.run', 'return task_results', 'return dict()'))
fire('c01-serial-store-wrong-key', 'C01', ['C01.RUNNER-KEYING', 'C02.RESULT-BEFORE-YIELD'],
     (SER, 'SerialRunner.wait', 'self.results_map[task] = task_result', 'self.results_map[task_submission] = task_result'))
fire('c01-future-registered-for-other-task', 'C01', 'C01.RUNNER-KEYING',
     (PROC, 'ProcessRunner.submit_task', 'self.future_to_task[future] = task', 'self.future_to_task[future] = task_name'))
fire('c01-result-read-other-key', ['C01', 'C02'], 'C02.FAILED-DEP-RAISES',
     (TASKS, '_task_result', 'return self._results_map[self].value', 'return next(iter(self._results_map.values())).value'))
fire('c01-map-not-attached', 'C01', 'C01.DEP-MAP-ATTACH',
     (SER, 'SerialRunner.wait', 'dependency_task._set_results_map(self.results_map)', 'pass'))
fire('c01-map-attached-to-first-only', 'C01', 'C01.DEP-MAP-ATTACH',
     (PROC, 'ProcessRunner._subprocess_func', 'dependency_task._set_results_map(results_map)',
      'dependency_task._set_results_map(results_map)\n                break'))
fire('c01-spawn-map-foreign', 'C01', 'C01.DEP-MAP-ATTACH',
     (PROC, 'SpawnProcessRunner._submit_task', 'dependency_task: self.results_map[dependency_task]', 'dependency_task: None'))
silent('c01-explicit-loop-instead-of-comprehension-guard', 'C01',
       (LAB, 'TaskCoordinator.run', 'if task in tasks:\n                        task_results[task] = runner.get_result(task).value',
        'task_results[task] = runner.get_result(task).value'), note='unguarded capture keeps extra entries that run_tasks drops')
silent('c01-capture-after-complete', ['C01', 'C17'],
       (LAB, 'TaskCoordinator.run',
        """                    if task in tasks:
                        task_results[task] = runner.get_result(task).value
                    tasks_with_removable_results = state.complete_task(task, result_meta=res)
""",
        """                    tasks_with_removable_results = state.complete_task(task, result_meta=res)
                    if task in tasks:
                        task_results[task] = runner.get_result(task).value
"""))

# ------------------------------------------------------------------------------- C02
fire('c02-ready-gate-dropped', 'C02', 'C02.READY-GATE',
     (LAB, 'TaskState.get_ready_tasks', 'if len(self.task_to_pending_dependencies.get(task, set())) > 0:', 'if False:'))
fire('c02-ready-gate-gt-1', 'C02', 'C02.READY-GATE',
     (LAB, 'TaskState.get_ready_tasks', 'get(task, set())) > 0:', 'get(task, set())) > 1:'))
fire('c02-dict-values-not-searched', 'C02', 'C02.DISCOVER-TABLE',
     (TASKS, 'find_tasks_in_param', 'elif isinstance(param_value, dict) or isinstance(param_value, frozendict):', 'elif isinstance(param_value, dict):'))
fire('c02-tuple-not-searched', 'C02', 'C02.DISCOVER-TABLE',
     (TASKS, 'find_tasks_in_param', 'elif isinstance(param_value, list) or isinstance(param_value, tuple):', 'elif isinstance(param_value, list):'))
fire('c02-first-field-only', 'C02', 'C02.DISCOVER-TABLE',
     (TASKS, 'get_direct_dependencies', 'for field in fields(task):', 'for field in fields(task)[:1]:'))
fire('c02-first-item-only', 'C02', 'C02.DISCOVER-TABLE',
     (TASKS, 'find_tasks_in_param', 'for item in param_value\n', 'for item in param_value[:1]\n'))
fire('c02-unblock-at-start', 'C02', 'C02.UNBLOCK-ONLY-ON-COMPLETE',
     (LAB, 'TaskState.start_task', 'self.pending_tasks.remove(task)',
      'self.pending_tasks.remove(task)\n        for dependent in self.task_to_pending_dependents[task]:\n            self.task_to_pending_dependencies[dependent].discard(task)'))
fire('c02-edge-not-registered', 'C02', 'C02.EDGES',
     (LAB, 'TaskState.insert_task', 'self.task_to_pending_dependencies[task].add(dependency)', 'pass'))
fire('c02-dependents-edge-not-registered', 'C02', ['C02.EDGES'],
     (LAB, 'TaskState.insert_task', 'self.task_to_pending_dependents[dependency].add(task)', 'pass'))
fire('c02-deps-not-reprocessed', 'C02', 'C02.EDGES',
     (LAB, 'TaskState.process_tasks', 'all_dependencies += dependency_tasks', 'pass'))
fire('c02-results-map-rebound', 'C02', 'C02.ALIAS',
     (PROC, 'ProcessRunner.remove_results', "del self.results_map[task]", "self.results_map = {t: r for t, r in self.results_map.items() if t != task}"))
fire('c02-result-default-instead-of-raise', 'C02', 'C02.FAILED-DEP-RAISES',
     (TASKS, '_task_result', """    if self not in self._results_map:
        raise TaskError(f"Result for task '{self}' is not available in memory")
    return self._results_map[self].value""",
      """    entry = self._results_map.get(self)
    return entry.value if entry is not None else None"""))
fire('c02-yield-before-run', 'C02', ['C02.YIELD-AFTER-FINISH', 'C02.RESULT-BEFORE-YIELD'],
     (SER, 'SerialRunner.wait', """        else:
            self.results_map[task] = task_result
            yield (task, task_result.meta)""",
      """        else:
            yield (task, task_result.meta)
            self.results_map[task] = task_result"""))
fire('c02-submit-not-from-ready', 'C02', 'SUBMIT-FROM-READY',
     (LAB, 'TaskCoordinator.run', 'for task in ready_tasks:', 'for task in list(state.pending_tasks):'))
silent('c02-not-emptiness', ['C02', 'C04', 'C05'],
       (LAB, 'TaskState.get_ready_tasks', 'if len(self.task_to_pending_dependencies.get(task, set())) > 0:',
        'if self.task_to_pending_dependencies.get(task, set()):'))
silent('c02-nested-if-ready', ['C02', 'C04', 'C05'],
       (LAB, 'TaskState.get_ready_tasks',
        """            if len(self.task_to_pending_dependencies.get(task, set())) > 0:
                continue
            if (task._lt.max_parallel is not None) and (task_type_counts[type(task)] >= task._lt.max_parallel):
                continue
            task_type_counts[type(task)] += 1
            ready_tasks.append(task)""",
        """            if not self.task_to_pending_dependencies[task]:
                if task._lt.max_parallel is None or task._lt.max_parallel > task_type_counts[type(task)]:
                    ready_tasks.append(task)
                    task_type_counts[type(task)] += 1"""))
silent('c02-explicit-loop-in-search', ['C02', 'C15'],
       (TASKS, 'get_direct_dependencies', 'dependency_tasks: OrderedSet[Task] = OrderedSet()', 'dependency_tasks: OrderedSet[Task] = OrderedSet()  # collected below'))

# ------------------------------------------------------------------------------- C03
fire('c03-expand-regardless-of-cache', 'C03', 'C03.NO-EXPAND-CACHED',
     (LAB, 'TaskState.process_tasks', 'if not self.coordinator.use_cache(task):', 'if True:'))
fire('c03-submit-use-cache-false', 'C03', 'C03.PREDICATE-AGREE',
     (LAB, 'TaskCoordinator.run', 'use_cache=self.use_cache(task),', 'use_cache=False,'))
fire('c03-submit-is-cached', 'C03', 'C03.PREDICATE-AGREE',
     (LAB, 'TaskCoordinator.run', 'use_cache=self.use_cache(task),', 'use_cache=self.lab.is_cached(task),'))
fire('c03-use-cache-ignores-bust', ['C03', 'C08'], 'C03.USE-CACHE-TRUTH',
     (LAB, 'TaskCoordinator.use_cache', 'return (not self.bust_cache) and self.lab.is_cached(task)', 'return self.lab.is_cached(task)'))
fire('c03-use-cache-or', ['C03', 'C08'], 'C03.USE-CACHE-TRUTH',
     (LAB, 'TaskCoordinator.use_cache', '(not self.bust_cache) and', '(not self.bust_cache) or'))
fire('c03-save-dropped', ['C03', 'C06'], 'C03.LOAD-XOR-EXEC',
     (BASE, 'run_or_load_task', 'task._lt.cache.save(storage, task, task_result)', 'pass'))
fire('c03-load-falls-through', 'C03', 'C03.LOAD-XOR-EXEC',
     (BASE, 'run_or_load_task', '            return task_result\n        else:', '        if True:'))
fire('c03-skip-by-equality', 'C03', 'C03.INSTANCES',
     (LAB, 'TaskState.process_tasks', 'if id(task) in self.processed_task_ids:', 'if task in self.pending_tasks:'))
fire('c03-mark-only-one-instance', 'C03', 'C03.INSTANCES',
     (LAB, 'TaskState.complete_task', """            for task_instance in self.task_to_instances[task]:
                task_instance._set_result_meta(result_meta)""", """            task._set_result_meta(result_meta)"""))
fire('c03-start-task-not-called', 'C03', 'C03.SUBMIT-ONCE',
     (LAB, 'TaskCoordinator.run', 'state.start_task(task)', 'pass'))
fire('c03-pending-readded-on-complete', 'C03', 'C03.SUBMIT-ONCE',
     (LAB, 'TaskState.complete_task', 'self.type_to_active_tasks[type(task)].remove(task)',
      'self.type_to_active_tasks[type(task)].remove(task)\n        if result_meta is None:\n            self.pending_tasks.add(task)'))
silent('c03-use-cache-demorgan', ['C03', 'C08'],
       (LAB, 'TaskCoordinator.use_cache', 'return (not self.bust_cache) and self.lab.is_cached(task)',
        'return not (self.bust_cache or not self.lab.is_cached(task))'))
silent('c03-use-cache-if-form', ['C03', 'C08'],
       (LAB, 'TaskCoordinator.use_cache', 'return (not self.bust_cache) and self.lab.is_cached(task)',
        'if self.bust_cache:\n            return False\n        return self.lab.is_cached(task)'))

# ------------------------------------------------------------------------------- C04 / C05
fire('c04-type-gate-gt', 'C04', 'C04.TYPE-GATE',
     (LAB, 'TaskState.get_ready_tasks', 'task_type_counts[type(task)] >= task._lt.max_parallel', 'task_type_counts[type(task)] > task._lt.max_parallel'))
fire('c04-type-gate-plus-one', 'C04', 'C04.TYPE-GATE',
     (LAB, 'TaskState.get_ready_tasks', '>= task._lt.max_parallel)', '>= task._lt.max_parallel + 1)'))
fire('c04-counter-not-incremented', 'C04', 'C04.TYPE-GATE',
     (LAB, 'TaskState.get_ready_tasks', 'task_type_counts[type(task)] += 1', 'pass'))
fire('c04-counter-not-from-active', 'C04', 'C04.TYPE-GATE',
     (LAB, 'TaskState.get_ready_tasks', 'task_type: len(active_tasks)', 'task_type: 0'))
fire('c04-worker-gate-max-1', 'C04', 'C04.WORKER-GATE',
     (PROC, 'ProcessExecutor._start_processes', 'max(0, self.max_workers - len(self._running_id_to_future_and_process))', 'max(1, self.max_workers - len(self._running_id_to_future_and_process))'))
fire('c04-worker-gate-plus-one', 'C04', 'C04.WORKER-GATE',
     (PROC, 'ProcessExecutor._start_processes', 'self.max_workers - len(self._running_id_to_future_and_process))', 'self.max_workers - len(self._running_id_to_future_and_process) + 1)'))
fire('c04-slice-removed', 'C04', 'C04.WORKER-GATE',
     (PROC, 'ProcessExecutor._start_processes', '[:start_count]', ''))
fire('c04-unclamped', 'C04', 'C04.WORKER-GATE',
     (PROC, 'ProcessExecutor._start_processes', 'start_count = max(0, self.max_workers - len(self._running_id_to_future_and_process))', 'start_count = self.max_workers - len(self._running_id_to_future_and_process)'))
fire('c04-process-started-in-submit', 'C04', 'C04.WHO-MAY-START',
     (PROC, 'ProcessExecutor.submit', 'self._start_processes()', 'multiprocessing.Process(target=fn).start()'))
fire('c04-default-twice-cpu', 'C04', 'C04.DEFAULT',
     (PROC, 'ProcessExecutor.__init__', 'os.cpu_count() if max_workers is None else max_workers', 'os.cpu_count() * 2 if max_workers is None else max_workers'))
fire('c04-serial-runs-all', 'C04', 'SERIAL-ONE',
     (SER, 'SerialRunner.wait', '        task = task_submission.task\n', '        task = task_submission.task\n        import threading\n        threading.Thread(target=print).start()\n'))
fire('c05-submit-first-only', 'C05', 'C05.SUBMIT-ALL',
     (LAB, 'TaskCoordinator.run', 'for task in ready_tasks:', 'for task in ready_tasks[:1]:'))
fire('c05-break-after-first-submit', 'C05', 'C05.SUBMIT-ALL',
     (LAB, 'TaskCoordinator.run', "                                use_cache=self.use_cache(task),\n                            )", "                                use_cache=self.use_cache(task),\n                            )\n                            break"))
fire('c05-no-topup-in-submit', 'C05', 'C05.TOPUP',
     (PROC, 'ProcessExecutor.submit', 'self._start_processes()', 'pass'))
fire('c05-no-topup-in-wait', 'C05', 'C05.TOPUP',
     (PROC, 'ProcessExecutor.wait', 'self._start_processes()', 'pass'))
fire('c05-start-at-most-one', ['C05', 'C04'], 'C04.WORKER-GATE',
     (PROC, 'ProcessExecutor._start_processes', '[:start_count]', '[:min(1, start_count)]'))
fire('c05-scan-breaks-at-first-blocked', 'C05', 'C05.SCAN-EXACT',
     (LAB, 'TaskState.get_ready_tasks', "get(task, set())) > 0:\n                continue", "get(task, set())) > 0:\n                break"))
fire('c05-serial-pop-newest', ['C05', 'C04'], 'SERIAL-ONE',
     (SER, 'SerialRunner.wait', 'self.task_submissions.popleft()', 'self.task_submissions.pop()'))
silent('c04-operands-swapped', ['C04', 'C05'],
       (LAB, 'TaskState.get_ready_tasks', 'task_type_counts[type(task)] >= task._lt.max_parallel', 'task._lt.max_parallel <= task_type_counts[type(task)]'))
silent('c04-bound-operands-swapped', ['C04', 'C05'],
       (PROC, 'ProcessExecutor._start_processes', 'max(0, self.max_workers - len(self._running_id_to_future_and_process))', 'max(-len(self._running_id_to_future_and_process) + self.max_workers, 0)'))
silent('c04-islice', ['C04', 'C05'],
       (PROC, 'ProcessExecutor._start_processes', 'futures_to_start = list(self._pending_future_to_thunk.keys())[:start_count]',
        'from itertools import islice\n        futures_to_start = list(islice(self._pending_future_to_thunk, start_count))'))
silent('c04-default-if-statement', 'C04',
       (PROC, 'ProcessExecutor.__init__', 'self.max_workers = os.cpu_count() if max_workers is None else max_workers',
        'if max_workers is None:\n            max_workers = os.cpu_count()\n        self.max_workers = max_workers'))
silent('c04-default-negated-test', 'C04',
       (PROC, 'ProcessExecutor.__init__', 'os.cpu_count() if max_workers is None else max_workers', 'max_workers if max_workers is not None else os.cpu_count()'))
silent('c05-logging-added', ['C05', 'C02', 'C03', 'C14'],
       (LAB, 'TaskCoordinator.run', '                            state.start_task(task)', "                            logger.debug(f'Starting {task}')\n                            state.start_task(task)"))

# ------------------------------------------------------------------------------- C06
fire('c06-save-result-not-called', 'C06', 'C06.SAVE-WRITES-BOTH',
     (CACHE, 'BaseCache.save', 'self.save_result(storage, task, task_result.value)', 'pass'))
fire('c06-load-other-filename', 'C06', 'C06.FILENAMES',
     (CACHE, 'PickleCache.load_result', 'self.RESULT_FILENAME', 'self.METADATA_FILENAME'))
fire('c06-key-is-qualname', ['C06', 'C08'], 'C06.KEY-PROV',
     (CACHE, 'PickleCache.save_result', 'storage.file_handle(task.cache_key,', 'storage.file_handle(type(task).__qualname__,'))
fire('c06-start-timestamp-ignored', 'C06', 'C06.META-KEYS',
     (CACHE, 'BaseCache.build_result_meta', "start = datetime.fromisoformat(metadata['start_timestamp'])", 'start = None'))
fire('c06-epoch-seconds', 'C06', 'C06.META-KEYS',
     (CACHE, 'BaseCache.save', 'start_timestamp = task_result.meta.start.isoformat()', 'start_timestamp = task_result.meta.start.timestamp()'),
     (CACHE, 'BaseCache.build_result_meta', "datetime.fromisoformat(metadata['start_timestamp'])", "datetime.fromtimestamp(metadata['start_timestamp'])"))
fire('c06-pickle-text-mode', 'C06', 'C06.CODECS',
     (CACHE, 'PickleCache.load_result', "mode='rb'", "mode='r'"))
fire('c06-is-cached-other-key', ['C06', 'C08'], ['C06.ISCACHED-CHAIN', 'C06.KEY-PROV'],
     (CACHE, 'BaseCache.is_cached', 'return storage.exists(task.cache_key)', "return storage.exists(task.cache_key.split('__')[0])"))
fire('c06-load-drops-meta', 'C06', 'C06.LOAD-META',
     (CACHE, 'BaseCache.load_result_with_meta', 'meta=self.build_result_meta(metadata),', 'meta=ResultMeta(start=None, duration=None),'))
fire('c06-metadata-sorted-keys', ['C06', 'C09', 'C07'], 'C06.CODECS',
     (CACHE, 'BaseCache.save', 'json.dump(metadata, metadata_file, indent=2)', 'json.dump(metadata, metadata_file, indent=2, sort_keys=True)'))
silent('c06-with-inline-handle', ['C06', 'C12', 'C13', 'C08'],
       (CACHE, 'BaseCache.save', """            metadata_file = storage.file_handle(task.cache_key, self.METADATA_FILENAME, mode='w')
            with metadata_file:
                json.dump(metadata, metadata_file, indent=2)""",
        """            with storage.file_handle(task.cache_key, self.METADATA_FILENAME, mode='w') as metadata_file:
                json.dump(metadata, metadata_file, indent=2)"""))
silent('c06-both-sorted-keys', ['C06', 'C07', 'C09'],
       (CACHE, 'BaseCache.save', 'json.dump(metadata, metadata_file, indent=2)', 'json.dump(metadata, metadata_file, indent=2, sort_keys=True)'),
       (CACHE, 'BaseCache.cache_key', 'json.dumps(self.serializer.serialize_task(task))', 'json.dumps(self.serializer.serialize_task(task), sort_keys=True)'),
       note='canonical order on both sides (this also repairs the C07.CANONICAL finding)')

# ------------------------------------------------------------------------------- C07
fire('c07-field-loop-sliced', 'C07', 'C07.FIELD-COVER',
     (SERI, 'Serializer.serialize_task', 'for field in fields(task):', 'for field in fields(task)[:3]:'))
fire('c07-module-dropped', 'C07', 'C07.FIELD-COVER',
     (SERI, 'Serializer.serialize_class', "return f'{cls.__module__}.{cls.__qualname__}'", "return f'{cls.__qualname__}'"))
fire('c07-nested-task-by-class-only', 'C07', 'C07.NEST-COVER',
     (SERI, 'Serializer.serialize_value', 'return self.serialize_task(value)', 'return self.serialize_class(type(value))'))
fire('c07-hash-builtin', 'C07', 'C07.NONDET-FREE',
     (CACHE, 'BaseCache.cache_key', "hashed = hashlib.sha1(serialized_str).hexdigest()", "hashed = format(hash(serialized_str) & 0xffffffff, 'x')"))
fire('c07-id-in-key', 'C07', 'C07.NONDET-FREE',
     (SERI, 'Serializer.serialize_enum', "'name': value.name,", "'name': value.name, 'ident': id(value),"))
fire('c07-context-in-key', ['C07', 'C16'], 'C07.NONDET-FREE',
     (SERI, 'Serializer.serialize_task', "'__class__': self.serialize_class(task.__class__),", "'__class__': self.serialize_class(task.__class__), 'ctx': str(task.context),"))
fire('c07-scalar-before-enum', 'C07', 'C07.ENUM-BEFORE-SCALAR',
     (SERI, 'Serializer.serialize_value', """        elif isinstance(value, Enum):
            return self.serialize_enum(value)
        elif ((value is None)""", """        elif isinstance(value, (str, int)):
            return value
        elif isinstance(value, Enum):
            return self.serialize_enum(value)
        elif ((value is None)"""))
fire('c07-prefix-with-dot', 'C07', 'C07.CHARSET',
     (CACHE, None, "KEY_PREFIX = 'pickle__'", "KEY_PREFIX = 'pickle.'"))
fire('c07-key-before-normalisation', 'C07', 'C07.KEY-ONCE',
     (TASKS, '_task_post_init', """    for f in fields(self):
        object.__setattr__(self, f.name, immutable_param_value(f.name, getattr(self, f.name)))

    object.__setattr__(self, '_is_task', True)
    object.__setattr__(self, 'cache_key', self._lt.cache.cache_key(self))""",
      """    object.__setattr__(self, '_is_task', True)
    object.__setattr__(self, 'cache_key', self._lt.cache.cache_key(self))
    for f in fields(self):
        object.__setattr__(self, f.name, immutable_param_value(f.name, getattr(self, f.name)))
"""))
fire('c07-tuple-items-filtered', 'C07', 'C07.NEST-COVER',
     (SERI, 'Serializer.serialize_value', 'return [self.serialize_value(item) for item in value]', 'return [self.serialize_value(item) for item in value if item is not None]'))
silent('c07-explicit-loop-fields', ['C07', 'C06'],
       (SERI, 'Serializer.serialize_task', """            field_value = getattr(task, field.name)
            serialized_field = self.serialize_value(field_value)
            serialized[field.name] = serialized_field""", """            serialized[field.name] = self.serialize_value(getattr(task, field.name))"""))

# ------------------------------------------------------------------------------- C08
fire('c08-uncache-returns-after-first', 'C08', 'C08.UNCACHE',
     (LAB, 'Lab.uncache_tasks', 'task._lt.cache.delete(self._storage, task)', 'task._lt.cache.delete(self._storage, task)\n                return'))
fire('c08-nullcache-writes', 'C08', ['C08.NULL-INERT', 'C08.WHO-WRITES-STORAGE'],
     (CACHE, 'NullCache.save', 'pass', "storage.file_handle('null', 'x', mode='w').close()"))
fire('c08-run-tasks-deletes', 'C08', 'C08.WHO-WRITES-STORAGE',
     (LAB, 'Lab.run_tasks', 'check_tasks(tasks)', 'check_tasks(tasks)\n        if bust_cache:\n            for task in tasks:\n                self._storage.delete(task.cache_key)'))
fire('c08-fsspec-delete-non-recursive', 'C08', 'C08.STORAGE-SIBLINGS',
     (STOR, 'FsspecStorage.delete', 'fs.rm(str(path), recursive=True)', 'fs.rm(str(path))'))
fire('c08-fsspec-exists-skips-validation', 'C08', 'C08.STORAGE-SIBLINGS',
     (STOR, 'FsspecStorage.exists', 'return fs.exists(str(self._key_to_path(key)))', 'return fs.exists(str(self._storage_path / key))'))
fire('c08-nullstorage-exists-true', 'C08', 'C08.NULL-INERT',
     (STOR, 'NullStorage.exists', 'return False', 'return True'))
fire('c08-none-storage-local', 'C08', 'C08.NULL-INERT',
     (LAB, 'Lab.__init__', 'storage = NullStorage()', "storage = LocalStorage('labtech_storage')"))
silent('c08-uncache-without-guard', 'C08',
       (LAB, 'Lab.uncache_tasks', """            if self.is_cached(task):
                task._lt.cache.delete(self._storage, task)""", """            task._lt.cache.delete(self._storage, task)"""),
       note='the storages guard deletion themselves')

# ------------------------------------------------------------------------------- C09
fire('c09-isinstance-guard-removed', 'C09', 'C09.LOAD-TASK-GUARDS',
     (CACHE, 'BaseCache.load_task', 'if not isinstance(task, task_type):', 'if False:'))
fire('c09-prefix-guard-removed', 'C09', 'C09.LOAD-TASK-GUARDS',
     (CACHE, 'BaseCache.load_metadata', "if not key.startswith(f'{self.KEY_PREFIX}{task_type.__qualname__}'):", 'if False:'))
fire('c09-cache-class-guard-removed', 'C09', 'C09.LOAD-TASK-GUARDS',
     (CACHE, 'BaseCache.load_metadata', "if metadata.get('cache') != self.__class__.__qualname__:", 'if False:'))
fire('c09-no-break', 'C09', 'C09.LOOP',
     (LAB, 'Lab.cached_tasks', '                    tasks.append(task)\n                    break', '                    tasks.append(task)'))
fire('c09-except-exception', 'C09', 'C09.LOOP',
     (LAB, 'Lab.cached_tasks', 'except TaskNotFound:', 'except Exception:'))
fire('c09-list-branch-removed', 'C09', 'C09.SER-DESER-TABLE',
     (SERI, 'Serializer.deserialize_value', """        elif isinstance(value, list):
            return [self.deserialize_value(item) for item in value]
""", ""), note='regression of fix 927b767 (D6)')
fire('c09-dict-branch-removed', 'C09', 'C09.SER-DESER-TABLE',
     (SERI, 'Serializer.deserialize_value', """        elif isinstance(value, dict):
            return {key: self.deserialize_value(item) for key, item in value.items()}
""", ""), note='regression of fix 927b767 (D6)')
fire('c09-enum-by-value', 'C09', 'C09.ROUNDTRIPS',
     (SERI, 'Serializer.deserialize_enum', "return enum_cls[serialized['name']]", "return enum_cls(serialized['name'])"))
fire('c09-prefix-template-differs', 'C09', 'C09.KEY-FORMAT-AGREE',
     (CACHE, 'BaseCache.load_metadata', "f'{self.KEY_PREFIX}{task_type.__qualname__}'", "f'{self.KEY_PREFIX}{task_type.__name__}'"))
fire('c09-result-meta-dropped', 'C09', 'C09.ROUNDTRIPS',
     (SERI, 'Serializer.deserialize_task', 'task._set_result_meta(result_meta)', 'pass'))
silent('c09-explicit-loop-in-list-branch', 'C09',
       (SERI, 'Serializer.deserialize_value', 'return [self.deserialize_value(item) for item in value]', 'return list(self.deserialize_value(item) for item in value)'))

# ------------------------------------------------------------------------------- C10
fire('c10-failure-not-completed', ['C10', 'C11'], ['C10.FAIL-BRANCH', 'C11.COMPLETE-BOTH'],
     (LAB, 'TaskCoordinator.run', 'tasks_with_removable_results = state.complete_task(task, result_meta=None)', 'tasks_with_removable_results = OrderedSet()'))
fire('c10-handle-failure-never-raises', 'C10', 'C10.HANDLE-FAILURE-TRUTH',
     (LAB, 'TaskCoordinator.handle_failure', 'if self.lab.continue_on_failure:', 'if True:'))
fire('c10-raise-without-from', 'C10', 'C10.HANDLE-FAILURE-TRUTH',
     (LAB, 'TaskCoordinator.handle_failure', 'raise lab_error from ex', 'raise lab_error'))
fire('c10-store-in-finally', 'C10', 'C10.SUCCESS-ONLY-STORES',
     (SER, 'SerialRunner.wait', """        else:
            self.results_map[task] = task_result
            yield (task, task_result.meta)""", """        else:
            yield (task, task_result.meta)
        finally:
            self.results_map[task] = None"""))
fire('c10-serial-except-exception', 'C10', 'C10.EXC-TO-FAILURE',
     (SER, 'SerialRunner.wait', 'except BaseException as ex:', 'except Exception as ex:'))
fire('c10-isinstance-exception', 'C10', 'C10.OUTCOME-TABLE',
     (LAB, 'TaskCoordinator.run', 'if isinstance(res, BaseException):', 'if isinstance(res, Exception):'), note='regression of fix 8c06307 (D17)')
fire('c10-run-tasks-unguarded-subscript', 'C10', ['C10.GUARDED-SUBSCRIPT', 'C01.ORDERKEYS'],
     (LAB, 'Lab.run_tasks', 'for task in tasks if task in results}', 'for task in tasks}'), note='regression of fix 05bcbc6 (D3)')
fire('c10-spawn-unguarded-subscript', 'C10', 'C10.GUARDED-SUBSCRIPT',
     (PROC, 'SpawnProcessRunner._submit_task', '                if dependency_task in self.results_map\n', ''), note='regression of fix b3449b7 (D4)')
fire('c10-child-ships-exception-only', 'C10', 'C10.EXC-TO-FAILURE',
     (PROC, '_subprocess_target', 'except BaseException as ex:', 'except Exception as ex:'))
fire('c10-swallow-save-failure', ['C10', 'C12'], 'C10.SUCCESS-ONLY-STORES',
     (BASE, 'run_or_load_task', '            task._lt.cache.save(storage, task, task_result)', '            try:\n                task._lt.cache.save(storage, task, task_result)\n            except Exception:\n                logger.error("could not cache")'))

# ------------------------------------------------------------------------------- C11
fire('c11-unblock-only-on-success', 'C11', 'C11.COMPLETE-BOTH',
     (LAB, 'TaskState.complete_task', """        for dependent in self.task_to_pending_dependents[task]:
            self.task_to_pending_dependencies[dependent].remove(task)""", """        if result_meta is not None:
            for dependent in self.task_to_pending_dependents[task]:
                self.task_to_pending_dependencies[dependent].remove(task)"""))
fire('c11-dead-marking-removed', ['C11', 'C10'], 'C11.DEAD-DETECT',
     (PROC, 'ProcessExecutor._consume_result_queue', 'future.set_exception(TaskDiedError())', 'pass'))
fire('c11-cancelled-not-pruned', 'C11', ['C11.PRUNE-DONE', 'C14.DEQUEUE-BEFORE-DELIVER'],
     (PROC, 'ProcessRunner.wait', """            task = self.future_to_task.pop(future)
            if future.cancelled:
                continue""", """            if future.cancelled:
                continue
            task = self.future_to_task.pop(future)"""))
fire('c11-loop-cond-pending-only', 'C11', 'C11.LOOP-COND',
     (LAB, 'TaskCoordinator.run', 'while (len(state.pending_tasks) > 0) or (runner.pending_task_count() > 0):', 'while len(state.pending_tasks) > 0:'))
fire('c11-del-without-terminal', 'C11', 'C11.FUTURE-PAIRING',
     (PROC, 'ProcessExecutor._consume_result_queue', """                if not future.done:
                    if isinstance(result_or_ex, BaseException):
                        future.set_exception(result_or_ex)
                    else:
                        future.set_result(result_or_ex)""", """                if not future.done and not isinstance(result_or_ex, BaseException):
                    future.set_result(result_or_ex)"""))
fire('c11-timeout-not-zeroed', 'C11', 'C11.DRAIN-BOUNDED',
     (PROC, 'ProcessExecutor._consume_result_queue', 'inner_timeout_seconds = 0', 'pass'))
silent('c11-loop-cond-swapped', 'C11',
       (LAB, 'TaskCoordinator.run', 'while (len(state.pending_tasks) > 0) or (runner.pending_task_count() > 0):', 'while runner.pending_task_count() != 0 or state.pending_tasks:'))

# ------------------------------------------------------------------------------- C12 / C13
fire('c12-rollback-removed', ['C12', 'C13', 'C14', 'C08'], 'C12.ROLLBACK-COVER',
     (CACHE, 'BaseCache.save', """        except BaseException:
            # Do not leave behind a partial entry that would be
            # reported as cached but cannot be loaded.
            storage.delete(task.cache_key)
            raise""", """        finally:
            pass"""), note='regression of fix 2d3377e (D7)')
fire('c12-rollback-does-not-reraise', 'C12', 'C12.ROLLBACK-COVER',
     (CACHE, 'BaseCache.save', "            storage.delete(task.cache_key)\n            raise", "            storage.delete(task.cache_key)"))
fire('c12-rollback-other-key', 'C12', ['C12.ROLLBACK-COVER', 'C06.KEY-PROV'],
     (CACHE, 'BaseCache.save', "            storage.delete(task.cache_key)\n            raise", "            storage.delete(self.KEY_PREFIX)\n            raise"))
fire('c12-rollback-except-exception', ['C12', 'C13', 'C14'], 'C12.ROLLBACK-COVER',
     (CACHE, 'BaseCache.save', 'except BaseException:', 'except Exception:'))
silent('c12-rollback-bare-except', ['C12', 'C13'],
       (CACHE, 'BaseCache.save', 'except BaseException:', 'except:'))

# ------------------------------------------------------------------------------- C14
fire('c14-return-instead-of-raise', 'C14', 'C14.HANDLER',
     (LAB, 'TaskCoordinator.run', 'raise first_keyboard_interrupt', 'return task_results'))
fire('c14-cancel-dropped', 'C14', 'C14.HANDLER',
     (LAB, 'TaskCoordinator.run', 'runner.cancel()', 'pass'))
fire('c14-stop-dropped', 'C14', 'C14.HANDLER',
     (LAB, 'TaskCoordinator.run', 'runner.stop()', 'pass'))
fire('c14-serial-ki-reraise-removed', 'C14', 'C14.KI-TRANSPARENT',
     (SER, 'SerialRunner.wait', "        except KeyboardInterrupt:\n            raise\n", ""))
fire('c14-sigign-removed', 'C14', 'C14.SIGINT-IGNORED-FIRST',
     (PROC, 'ProcessRunner._subprocess_func', 'signal.signal(signal.SIGINT, signal.SIG_IGN)', 'pass'))
fire('c14-sigign-after-first-put', 'C14', 'C14.SIGINT-IGNORED-FIRST',
     (PROC, 'ProcessRunner._subprocess_func', '        signal.signal(signal.SIGINT, signal.SIG_IGN)\n', ''),
     (PROC, 'ProcessRunner._subprocess_func', '            for dependency_task in get_direct_dependency_instances(task):', '            signal.signal(signal.SIGINT, signal.SIG_IGN)\n            for dependency_task in get_direct_dependency_instances(task):'))
fire('c14-prune-after-yield', ['C14', 'C11'], 'C14.DEQUEUE-BEFORE-DELIVER',
     (PROC, 'ProcessRunner.wait', 'task = self.future_to_task.pop(future)', 'task = self.future_to_task[future]'), note='regression of fix 411fa3a (D10)')
fire('c14-consume-on-calling-thread', 'C14', 'C14.QUEUE-IN-THREAD',
     (PROC, 'ProcessExecutor._consume_result_queue', """        consumer_thread = Thread(target=_consume)
        consumer_thread.start()
        consumer_thread.join()""", """        _consume()"""))
fire('c14-close-not-in-finally', 'C14', 'C14.FINALLY-CLEANUP',
     (LAB, 'TaskCoordinator.run', '                runner.close()\n', ''))
fire('c14-stop-leaves-entries', 'C14', 'C14.CANCEL-STOP-COMPLETE',
     (PROC, 'ProcessExecutor.stop', 'del self._running_id_to_future_and_process[future.id]', 'pass'))
silent('c14-handler-logging', 'C14',
       (LAB, 'TaskCoordinator.run', "logger.info('Terminating running tasks.')", "logger.warning('Terminating running tasks now.')"))

# ------------------------------------------------------------------------------- C15
fire('c15-enum-not-accepted', 'C15', 'C15.TYPE-TABLES',
     (TASKS, None, 'ParamScalar: TypeAlias = None | str | bool | float | int | Enum', 'ParamScalar: TypeAlias = None | str | bool | float | int'))
fire('c15-tuple-without-recursion', 'C15', 'C15.NORMALISE-ALL-PATHS',
     (TASKS, 'immutable_param_value', "return tuple(immutable_param_value(f'{key}[{i}]', item) for i, item in enumerate(value))", 'return tuple(value)'))
fire('c15-not-frozen', 'C15', 'C15.DATACLASS-ARGS',
     (TASKS, 'task', 'dataclass(frozen=True, eq=True, order=True)', 'dataclass(frozen=False, eq=True, order=True)'))
fire('c15-getstate-ships-context', ['C15', 'C16'], 'C15.STATE-CLEAN',
     (TASKS, '_task__getstate__', "'_results_map': None,", "'_results_map': None, 'context': self.context,"))
fire('c15-getstate-ships-results-map', 'C15', 'C15.STATE-CLEAN',
     (TASKS, '_task__getstate__', "'_results_map': None,", "'_results_map': self._results_map,"))
fire('c15-setstate-forgets-context', 'C15', 'C15.INIT-AGREE',
     (TASKS, '_task__setstate__', "    object.__setattr__(self, 'context', None)\n", ''), note='regression of fix a0def58 (D16)')
fire('c15-setstate-no-post-init', 'C15', 'C15.INIT-AGREE',
     (TASKS, '_task__setstate__', "    if self._lt.orig_post_init is not None:\n        self._lt.orig_post_init(self)\n", ''), note='regression of fix a0def58 (D16)')
fire('c15-unreserved-runtime-attr', 'C15', 'C15.RESERVED-AGREE',
     (TASKS, '_task_post_init', "object.__setattr__(self, 'result_meta', None)", "object.__setattr__(self, 'result_meta', None)\n    object.__setattr__(self, 'started_at', None)"))
fire('c15-setstate-not-normalising', 'C15', 'C15.SETSTATE-NORMALISES',
     (TASKS, '_task__setstate__', 'value = immutable_param_value(key, value) if key in field_set else value', 'value = value'))
fire('c15-mlflow-forgets-enum', 'C15', 'C15.TYPE-TABLES',
     (BASE, 'optional_mlflow', "        elif isinstance(value, Enum):\n            mlflow.log_param(path, f'{type(value).__qualname__}.{value.name}')\n", ''))
silent('c15-isinstance-tuple-form', ['C15', 'C02'],
       (TASKS, 'immutable_param_value', 'if isinstance(value, list) or isinstance(value, tuple):', 'if isinstance(value, (list, tuple)):'))

# ------------------------------------------------------------------------------- C16
fire('c16-bare-multiprocessing-process', 'C16', 'C16.VIA-CONTEXT',
     (PROC, 'ProcessExecutor._start_processes', 'self.mp_context.Process(', 'multiprocessing.Process('), note='regression of fix e66e1d0 (D1)')
fire('c16-spawn-uses-fork-context', 'C16', 'C16.START-METHOD-TABLE',
     (PROC, 'SpawnProcessRunner._get_mp_context', "multiprocessing.get_context('spawn')", "multiprocessing.get_context('fork')"))
fire('c16-serial-unfiltered-context', 'C16', 'C16.FILTER-PROV',
     (SER, 'SerialRunner.wait', 'filtered_context=task.filter_context(self.context),', 'filtered_context=self.context,'))
fire('c16-set-context-dropped', 'C16', 'C16.FILTER-PROV',
     (BASE, 'run_or_load_task', 'task.set_context(filtered_context)', 'pass'))
fire('c16-spawn-name-maps-to-fork-backend', 'C16', 'C16.START-METHOD-TABLE',
     (LAB, 'Lab.__init__', "            elif runner_backend == 'spawn':\n                runner_backend = SpawnRunnerBackend()", "            elif runner_backend == 'spawn':\n                runner_backend = ForkRunnerBackend()"))
fire('c16-fork-memory-dropped-early', 'C16', 'C16.FORK-MEMORY',
     (PROC, 'ForkProcessRunner._submit_task', '        return executor.submit(', '        _RUNNER_FORK_MEMORY.pop(self.uuid, None)\n        return executor.submit('))
fire('c16-child-gets-other-thunk', 'C16', 'C16.ONE-PROCESS-PER-TASK',
     (PROC, 'ProcessExecutor._start_processes', 'thunk = self._pending_future_to_thunk[future]', 'thunk = next(iter(self._pending_future_to_thunk.values()))'))

# ------------------------------------------------------------------------------- C19
fire('c19-no-drain-after-wait', 'C19', 'C19.DRAIN-AFTER-WAIT',
     (PROC, 'ProcessRunner.wait', '        # Deliver the records logged by the tasks that have just finished.\n        self._consume_log_queue()\n', ''), note='regression of fix efc9d97 (D2a)')
fire('c19-no-flush', 'C19', 'C19.FLUSH-BEFORE-RETURN',
     (PROC, 'ProcessRunner._subprocess_func', '            sys.stdout.flush()\n            sys.stderr.flush()\n', ''), note='regression of fix d3f27d7 (D2b)')
fire('c19-buffer-not-cleared', 'C19', 'C19.EMIT-THEN-CLEAR',
     (UTILS, 'LoggerFileProxy.flush', '            self.bufs = []\n', ''), note='regression of fix 5fe8270 (D2c)')
fire('c19-handlers-not-reset', 'C19', 'C19.WORKER-LOG-SETUP',
     (PROC, 'ProcessRunner._subprocess_func', 'logger.handlers = []', 'pass'))
fire('c19-drain-one-record', 'C19', 'C19.CONSUME-ALL',
     (PROC, 'ProcessRunner._consume_log_queue', 'while True:', 'for _ in range(1):'))
fire('c19-other-queue', 'C19', 'C19.SAME-QUEUE',
     (PROC, 'ProcessRunner.submit_task', 'log_queue=self.log_queue,', 'log_queue=self.process_event_queue,'))
silent('c19-buffer-clear-method', 'C19',
       (UTILS, 'LoggerFileProxy.flush', 'self.bufs = []', 'self.bufs.clear()'))

# ------------------------------------------------------------------------------- C20
fire('c20-subtasks-not-enqueued', 'C20', 'C20.WORKLIST-CLOSURE',
     (DIAG, 'TaskStructure.build', 'found_tasks += sub_tasks', 'pass'))
fire('c20-merge-with-and', 'C20', 'C20.CARDINALITY',
     (DIAG, 'TaskStructure.add_relationship', 'old_info.multi_cardinality or info.multi_cardinality', 'old_info.multi_cardinality and info.multi_cardinality'))
fire('c20-cardinality-inverted', 'C20', 'C20.REL-ALL',
     (DIAG, 'TaskStructure.build', 'multi_cardinality=(not is_task(param_value)),', 'multi_cardinality=is_task(param_value),'))
fire('c20-first-field-only', 'C20', 'C20.WORKLIST-CLOSURE',
     (DIAG, 'TaskStructure.build', 'for field in fields(task):', 'for field in fields(task)[:1]:'))
fire('c20-wrong-to-type', 'C20', 'C20.REL-ALL',
     (DIAG, 'TaskStructure.build', 'to_task_type=type(sub_task),', 'to_task_type=type(task),'))
fire('c20-set-iteration', 'C20', 'C20.NONDET-FREE',
     (DIAG, 'diagram_task_structure', 'for task_type in task_structure.task_type_to_rels.keys()', 'for task_type in set(task_structure.task_type_to_rels.keys())'))
fire('c20-fields-from-annotations', 'C20', 'C20.ONE-BLOCK',
     (DIAG, 'diagram_task_type', 'for field in fields(task_type)\n            if field', 'for field in fields(task_type)\n            if field.name in task_type.__annotations__'))
silent('c20-extend-instead-of-iadd', 'C20',
       (DIAG, 'TaskStructure.build', 'found_tasks += sub_tasks', 'found_tasks.extend(sub_tasks)'))

# ------------------------------------------------------------------------------- support / config flow
fire('cfg-bust-cache-not-passed', ['C08', 'C03'], 'SUPPORT.CONFIG-FLOW',
     (LAB, 'Lab.run_tasks', 'bust_cache=bust_cache,', 'bust_cache=False,'))
fire('cfg-storage-context-swapped', ['C16', 'C06'], ['SUPPORT.ARG-NAME-AGREE', 'SUPPORT.CONFIG-FLOW'],
     (LAB, 'TaskCoordinator.run', 'context=self.lab.context,', 'context=self.lab._storage,'))
fire('cfg-max-parallel-from-mlflow', ['C04', 'C15'], ['SUPPORT.ARG-NAME-AGREE', 'SUPPORT.CONFIG-FLOW'],
     (TASKS, 'task', 'max_parallel=max_parallel,', 'max_parallel=mlflow_run,'))
fire('cfg-continue-on-failure-not-stored', 'C10', 'SUPPORT.CONFIG-FLOW',
     (LAB, 'Lab.__init__', 'self.continue_on_failure = continue_on_failure', 'self.continue_on_failure = True'))
fire('cfg-class-level-queue', ['C03', 'C11'], 'SUPPORT.STATE-PER-INSTANCE',
     (PROC, None, 'class ProcessExecutor:\n', 'class ProcessExecutor:\n    _pending_future_to_thunk: dict = {}\n'))
fire('cfg-orderedset-remove-ignores-missing', ['C03', 'C04'], 'SUPPORT.ORDEREDSET',
     (UTILS, 'OrderedSet.remove', 'del self.values[item]', 'self.values.pop(next(iter(self.values)), None)'))
fire('cfg-future-done-excludes-cancelled', ['C11', 'C14'], 'SUPPORT.FUTURE-CLASS',
     (PROC, 'Future.done', 'return self._state in {FutureState.FINISHED, FutureState.CANCELLED}', 'return self._state == FutureState.FINISHED'))
fire('cfg-is-task-any-class-instance', ['C15', 'C02'], 'SUPPORT.IS-TASK',
     (None if False else 'labtech/types.py', 'is_task', "return is_task_type(type(obj)) and hasattr(obj, '_is_task')", "return hasattr(obj, '_is_task')"))
fire('cfg-proxy-filter-search', 'C19', 'SUPPORT.PROXY-FILTER',
     (UTILS, 'LoggerFileProxy.write', 'self.whitespace_only_re.fullmatch(buf)', 'self.whitespace_only_re.match(buf)'))
fire('cfg-wait-blocks-forever', 'C11', 'C11.WAIT-TIMEOUT',
     (LAB, 'TaskCoordinator.run', 'runner.wait(timeout_seconds=0.5)', 'runner.wait(timeout_seconds=None)'))
fire('cfg-root-not-resolved', ['C18', 'C08'], 'C18.ROOT-RESOLVED',
     (STOR, 'LocalStorage.__init__', 'self._storage_path = storage_dir.resolve()', 'self._storage_path = storage_dir'))
fire('cfg-cache-memo', ['C06', 'C08'], 'C06.CACHE-STATELESS',
     (CACHE, 'BaseCache.load_metadata', '        return metadata\n', '        self._last_metadata = metadata\n        return metadata\n'))
fire('cfg-metadata-built-after-visible', 'C13', 'C13.PREPARE-BEFORE-VISIBLE',
     (CACHE, 'BaseCache.save', "                json.dump(metadata, metadata_file, indent=2)", "                json.dump({**metadata, 'task': self.serializer.serialize_task(task)}, metadata_file, indent=2)"))
fire('cfg-result-put-under-other-id', ['C01', 'C10'], 'SUPPORT.QUEUE-ROUTING',
     (PROC, '_subprocess_target', 'result_queue.put((future_id, result))', 'result_queue.put((0, result))'))


# -- regression of fix 64e3d00: the attach loop must enumerate every dependency instance ------------------------------
fire('c01-attach-through-merged-set', ['C01', 'C02'], 'C01.DEP-MAP-ATTACH',
     (PROC, 'ProcessRunner._subprocess_func', 'for dependency_task in get_direct_dependency_instances(task):', 'for dependency_task in get_direct_dependencies(task):'),
     note='regression of fix 64e3d00: P(a=C(1), b=C(1)) - the second, equal instance never receives the results map')
fire('c01-attach-through-merged-set-serial', ['C01', 'C02'], 'C01.DEP-MAP-ATTACH',
     ('labtech/runners/serial.py', 'SerialRunner.wait', 'for dependency_task in get_direct_dependency_instances(task):', 'for dependency_task in OrderedSet(get_direct_dependency_instances(task)):'))
fire('c01-instances-deduplicated', ['C01', 'C02'], 'C01.DEP-MAP-ATTACH',
     ('labtech/tasks.py', 'get_direct_dependency_instances', """    return [
        dependency_task
        for field in fields(task)
        for dependency_task in find_tasks_in_param(getattr(task, field.name))
    ]""", """    return list(OrderedSet(
        dependency_task
        for field in fields(task)
        for dependency_task in find_tasks_in_param(getattr(task, field.name))
    ))"""))
silent('c01-instances-accumulator-form', ['C01', 'C02'],
       ('labtech/tasks.py', 'get_direct_dependency_instances', """    return [
        dependency_task
        for field in fields(task)
        for dependency_task in find_tasks_in_param(getattr(task, field.name))
    ]""", """    found = []
    for field in fields(task):
        for dependency_task in find_tasks_in_param(getattr(task, field.name)):
            found.append(dependency_task)
    return found"""))


# -- sweeps (rules/sweeps.py) ------------------------------------------------------------------------------------------
LAB = 'labtech/lab.py'
fire('sweep-loop-fresh-hoisted-init', ['C05', 'C03', 'C01'], 'SWEEP.LOOP-FRESH',
     (LAB, 'TaskState.process_tasks', "            dependency_tasks: OrderedSet[Task] = OrderedSet()\n", ''),
     (LAB, 'TaskState.process_tasks', "        for task in tasks:\n", "        dependency_tasks: OrderedSet[Task] = OrderedSet()\n        for task in tasks:\n"))
silent('sweep-loop-fresh-if-else', ['C05', 'C03', 'C01'],
       (LAB, 'TaskState.process_tasks', """            dependency_tasks: OrderedSet[Task] = OrderedSet()
            if not self.coordinator.use_cache(task):
                dependency_tasks = get_direct_dependencies(task)
""", """            if not self.coordinator.use_cache(task):
                dependency_tasks = get_direct_dependencies(task)
            else:
                dependency_tasks = OrderedSet()
"""))
silent('sweep-loop-fresh-carried-flag', ['C05', 'C03', 'C01'],
       (LAB, 'TaskState.process_tasks', "        for task in tasks:\n", "        first = True\n        for task in tasks:\n            if first:\n                logger.debug('processing tasks')\n            first = False\n"),
       note='a loop-carried flag that does not derive from the element is not a stale per-element value')
silent('sweep-loop-fresh-previous-element', ['C05', 'C03', 'C01'],
       (LAB, 'TaskState.process_tasks', "        for task in tasks:\n", "        previous = None\n        for task in tasks:\n            if previous is not None and previous is task:\n                logger.debug('same task twice in a row')\n            previous = task\n"),
       note='remembering the previous element on purpose: read before the in-iteration definition')
fire('sweep-mutate-while-iterating', ['C10', 'C11'], 'SWEEP.NO-MUTATE-WHILE-ITERATING',
     (PROC, 'ProcessMonitor._get_process_info', "        except psutil.NoSuchProcess:\n            return None", "        except psutil.NoSuchProcess:\n            del self.active_process_events[start_event.task_name]\n            return None"))
silent('sweep-mutate-snapshot', ['C10', 'C11'],
       (PROC, 'ProcessMonitor._get_process_info', "        except psutil.NoSuchProcess:\n            return None", "        except psutil.NoSuchProcess:\n            del self.active_process_events[start_event.task_name]\n            return None"),
       (PROC, 'ProcessMonitor.get_process_infos', "for start_event in self.active_process_events.values():", "for start_event in list(self.active_process_events.values()):"),
       note='iterating a snapshot while removing stale entries is fine')
fire('sweep-super-forward-dropped', ['C04', 'C05'], 'SWEEP.SUPER-FORWARD',
     (PROC, 'SpawnProcessRunner.__init__', "super().__init__(context=context, storage=storage, max_workers=max_workers)", "super().__init__(context=context, storage=storage, max_workers=None)"))
fire('sweep-default-mutable', ['C16', 'C01'], 'SWEEP.DEFAULTS-PER-CALL',
     (PROC, 'ProcessRunner.__init__', "def __init__(self, *, context: LabContext, storage: Storage, max_workers: Optional[int]):", "def __init__(self, *, context: LabContext, storage: Storage, max_workers: Optional[int], results_map: dict = {}):"))
silent('sweep-default-none-sentinel', ['C16', 'C01'],
       (PROC, 'ProcessRunner.__init__', "def __init__(self, *, context: LabContext, storage: Storage, max_workers: Optional[int]):", "def __init__(self, *, context: LabContext, storage: Storage, max_workers: Optional[int], label: Optional[str] = None):"))
fire('sweep-optional-truthiness', ['C04', 'C05'], 'SWEEP.OPTIONAL-BY-IDENTITY',
     (PROC, 'ProcessExecutor.__init__', "self.max_workers = os.cpu_count() if max_workers is None else max_workers", "self.max_workers = max_workers if max_workers else os.cpu_count()"),
     note='max_workers=0 would silently mean "all cores"')
fire('sweep-handler-reads-unbound', ['C12', 'C06', 'C13'], 'SWEEP.HANDLER-READS-BOUND',
     ('labtech/cache.py', 'BaseCache.save', "            storage.delete(task.cache_key)\n            raise", "            metadata_file.close()\n            storage.delete(task.cache_key)\n            raise"))
silent('sweep-handler-reads-bound-before-try', ['C12', 'C06', 'C13'],
       ('labtech/cache.py', 'BaseCache.save', "        try:\n            metadata_file = storage.file_handle", "        key = task.cache_key\n        try:\n            metadata_file = storage.file_handle"),
       ('labtech/cache.py', 'BaseCache.save', "            storage.delete(task.cache_key)\n            raise", "            storage.delete(key)\n            raise"))
fire('sweep-return-in-finally', ['C12', 'C10', 'C01'], 'SWEEP.NO-JUMP-IN-FINALLY',
     ('labtech/runners/base.py', 'run_or_load_task', "    finally:\n        current_process.name = orig_process_name", "    finally:\n        current_process.name = orig_process_name\n        if use_cache:\n            return task_result"))
fire('c13-daemon-attribute', ['C13'], 'C13.WORKER-NOT-DAEMON',
     (PROC, 'ProcessExecutor._start_processes', "            process.start()", "            process.daemon = True\n            process.start()"))
fire('c05-blocking-monitor-poll', ['C05', 'C11'], 'C05.POLLS-NONBLOCKING',
     (PROC, 'ProcessMonitor._consume_monitor_queue', "self.process_event_queue.get_nowait()", "self.process_event_queue.get(timeout=0.1)"))
silent('c05-nonblocking-get-false', ['C05', 'C11'],
       (PROC, 'ProcessMonitor._consume_monitor_queue', "self.process_event_queue.get_nowait()", "self.process_event_queue.get(block=False)"))
fire('c11-bounded-result-queue', ['C11'], 'C11.QUEUES-UNBOUNDED',
     (PROC, 'ProcessExecutor.__init__', "multiprocessing.Manager().Queue(-1)", "multiprocessing.Manager().Queue(64)"))
silent('c11-unbounded-default-queue', ['C11'],
       (PROC, 'ProcessExecutor.__init__', "multiprocessing.Manager().Queue(-1)", "multiprocessing.Manager().Queue()"))
fire('c11-monitor-terminates', ['C11', 'C10'], 'C11.WHO-MAY-REAP',
     (PROC, 'ProcessMonitor._get_process_info', "        except psutil.NoSuchProcess:\n            return None", "        except psutil.NoSuchProcess:\n            return None\n        if process.status() == 'zombie':\n            process.wait(0)"))
fire('c18-helper-deletes', ['C18'], 'C18.WRITES-STAY-HOME',
     ('labtech/storage.py', 'LocalStorage.delete', "shutil.rmtree(key_path)", "ensure_dict_key_str(key, exception_type=StorageError)\n            shutil.rmtree(key_path)"),
     ('labtech/storage.py', None, "from .types import Storage\n", "from .types import Storage\nfrom .utils import ensure_dict_key_str\n"),
     ('labtech/utils.py', 'ensure_dict_key_str', "    return cast(str, value)", "    import os\n    os.remove(value)\n    return cast(str, value)"))


# -- round-3 refactoring forms: the generalised rules still bite when the new form is broken ---------------------------------
_FLAG_DRAIN_OK = ("""            inner_timeout_seconds = timeout_seconds
            while True:
                try:
                    future_id, result_or_ex = self._result_queue.get(True, timeout=inner_timeout_seconds)
                except Empty:
                    break

                # Don't wait for the timeout on subsequent calls to
                # self._result_queue.get()
                inner_timeout_seconds = 0
""", """            is_first_get = True
            while True:
                inner_timeout_seconds = timeout_seconds if is_first_get else 0
                try:
                    future_id, result_or_ex = self._result_queue.get(True, timeout=inner_timeout_seconds)
                except Empty:
                    break
                is_first_get = False
""")
silent('c11-drain-flag-form', ['C11'], (PROC, 'ProcessExecutor._consume_result_queue', *_FLAG_DRAIN_OK))
fire('c11-drain-flag-never-cleared', ['C11'], 'C11.DRAIN-BOUNDED',
     (PROC, 'ProcessExecutor._consume_result_queue', _FLAG_DRAIN_OK[0], _FLAG_DRAIN_OK[1].replace("                is_first_get = False\n", "")))
fire('c11-drain-flag-inverted', ['C11'], 'C11.DRAIN-BOUNDED',
     (PROC, 'ProcessExecutor._consume_result_queue', _FLAG_DRAIN_OK[0], _FLAG_DRAIN_OK[1].replace("timeout_seconds if is_first_get else 0", "0 if is_first_get else timeout_seconds")))

_SAVE_TRY = """        try:
            metadata_file = storage.file_handle(task.cache_key, self.METADATA_FILENAME, mode='w')
            with metadata_file:
                json.dump(metadata, metadata_file, indent=2)
            self.save_result(storage, task, task_result.value)
        except BaseException:
            # Do not leave behind a partial entry that would be
            # reported as cached but cannot be loaded.
            storage.delete(task.cache_key)
            raise"""
_SAVE_FLAG = """        entry_complete = False
        try:
            metadata_file = storage.file_handle(task.cache_key, self.METADATA_FILENAME, mode='w')
            with metadata_file:
                json.dump(metadata, metadata_file, indent=2)
            self.save_result(storage, task, task_result.value)
            entry_complete = True
        finally:
            if not entry_complete:
                storage.delete(task.cache_key)"""
silent('c12-rollback-flag-form', ['C12', 'C13'], ('labtech/cache.py', 'BaseCache.save', _SAVE_TRY, _SAVE_FLAG))
fire('c12-rollback-flag-set-too-early', ['C12', 'C13'], 'C12.ROLLBACK-COVER',
     ('labtech/cache.py', 'BaseCache.save', _SAVE_TRY, _SAVE_FLAG.replace("            self.save_result(storage, task, task_result.value)\n            entry_complete = True",
                                                                             "            entry_complete = True\n            self.save_result(storage, task, task_result.value)")))
fire('c12-rollback-flag-starts-true', ['C12', 'C13'], 'C12.ROLLBACK-COVER',
     ('labtech/cache.py', 'BaseCache.save', _SAVE_TRY, _SAVE_FLAG.replace("entry_complete = False", "entry_complete = True", 1)))

silent('c18-altsep-appended-when-present', ['C18'],
       ('labtech/storage.py', 'validate_file_path_key', "    disallowed_key_chars = ['.', '/', '\\\\', os.path.sep, os.path.altsep]",
        "    disallowed_key_chars = ['.', '/', '\\\\', os.path.sep]\n    if os.path.altsep is not None:\n        disallowed_key_chars.append(os.path.altsep)"))
fire('c18-altsep-appended-when-absent', ['C18'], 'C18.VALIDATOR-SHAPE',
     ('labtech/storage.py', 'validate_file_path_key', "    disallowed_key_chars = ['.', '/', '\\\\', os.path.sep, os.path.altsep]",
      "    disallowed_key_chars = ['.', '/', '\\\\', os.path.sep]\n    if os.path.altsep is None:\n        disallowed_key_chars.append(os.path.altsep)"))

silent('c07-hash-update-form', ['C07'],
       ('labtech/cache.py', 'BaseCache.cache_key', "        hashed = hashlib.sha1(serialized_str).hexdigest()", "        hasher = hashlib.sha1()\n        hasher.update(serialized_str)\n        hashed = hasher.hexdigest()"))
fire('c07-hash-update-of-partial-input', ['C07'], 'C07.FIELD-COVER',
     ('labtech/cache.py', 'BaseCache.cache_key', "        hashed = hashlib.sha1(serialized_str).hexdigest()",
      "        hasher = hashlib.sha1()\n        hasher.update(json.dumps(self.serializer.serialize_task(task)['__class__']).encode('utf-8'))\n        hashed = hasher.hexdigest()"))

fire('c11-wait-timeout-closure-param-none', ['C11'], 'C11.WAIT-TIMEOUT',
     (LAB, 'TaskCoordinator.run', "        def process_completed_tasks():", "        def process_completed_tasks(*, timeout_seconds=None):"),
     (LAB, 'TaskCoordinator.run', "runner.wait(timeout_seconds=0.5)", "runner.wait(timeout_seconds=timeout_seconds)"))


# -- classic-trap sweeps: positive examples (expected count on the clean tree is zero) -----------------------------------
fire('sweep-late-binding-thunk', ['C01', 'C04', 'C05'], 'SWEEP.LOOP-CLOSURE-BINDING',
     (PROC, 'ProcessExecutor._start_processes', "            thunk = self._pending_future_to_thunk[future]\n", "            thunk = lambda: self._pending_future_to_thunk[future]()\n"),
     note='a thunk created per future that looks the future up by name when it finally runs')
fire('sweep-generator-consumed-twice', ['C03', 'C01'], 'SWEEP.ITERATOR-REUSE',
     (LAB, 'TaskState.process_tasks', "        all_dependencies: list[Task] = []\n        for task in tasks:", "        all_dependencies: list[Task] = []\n        tasks = iter(tasks)\n        logger.debug(f'{len(list(tasks))} tasks')\n        for task in tasks:"))
fire('sweep-except-or', ['C10', 'C11'], 'SWEEP.COMPARISON-TRAPS',
     (PROC, 'ProcessMonitor._get_process_info', "except psutil.NoSuchProcess:", "except psutil.NoSuchProcess or psutil.AccessDenied:"))
fire('sweep-is-literal', ['C06', 'C09'], 'SWEEP.COMPARISON-TRAPS',
     ('labtech/cache.py', 'BaseCache.load_metadata', "if metadata.get('cache') != self.__class__.__qualname__:", "if metadata.get('cache') is not 'PickleCache':"))
fire('sweep-loop-rebinds-parameter', ['C08'], 'SWEEP.PARAM-NOT-REBOUND-BY-LOOP',
     (LAB, 'Lab.uncache_tasks', "        for task in tasks:\n            if self.is_cached(task):\n                task._lt.cache.delete(self._storage, task)",
      "        for tasks in [tasks]:\n            pass\n        for task in tasks:\n            if self.is_cached(task):\n                task._lt.cache.delete(self._storage, task)"))


# -- round-4 obligations ----------------------------------------------------------------------------------------------------
CACHE = 'labtech/cache.py'
STOR = 'labtech/storage.py'
fire('r4-process-global-registry', ['C04', 'C05', 'C16'], 'SUPPORT.NO-PROCESS-GLOBAL-STATE',
     (PROC, None, "class ProcessRunner(Runner, ABC):", "_RUNNERS_SEEN: dict = {}\n\n\nclass ProcessRunner(Runner, ABC):"),
     (PROC, 'ProcessRunner.__init__', "        self.results_map: dict[Task, TaskResult] = {}", "        self.results_map: dict[Task, TaskResult] = {}\n        _RUNNERS_SEEN[id(self)] = self"))
silent('r4-module-constant-table-read-only', ['C04', 'C05', 'C16'],
       (PROC, None, "class ProcessRunner(Runner, ABC):", "_LEVELS: dict = {'stdout': 'info', 'stderr': 'error'}\n\n\nclass ProcessRunner(Runner, ABC):"),
       note='a module-level table nobody writes to is not state')
fire('r4-storage-memo', ['C08', 'C03', 'C06'], 'C08.STORAGE-STATELESS',
     (STOR, 'LocalStorage.exists', "        return key_path.exists()", "        self._last_seen = key\n        return key_path.exists()"))
fire('r4-handle-dropped', ['C12', 'C13'], 'C12.HANDLE-CLOSED-IN-SCOPE',
     (CACHE, 'PickleCache.save_result', "        data_file = storage.file_handle(task.cache_key, self.RESULT_FILENAME, mode='wb')\n        with data_file:\n            pickle.dump(result, data_file, protocol=self.pickle_protocol)",
      "        data_file = storage.file_handle(task.cache_key, self.RESULT_FILENAME, mode='wb')\n        pickle.dump(result, data_file, protocol=self.pickle_protocol)"))
fire('r4-narrow-clause-before-rollback', ['C12', 'C13'], 'C12.ROLLBACK-COVER',
     (CACHE, 'BaseCache.save', "        except BaseException:\n", "        except OSError as ex:\n            raise CacheError(str(ex)) from ex\n        except BaseException:\n"))
silent('r4-narrow-clause-rolls-back-itself', ['C12', 'C13'],
       (CACHE, 'BaseCache.save', "        except BaseException:\n", "        except OSError:\n            storage.delete(task.cache_key)\n            raise\n        except BaseException:\n"))
fire('r4-parent-ignores-sigint', ['C14', 'C11'], 'C14.WHO-MAY-SET-SIGNALS',
     (PROC, 'ProcessExecutor._start_processes', "            process.start()", "            previous = signal.signal(signal.SIGINT, signal.SIG_IGN)\n            process.start()\n            signal.signal(signal.SIGINT, previous)"))
fire('r4-submit-before-start', ['C14', 'C04'], 'C14.START-BEFORE-SUBMIT',
     (LAB, 'TaskCoordinator.run', "                            state.start_task(task)\n", ""),
     (LAB, 'TaskCoordinator.run', "                                use_cache=self.use_cache(task),\n                            )\n", "                                use_cache=self.use_cache(task),\n                            )\n                            state.start_task(task)\n"))
fire('r4-rollback-converts-interrupt', ['C14'], 'C14.KI-TRANSPARENT',
     (CACHE, 'BaseCache.save', "            storage.delete(task.cache_key)\n            raise", "            storage.delete(task.cache_key)\n            raise CacheError('save failed')"))
fire('r4-batch-extended-before-release', ['C17'], 'C17.RELEASE-CALLED',
     (LAB, 'TaskCoordinator.run', "                runner.remove_results(tasks_with_removable_results)", "                tasks_with_removable_results.add(task)\n                runner.remove_results(tasks_with_removable_results)"))
fire('r4-queue-handler-prepare-override', ['C19'], 'C19.WORKER-LOG-SETUP',
     (PROC, None, "class ProcessRunner(Runner, ABC):", "class _RawQueueHandler(QueueHandler):\n    def prepare(self, record):\n        return record\n\n\nclass ProcessRunner(Runner, ABC):"),
     (PROC, 'ProcessRunner._subprocess_func', "logger.addHandler(QueueHandler(log_queue))", "logger.addHandler(_RawQueueHandler(log_queue))"))
silent('r4-queue-handler-plain-subclass', ['C19'],
       (PROC, None, "class ProcessRunner(Runner, ABC):", "class _TaskQueueHandler(QueueHandler):\n    \"\"\"Marker subclass.\"\"\"\n\n\nclass ProcessRunner(Runner, ABC):"),
       (PROC, 'ProcessRunner._subprocess_func', "logger.addHandler(QueueHandler(log_queue))", "logger.addHandler(_TaskQueueHandler(log_queue))"))
fire('r4-fromkeys-shared-dict', ['C20'], 'SWEEP.SHARED-MUTABLE-FILL',
     ('labtech/diagram.py', 'TaskStructure.build', "        task_structure = cls()\n", "        task_structure = cls()\n        task_structure.task_type_to_rels = dict.fromkeys([type(task) for task in tasks], {})\n"))
fire('r4-pickled-lt-altered', ['C15', 'C04'], 'C15.STATE-CLEAN',
     ('labtech/tasks.py', '_task__getstate__', "'_lt': self._lt,", "'_lt': None,"))
silent('r4-handle-closed-by-finally', ['C12', 'C13'],
       (CACHE, 'PickleCache.save_result', "        with data_file:\n            pickle.dump(result, data_file, protocol=self.pickle_protocol)",
        "        try:\n            pickle.dump(result, data_file, protocol=self.pickle_protocol)\n        finally:\n            data_file.close()"))
silent('r4-handle-closed-by-closing', ['C12', 'C13'],
       (CACHE, 'PickleCache.save_result', "        with data_file:\n            pickle.dump(result, data_file, protocol=self.pickle_protocol)",
        "        with contextlib.closing(data_file):\n            pickle.dump(result, data_file, protocol=self.pickle_protocol)"),
       (CACHE, None, "import json\n", "import contextlib\nimport json\n"))


# -- object-level forms (fourth refactoring round): sound form silent, broken form still reported ---------------------------
_CM_OK = '''class _DiscardEntryOnFailure:
    def __init__(self, storage, task):
        self._storage = storage
        self._task = task

    def __enter__(self):
        return None

    def __exit__(self, exc_type, exc_value, traceback):
        if exc_type is not None:
            self._storage.delete(self._task.cache_key)
        return False


class BaseCache(Cache):'''
_SAVE_WITH_CM = """        with _DiscardEntryOnFailure(storage, task):
            metadata_file = storage.file_handle(task.cache_key, self.METADATA_FILENAME, mode='w')
            with metadata_file:
                json.dump(metadata, metadata_file, indent=2)
            self.save_result(storage, task, task_result.value)"""
silent('obj-rollback-context-manager', ['C12', 'C13', 'C14', 'C08'],
       (CACHE, None, "class BaseCache(Cache):", _CM_OK),
       (CACHE, 'BaseCache.save', _SAVE_TRY, _SAVE_WITH_CM))
fire('obj-rollback-context-manager-swallows', ['C12', 'C13'], ['C12.ROLLBACK-COVER', 'C08.WHO-WRITES-STORAGE', 'C10.SUCCESS-ONLY-STORES'],
     (CACHE, None, "class BaseCache(Cache):", _CM_OK.replace("        return False", "        return True")),
     (CACHE, 'BaseCache.save', _SAVE_TRY, _SAVE_WITH_CM),
     note='__exit__ returning True swallows the failure: the manager is not desugared and the save has no recognisable rollback')
fire('obj-rollback-context-manager-only-on-success', ['C12', 'C13'], 'C12.ROLLBACK-COVER',
     (CACHE, None, "class BaseCache(Cache):", _CM_OK.replace("if exc_type is not None:", "if exc_type is None:")),
     (CACHE, 'BaseCache.save', _SAVE_TRY, _SAVE_WITH_CM))

_HOLDER = '''class _ActiveTasks:
    def __init__(self):
        self._type_to_tasks = defaultdict(set)

    def add(self, task):
        self._type_to_tasks[type(task)].add(task)

    def remove(self, task):
        self._type_to_tasks[type(task)].remove(task)

    def type_counts(self):
        return Counter({task_type: len(tasks) for task_type, tasks in self._type_to_tasks.items()})


class TaskState:'''
_HOLDER_EDITS = [
    (LAB, None, "class TaskState:", _HOLDER),
    (LAB, 'TaskState.__init__', "        self.type_to_active_tasks: dict[Type[Task], Set[Task]] = defaultdict(set)", "        self._active = _ActiveTasks()"),
    (LAB, 'TaskState.start_task', "        self.type_to_active_tasks[type(task)].add(task)", "        self._active.add(task)"),
    (LAB, 'TaskState.complete_task', "        self.type_to_active_tasks[type(task)].remove(task)", "        self._active.remove(task)"),
]
_COUNTS_OLD = """        task_type_counts = Counter({
            task_type: len(active_tasks)
            for task_type, active_tasks in self.type_to_active_tasks.items()
        })"""
silent('obj-active-tasks-holder-class', ['C04', 'C05'],
       *_HOLDER_EDITS, (LAB, 'TaskState.get_ready_tasks', _COUNTS_OLD, "        task_type_counts = self._active.type_counts()"))
fire('obj-active-tasks-holder-remove-noop', ['C04', 'C05'], 'C04.ACTIVE-BOOK',
     (LAB, None, "class TaskState:", _HOLDER.replace("        self._type_to_tasks[type(task)].remove(task)", "        pass")),
     *_HOLDER_EDITS[1:], (LAB, 'TaskState.get_ready_tasks', _COUNTS_OLD, "        task_type_counts = self._active.type_counts()"),
     note='the wrapper forgets to remove finished tasks: the per-type count only grows')

_CONSUMER_CLS = '''class _ResultQueueConsumer:
    def __init__(self, executor, timeout_seconds):
        self._executor = executor
        self._timeout_seconds = timeout_seconds

    def __call__(self):
        executor = self._executor
        inner_timeout_seconds = self._timeout_seconds
        while True:
            try:
                future_id, result_or_ex = executor._result_queue.get(True, timeout=inner_timeout_seconds)
            except Empty:
                break
            inner_timeout_seconds = 0
            future, _ = executor._running_id_to_future_and_process[future_id]
            del executor._running_id_to_future_and_process[future_id]
            if not future.done:
                if isinstance(result_or_ex, BaseException):
                    future.set_exception(result_or_ex)
                else:
                    future.set_result(result_or_ex)


class ProcessExecutor:'''
_CLOSURE_TEXT = "        def _consume():\n            inner_timeout_seconds = timeout_seconds\n            while True:\n                try:\n                    future_id, result_or_ex = self._result_queue.get(True, timeout=inner_timeout_seconds)\n                except Empty:\n                    break\n\n                # Don't wait for the timeout on subsequent calls to\n                # self._result_queue.get()\n                inner_timeout_seconds = 0\n\n                future, _ = self._running_id_to_future_and_process[future_id]\n                del self._running_id_to_future_and_process[future_id]\n                if not future.done:\n                    if isinstance(result_or_ex, BaseException):\n                        future.set_exception(result_or_ex)\n                    else:\n                        future.set_result(result_or_ex)\n\n"
silent('obj-consumer-callable-class', ['C11', 'C14', 'C01'],
       (PROC, None, "class ProcessExecutor:", _CONSUMER_CLS),
       (PROC, 'ProcessExecutor._consume_result_queue', _CLOSURE_TEXT, ""),
       (PROC, 'ProcessExecutor._consume_result_queue', "consumer_thread = Thread(target=_consume)", "consumer_thread = Thread(target=_ResultQueueConsumer(self, timeout_seconds))"))
fire('obj-consumer-callable-class-drops-entry-late', ['C11'], 'C11.FUTURE-PAIRING',
     (PROC, None, "class ProcessExecutor:", _CONSUMER_CLS.replace("            del executor._running_id_to_future_and_process[future_id]\n", "")),
     (PROC, 'ProcessExecutor._consume_result_queue', _CLOSURE_TEXT, ""),
     (PROC, 'ProcessExecutor._consume_result_queue', "consumer_thread = Thread(target=_consume)", "consumer_thread = Thread(target=_ResultQueueConsumer(self, timeout_seconds))"),
     note='the class-based consumer never frees the worker slot of a finished future')


# -- round-5 obligations ----------------------------------------------------------------------------------------------------
fire('r5-cache-key-as-set-member', ['C03', 'C05', 'C11'], 'SWEEP.CACHE-KEY-NOT-IDENTITY',
     (LAB, 'TaskState.start_task', "        self.pending_tasks.remove(task)", "        self.pending_tasks.remove(task)\n        self.processed_task_ids.add(task.cache_key)"))
fire('r5-cache-key-dict-index', ['C01', 'C02'], 'SWEEP.CACHE-KEY-NOT-IDENTITY',
     (PROC, 'ProcessRunner.get_result', "return self.results_map[task]", "return {t.cache_key: r for t, r in self.results_map.items()}[task.cache_key]"))
silent('r5-cache-key-logged', ['C03', 'C05', 'C11'],
       (LAB, 'TaskState.start_task', "        self.pending_tasks.remove(task)", "        self.pending_tasks.remove(task)\n        logger.debug(f'starting {task.cache_key}')"),
       note='reading the key for a log line is not using it as an identity')
fire('r5-query-drops-task', ['C11', 'C05'], 'C11.QUERY-PURE',
     (LAB, 'TaskState.get_ready_tasks', "            ready_tasks.append(task)", "            ready_tasks.append(task)\n            self.processed_task_ids.discard(id(task))"))
fire('r5-stop-joins', ['C14'], 'C14.STOP-DOES-NOT-WAIT',
     (PROC, 'ProcessExecutor.stop', "            process.terminate()", "            process.terminate()\n            process.join(5)"))
fire('r5-consumer-cancels', ['C14'], 'C14.WHO-MAY-CANCEL',
     (LAB, 'TaskCoordinator.run', "                runner.remove_results(tasks_with_removable_results)", "                runner.remove_results(tasks_with_removable_results)\n                if len(task_results) > 10_000:\n                    runner.cancel()"))
fire('r5-backend-keeps-runner', ['C10', 'C16'], 'SUPPORT.BACKEND-STATELESS',
     (PROC, 'ForkRunnerBackend.build_runner', "        return ForkProcessRunner(", "        self._last_runner = None\n        return ForkProcessRunner("))
fire('r5-run-fast-path', ['C03', 'C01'], 'C03.RUN-NO-BYPASS',
     (LAB, 'TaskCoordinator.run', "        state = TaskState(", "        if not tasks:\n            return {}\n        state = TaskState("),
     note='even the trivial early return is reported: the rule is about every exit passing the scheduler state')
fire('r5-runner-side-table', ['C17'], 'C17.RELEASE-COVERS-ALL-STORES',
     (PROC, 'ProcessRunner.submit_task', "        future = self._submit_task(", "        self.submitted_names = getattr(self, 'submitted_names', {})\n        self.submitted_names[task] = task_name\n        future = self._submit_task("))
fire('r5-visited-set-grows', ['C15', 'C02'], 'C15.VISITED-PATH-LOCAL',
     ('labtech/tasks.py', 'find_tasks_in_param', "        searched_coll_ids = searched_coll_ids | {id(param_value)}\n        return [\n            task\n            for item in param_value\n",
      "        searched_coll_ids.add(id(param_value))\n        return [\n            task\n            for item in param_value\n"))


# -- fifth refactoring round: sound forms silent, broken forms reported -------------------------------------------------------
_READY_GUARD = """        for task in self.pending_tasks:
            if len(self.task_to_pending_dependencies.get(task, set())) > 0:
                continue
"""
silent('ref5-ready-filter-generator', ['C02', 'C05', 'C11'],
       (LAB, 'TaskState.get_ready_tasks', _READY_GUARD,
        "        unblocked = (task for task in self.pending_tasks if len(self.task_to_pending_dependencies.get(task, set())) == 0)\n        for task in unblocked:\n"))
fire('ref5-ready-filter-generator-inverted', ['C02'], 'C02.READY-GATE',
     (LAB, 'TaskState.get_ready_tasks', _READY_GUARD,
      "        unblocked = (task for task in self.pending_tasks if len(self.task_to_pending_dependencies.get(task, set())) > 0)\n        for task in unblocked:\n"),
     note='the filter keeps the blocked tasks: the unfolded guard is the wrong way round and READY-GATE must say so')
silent('ref5-free-worker-property', ['C04', 'C05'],
       (PROC, 'ProcessExecutor._start_processes', "start_count = max(0, self.max_workers - len(self._running_id_to_future_and_process))", "start_count = self._free_worker_count"),
       (PROC, None, "    def _start_processes(self):", "    @property\n    def _free_worker_count(self) -> int:\n        return max(0, self.max_workers - len(self._running_id_to_future_and_process))\n\n    def _start_processes(self):"))
fire('ref5-free-worker-property-ignores-running', ['C04'], 'C04.WORKER-GATE',
     (PROC, 'ProcessExecutor._start_processes', "start_count = max(0, self.max_workers - len(self._running_id_to_future_and_process))", "start_count = self._free_worker_count"),
     (PROC, None, "    def _start_processes(self):", "    @property\n    def _free_worker_count(self) -> int:\n        return max(0, self.max_workers)\n\n    def _start_processes(self):"))
silent('ref5-debug-logging-in-main-loop', ['C05', 'C11'],
       (LAB, 'TaskCoordinator.run', "                        for task in ready_tasks:\n", "                        if len(ready_tasks) > 0:\n                            logger.debug('submitting %d tasks', len(ready_tasks))\n                        for task in ready_tasks:\n"))


# -- round-6 obligations ----------------------------------------------------------------------------------------------------
fire('r6-warn-before-rollback', ['C12', 'C13'], 'C12.ROLLBACK-COVER',
     (CACHE, 'BaseCache.save', "            storage.delete(task.cache_key)\n            raise", "            warnings.warn('save failed')\n            storage.delete(task.cache_key)\n            raise"),
     (CACHE, None, "import json\n", "import json\nimport warnings\n"))
silent('r6-plain-log-before-rollback', ['C12', 'C13'],
       (CACHE, 'BaseCache.save', "            storage.delete(task.cache_key)\n            raise", "            logger.debug('save failed, removing the partial entry')\n            storage.delete(task.cache_key)\n            raise"),
       (CACHE, None, "import json\n", "import json\nfrom .utils import logger\n"))
fire('r6-delete-named-file-first', ['C12', 'C13'], 'C12.DELETE-TOTAL',
     (STOR, 'LocalStorage.delete', "            shutil.rmtree(key_path)", "            (key_path / 'metadata.json').unlink()\n            shutil.rmtree(key_path)"))
fire('r6-mlflow-call-after-run', ['C10'], 'C10.MLFLOW-IN-RUN',
     ('labtech/runners/base.py', 'optional_mlflow', "            log_params(task)\n            yield\n", "            log_params(task)\n            yield\n        mlflow.set_tag('labtech_done', 'yes')\n"))
fire('r6-yield-under-catch-all', ['C14', 'C10'], 'SWEEP.YIELD-OUTSIDE-CATCH-ALL',
     (PROC, 'ProcessRunner.wait', "            except BaseException as ex:\n                yield (task, ex)\n            else:\n                self.results_map[task] = task_result\n                yield (task, task_result.meta)",
      "                self.results_map[task] = task_result\n                yield (task, task_result.meta)\n            except BaseException as ex:\n                yield (task, ex)"))
fire('r6-consumer-submits-through-helper', ['C14'], 'C14.HANDLER',
     (LAB, 'TaskCoordinator.run', "        def process_completed_tasks():", "        def resubmit(task):\n            runner.submit_task(task, task_name='again', use_cache=False)\n\n        def process_completed_tasks():"),
     (LAB, 'TaskCoordinator.run', "                    self.handle_failure(ex=res, message=f\"Task '{task}' failed.\")", "                    self.handle_failure(ex=res, message=f\"Task '{task}' failed.\")\n                    resubmit(task)"))


# -- representative refactoring round: an extracted search helper ---------------------------------------------------------------
_INNER = ("            for task_type in task_types:\n                try:\n                    task = task_type._lt.cache.load_task(self._storage, task_type, key)\n"
          "                except TaskNotFound:\n                    pass\n                else:\n                    tasks.append(task)\n                    break\n")
_HELPER = ("    def _load_for_key(self, task_types, key):\n        for task_type in %s:\n            try:\n"
           "                return task_type._lt.cache.load_task(self._storage, task_type, key)\n            except %s:\n                %s\n        %s\n\n")
silent('ref6-search-helper-raise', ['C08', 'C09'],
       (LAB, 'Lab.cached_tasks', _INNER, "            try:\n                task = self._load_for_key(task_types, key)\n            except TaskNotFound:\n                continue\n            tasks.append(task)\n"),
       (LAB, None, "    def is_cached(self, task: Task) -> bool:", _HELPER % ('task_types', 'TaskNotFound', 'pass', 'raise TaskNotFound') + "    def is_cached(self, task: Task) -> bool:"))
silent('ref6-search-helper-none', ['C08', 'C09'],
       (LAB, 'Lab.cached_tasks', _INNER, "            task = self._load_for_key(task_types, key)\n            if task is not None:\n                tasks.append(task)\n"),
       (LAB, None, "    def is_cached(self, task: Task) -> bool:", _HELPER % ('task_types', 'TaskNotFound', 'continue', 'return None') + "    def is_cached(self, task: Task) -> bool:"))
fire('ref6-search-helper-first-type-only', ['C09'], 'C09.LOOP',
     (LAB, 'Lab.cached_tasks', _INNER, "            task = self._load_for_key(task_types, key)\n            if task is not None:\n                tasks.append(task)\n"),
     (LAB, None, "    def is_cached(self, task: Task) -> bool:", _HELPER % ('task_types[:1]', 'TaskNotFound', 'continue', 'return None') + "    def is_cached(self, task: Task) -> bool:"))
fire('ref6-search-helper-swallows-everything', ['C09'], 'C09.LOOP',
     (LAB, 'Lab.cached_tasks', _INNER, "            task = self._load_for_key(task_types, key)\n            if task is not None:\n                tasks.append(task)\n"),
     (LAB, None, "    def is_cached(self, task: Task) -> bool:", _HELPER % ('task_types', 'Exception', 'continue', 'return None') + "    def is_cached(self, task: Task) -> bool:"))


# -- round-7 obligations ----------------------------------------------------------------------------------------------------
MON = 'labtech/monitor.py'
TASKS = 'labtech/tasks.py'
SER = 'labtech/serialization.py'
fire('r7-top-n-negated-slice', ['C01', 'C10'], 'SWEEP.SLICE-BOUND-SIGN',
     (MON, 'TaskMonitor._top_task_lines', "        task_infos = task_infos[:self.top_n]", "        task_infos = task_infos[-self.top_n:]"))
silent('r7-top-n-negated-slice-guarded', ['C01', 'C10'],
       (MON, 'TaskMonitor._top_task_lines', "        task_infos = task_infos[:self.top_n]", "        if self.top_n > 0:\n            task_infos = list(reversed(list(reversed(task_infos))[-self.top_n:]))\n        else:\n            task_infos = []"))
fire('r7-dead-marking-skipped-on-busy-rounds', ['C05', 'C11', 'C10'], 'C11.DEAD-DETECT',
     (PROC, 'ProcessExecutor._consume_result_queue', "        for future in dead_process_futures:", "        if self._result_queue.qsize() > 0:\n            return\n        for future in dead_process_futures:"))
fire('r7-max-workers-clamped', ['C04', 'C05'], 'C04.DEFAULT',
     (PROC, 'ProcessExecutor.__init__', "self.max_workers = os.cpu_count() if max_workers is None else max_workers", "self.max_workers = os.cpu_count() if max_workers is None else min(max_workers, os.cpu_count())"))
fire('r7-metadata-not-ascii', ['C06', 'C09'], 'C07.JSON-OPTIONS',
     (CACHE, 'BaseCache.save', "json.dump(metadata, metadata_file, indent=2)", "json.dump(metadata, metadata_file, indent=2, ensure_ascii=False)"))
silent('r7-key-dumps-not-ascii-but-utf8-encoded', ['C06', 'C07', 'C09', 'C15'],
       (CACHE, 'BaseCache.cache_key', "json.dumps(self.serializer.serialize_task(task)).encode('utf-8')", "json.dumps(self.serializer.serialize_task(task), allow_nan=True).encode('utf-8')"))
fire('r7-key-allow-nan-off', ['C15', 'C07'], 'C07.JSON-OPTIONS',
     (CACHE, 'BaseCache.cache_key', "json.dumps(self.serializer.serialize_task(task))", "json.dumps(self.serializer.serialize_task(task), allow_nan=False)"))
fire('r7-key-default-str', ['C07'], 'C07.JSON-OPTIONS',
     (CACHE, 'BaseCache.cache_key', "json.dumps(self.serializer.serialize_task(task))", "json.dumps(self.serializer.serialize_task(task), default=str)"))
fire('r7-nonfinite-floats-as-strings', ['C07', 'C01', 'C06'], 'C07.SCALAR-IDENTITY',
     (SER, 'Serializer.serialize_value', "        elif isinstance(value, Enum):\n            return self.serialize_enum(value)\n", "        elif isinstance(value, Enum):\n            return self.serialize_enum(value)\n        elif isinstance(value, float) and value != value:\n            return 'nan'\n"))
fire('r7-filter-default-own-namespace', ['C16'], 'C16.FILTER-DEFAULT',
     (TASKS, 'task', "        if not hasattr(cls, 'filter_context'):", "        if 'filter_context' not in vars(cls):"))
silent('r7-filter-default-getattr-none', ['C16'],
       (TASKS, 'task', "        if not hasattr(cls, 'filter_context'):", "        if getattr(cls, 'filter_context', None) is None:"))
fire('r7-filter-default-not-identity', ['C16'], 'C16.FILTER-DEFAULT',
     (TASKS, '_task_filter_context_default', "    return context", "    return dict(context)"))
fire('r7-release-loop-under-suppress', ['C17'], 'C17.BATCH-ALL',
     (PROC, 'ProcessRunner.remove_results', "        for task in tasks:\n            if task not in self.results_map:\n                continue\n            logger.debug(f\"Removing result from in-memory cache for task: '{task}'\")\n            del self.results_map[task]",
      "        try:\n            for task in tasks:\n                del self.results_map[task]\n        except KeyError:\n            pass"))
silent('r7-release-loop-inner-try', ['C17', 'C02', 'C01'],
       (PROC, 'ProcessRunner.remove_results', "            if task not in self.results_map:\n                continue\n            logger.debug(f\"Removing result from in-memory cache for task: '{task}'\")\n            del self.results_map[task]",
        "            self.results_map.pop(task, None)"))
fire('r7-log-queue-plain', ['C19'], 'C19.LOG-QUEUE-MANAGED',
     (PROC, 'ProcessRunner.__init__', "self.log_queue = multiprocessing.Manager().Queue(-1)", "self.log_queue = multiprocessing.Queue(-1)"))
silent('r7-mp-context-hoisted', ['C16', 'C19'],
       (PROC, 'ProcessRunner.__init__', "        self.executor = ProcessExecutor(\n            mp_context=self._get_mp_context(),", "        mp_context = self._get_mp_context()\n        self.executor = ProcessExecutor(\n            mp_context=mp_context,"))
_DD_ADD = "            self.task_to_direct_dependencies[task].add(dependency)\n"
fire('r7-direct-deps-aliased-and-pruned', ['C17', 'C02'], 'C17.DEPS-OWNED',
     (LAB, 'TaskState.insert_task', _DD_ADD, ""),
     (LAB, 'TaskState.insert_task', "        for dependency in dependencies:", "        self.task_to_direct_dependencies[task] = dependencies\n        for dependency in dependencies:"),
     (LAB, 'TaskState.process_tasks', "            all_dependencies += dependency_tasks", "            for dependency_task in list(dependency_tasks):\n                if id(dependency_task) in self.processed_task_ids:\n                    dependency_tasks.remove(dependency_task)\n            all_dependencies += dependency_tasks"))
silent('r7-direct-deps-whole-copy', ['C17', 'C02', 'C01', 'C11', 'C03'],
       (LAB, 'TaskState.insert_task', _DD_ADD, ""),
       (LAB, 'TaskState.insert_task', "        for dependency in dependencies:", "        self.task_to_direct_dependencies[task] = set(dependencies)\n        for dependency in dependencies:"))
silent('r7-direct-deps-aliased-never-changed', ['C17', 'C02', 'C01', 'C11'],
       (LAB, 'TaskState.insert_task', _DD_ADD, ""),
       (LAB, 'TaskState.insert_task', "        for dependency in dependencies:", "        self.task_to_direct_dependencies[task] = dependencies\n        for dependency in dependencies:"))
fire('r7-file-guard-swallowed-by-reparented-error', ['C18'], 'C18.GUARDED-FILE',
     (STOR, 'LocalStorage.file_handle', "        file_path = (key_path / filename).resolve()\n        if file_path.parent != key_path:\n            raise StorageError((f\"Filename '{filename}' should only reference a directory directly \"\n                                f\"under the storage key directory '{key_path}'\"))",
      "        file_path = (key_path / filename).resolve()\n        try:\n            if file_path.parent != key_path:\n                raise StorageError('outside')\n        except OSError:\n            pass"))
_PCT_DEF = "        def process_completed_tasks():\n            # Wait up to a short delay before allowing the\n            # task monitor to update.\n            for task, res in runner.wait(timeout_seconds=0.5):"
_PCT_NEW = "        def poll_runner():\n            return runner.wait(timeout_seconds=0.5)\n\n        def process_completed_tasks(completed):\n            for task, res in completed:"
_HOIST = [
    (LAB, 'TaskCoordinator.run', _PCT_DEF, _PCT_NEW),
    (LAB, 'TaskCoordinator.run', "                        ready_tasks = state.get_ready_tasks()\n", "                        ready_tasks = state.get_ready_tasks()\n                        completed = poll_runner()\n"),
    (LAB, 'TaskCoordinator.run', "                            )\n                        process_completed_tasks()", "                            )\n                        process_completed_tasks(completed)"),
    (LAB, 'TaskCoordinator.run', "                        while runner.pending_task_count() > 0:\n                            process_completed_tasks()", "                        while runner.pending_task_count() > 0:\n                            process_completed_tasks(poll_runner())"),
    (LAB, 'TaskCoordinator.run', "                        # tasks have been killed.\n                        process_completed_tasks()", "                        # tasks have been killed.\n                        process_completed_tasks(poll_runner())"),
]
silent('r7-wait-iterator-hoisted-lazy', ['C05', 'C11', 'C01', 'C10', 'C14', 'C17', 'C02'], *_HOIST)
fire('r7-wait-iterator-hoisted-eager-serial', ['C05'], 'C05.SUBMIT-ALL', *_HOIST,
     ('labtech/runners/serial.py', 'SerialRunner.wait', "    def wait(self, *, timeout_seconds: Optional[float]) -> Iterator[tuple[Task, ResultMeta | BaseException]]:", "    def wait(self, *, timeout_seconds: Optional[float]) -> Iterator[tuple[Task, ResultMeta | BaseException]]:\n        return iter(list(self._wait(timeout_seconds=timeout_seconds)))\n\n    def _wait(self, *, timeout_seconds: Optional[float]) -> Iterator[tuple[Task, ResultMeta | BaseException]]:"))
fire('r7-hook-built-per-class-installed-conditionally', ['C15'], 'C15.HOOKS-PER-TYPE',
     (TASKS, None, "def _task__setstate__(self: Task, state: dict[str, Any]) -> None:", "def _make_setstate(cls):\n    names = frozenset(f.name for f in fields(cls))\n\n    def _setstate(self, state):\n        assert names is not None\n        _task__setstate__(self, state)\n\n    return _setstate\n\n\ndef _task__setstate__(self: Task, state: dict[str, Any]) -> None:"),
     (TASKS, 'task', "        cls.__setstate__ = _task__setstate__", "        if not is_task_type(cls):\n            cls.__setstate__ = _make_setstate(cls)"))
UTILS = 'labtech/utils.py'
_RATE = [(UTILS, 'LoggerFileProxy.flush', "        if self.bufs:\n", "        if self.bufs and not self.muted:\n"),
         (UTILS, None, "    whitespace_only_re = re.compile(r'[\\s]*')\n", "    whitespace_only_re = re.compile(r'[\\s]*')\n    muted = 0\n")]
silent('r7-flush-dormant-switch', ['C19'], *_RATE)
fire('r7-flush-switch-turned-on-by-worker', ['C19'], 'C19.EMIT-THEN-CLEAR', *_RATE,
     (PROC, 'ProcessRunner._subprocess_func', "        sys.stderr = LoggerFileProxy(logger.error, 'Captured STDERR:\\n')  # type: ignore[assignment]\n", "        sys.stderr = LoggerFileProxy(logger.error, 'Captured STDERR:\\n')  # type: ignore[assignment]\n        sys.stderr.muted = 1\n"))


# -- canonicalisation added after the medium-sized representative round: a defect must survive it -----------------------------
BASEPY = 'labtech/runners/base.py'
SERIAL = 'labtech/runners/serial.py'
DIAG = 'labtech/diagram.py'
_ATTACH_LOOP_P = "            for dependency_task in get_direct_dependency_instances(task):\n                dependency_task._set_results_map(results_map)\n"
_ATTACH_LOOP_S = "            for dependency_task in get_direct_dependency_instances(task):\n                dependency_task._set_results_map(self.results_map)\n"
fire('g-shared-public-helper-loses-instances', ['C01', 'C02'], 'C01.DEP-MAP-ATTACH',
     (BASEPY, None, "def run_or_load_task(", "def attach_dependency_results(task, results_map):\n    for dependency_task in get_direct_dependencies(task):\n        dependency_task._set_results_map(results_map)\n\n\ndef run_or_load_task("),
     (BASEPY, None, "from labtech.tasks import is_task\n", "from labtech.tasks import get_direct_dependencies, is_task\n"),
     (PROC, 'ProcessRunner._subprocess_func', _ATTACH_LOOP_P, "            attach_dependency_results(task, results_map)\n"),
     (PROC, None, "from .base import run_or_load_task", "from .base import attach_dependency_results, run_or_load_task"),
     (SERIAL, 'SerialRunner.wait', _ATTACH_LOOP_S, "            attach_dependency_results(task, self.results_map)\n"),
     (SERIAL, None, "from labtech.runners.base import run_or_load_task", "from labtech.runners.base import attach_dependency_results, run_or_load_task"))
_CT_OLD = ("        keys = self._storage.find_keys()\n        tasks = []\n        for key in keys:\n" + _INNER + "        return tasks\n")
fire('g-listed-generator-without-break', ['C09', 'C08'], 'C09.LOOP',
     (LAB, 'Lab.cached_tasks', _CT_OLD, "        return list(self._iter_cached(task_types))\n"),
     (LAB, None, "    def is_cached(self, task: Task) -> bool:", "    def _iter_cached(self, task_types):\n        for key in self._storage.find_keys():\n            for task_type in task_types:\n                try:\n                    found = task_type._lt.cache.load_task(self._storage, task_type, key)\n                except TaskNotFound:\n                    continue\n                yield found\n\n    def is_cached(self, task: Task) -> bool:"))
silent('g-listed-generator', ['C09', 'C08'],
       (LAB, 'Lab.cached_tasks', _CT_OLD, "        return list(self._iter_cached(task_types))\n"),
       (LAB, None, "    def is_cached(self, task: Task) -> bool:", "    def _iter_cached(self, task_types):\n        for key in self._storage.find_keys():\n            for task_type in task_types:\n                try:\n                    found = task_type._lt.cache.load_task(self._storage, task_type, key)\n                except TaskNotFound:\n                    continue\n                yield found\n                break\n\n    def is_cached(self, task: Task) -> bool:"))
fire('g-named-prefix-drops-the-cache-prefix', ['C09', 'C08'], 'C09.KEY-FORMAT-AGREE',
     (CACHE, 'BaseCache.load_metadata', "        if not key.startswith(f'{self.KEY_PREFIX}{task_type.__qualname__}'):", "        expected_key_prefix = f'{task_type.__qualname__}'\n        if not key.startswith(expected_key_prefix):"))
silent('g-named-prefix', ['C09', 'C08', 'C06', 'C07'],
       (CACHE, 'BaseCache.load_metadata', "        if not key.startswith(f'{self.KEY_PREFIX}{task_type.__qualname__}'):", "        expected_key_prefix = f'{self.KEY_PREFIX}{task_type.__qualname__}'\n        if not key.startswith(expected_key_prefix):"))
_STORAGE_OLD = "        if isinstance(storage, str) or isinstance(storage, Path):\n            storage = LocalStorage(storage)\n        elif storage is None:\n            storage = NullStorage()\n        self._storage = storage\n"
fire('g-decision-helper-none-maps-to-local-dir', ['C08'], 'C08.NULL-INERT',
     (LAB, 'Lab.__init__', _STORAGE_OLD, "        self._storage = _build_storage(storage)\n"),
     (LAB, None, "class TaskState:", "def _build_storage(storage):\n    if isinstance(storage, str) or isinstance(storage, Path):\n        return LocalStorage(storage)\n    if storage is None:\n        return LocalStorage('.')\n    return storage\n\n\nclass TaskState:"))
silent('g-decision-helper', ['C08', 'C06', 'C16', 'C03'],
       (LAB, 'Lab.__init__', _STORAGE_OLD, "        self._storage = _build_storage(storage)\n"),
       (LAB, None, "class TaskState:", "def _build_storage(storage):\n    if isinstance(storage, str) or isinstance(storage, Path):\n        return LocalStorage(storage)\n    if storage is None:\n        return NullStorage()\n    return storage\n\n\nclass TaskState:"))
fire('g-relay-accumulator-filters-seen-types', ['C20'], 'C20.WORKLIST-CLOSURE',
     (DIAG, 'TaskStructure.build', "                found_tasks += sub_tasks", "                all_sub_tasks += [t for t in sub_tasks if type(t) not in task_structure.task_type_to_rels]"),
     (DIAG, 'TaskStructure.build', "            # Search for sub_tasks in each param/field of the task\n", "            all_sub_tasks = []\n"),
     (DIAG, 'TaskStructure.build', "                # Add the tasks to the list of tasks to work through\n", ""),
     (DIAG, 'TaskStructure.build', "                all_sub_tasks += [t for t in sub_tasks if type(t) not in task_structure.task_type_to_rels]", "                all_sub_tasks += [t for t in sub_tasks if type(t) not in task_structure.task_type_to_rels]\n            found_tasks += all_sub_tasks"))


# round 8: every discovered dependency instance is forwarded to insertion (C03.INSTANCES / deps-forwarded-whole)
fire('r8-deps-forwarded-by-equality-selection', ['C03'], 'C03.INSTANCES',
     (LAB, 'TaskState.process_tasks', "            all_dependencies += dependency_tasks\n",
      "            all_dependencies += [d for d in dependency_tasks if d not in self.pending_tasks]\n"))
fire('r8-deps-forwarded-elementwise-guard', ['C03'], 'C03.INSTANCES',
     (LAB, 'TaskState.process_tasks', "            all_dependencies += dependency_tasks\n",
      "            for d in dependency_tasks:\n                if d in self.pending_tasks:\n                    continue\n                all_dependencies.append(d)\n"))
silent('r8-deps-forwarded-identity-and-emptiness', ['C03', 'C02', 'C06'],
       (LAB, 'TaskState.process_tasks', "            all_dependencies += dependency_tasks\n",
        "            if len(dependency_tasks) > 0:\n                all_dependencies += [d for d in dependency_tasks if d is not None]\n"))


# round 9: a pending-dependency set loses only the finished task (C02); no early release (C10)
fire('r9-failed-task-clears-dependents-pending-set', ['C02'], 'C02.UNBLOCK-ONLY-ON-COMPLETE',
     (LAB, 'TaskState.complete_task', "            self.task_to_pending_dependencies[dependent].remove(task)\n",
      "            if result_meta is None:\n                self.task_to_pending_dependencies[dependent].clear()\n            else:\n                self.task_to_pending_dependencies[dependent].discard(task)\n"))
silent('r9-discard-instead-of-remove', ['C02', 'C10', 'C11'],
       (LAB, 'TaskState.complete_task', "            self.task_to_pending_dependencies[dependent].remove(task)\n",
        "            pending = self.task_to_pending_dependencies[dependent]\n            pending.discard(task)\n"))
fire('r9-failed-task-releases-shared-dependency', ['C10'], 'C10.NO-EARLY-RELEASE',
     (LAB, 'TaskState.complete_task', "            if len(self.task_to_pending_dependents[dependency]) == 0:\n",
      "            if (result_meta is None) or len(self.task_to_pending_dependents[dependency]) == 0:\n"))
