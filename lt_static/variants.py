"""Variant corpus (DESIGN.md Appendix B): must-fire and must-stay-silent edits per property.

Each edit is (path, function-qualname-or-None, old text, new text[, expected occurrence count]).
"""
from .selftest import fire, silent

LAB = 'labtech/lab.py'
PROC = 'labtech/runners/process.py'
SER = 'labtech/runners/serial.py'
BASE = 'labtech/runners/base.py'
TASKS = 'labtech/tasks.py'
CACHE = 'labtech/cache.py'
STOR = 'labtech/storage.py'
SERI = 'labtech/serialization.py'
UTILS = 'labtech/utils.py'
DIAG = 'labtech/diagram.py'

# ------------------------------------------------------------------------------- C17
fire('c17-serial-return-in-release-loop', 'C17', 'C17.BATCH-ALL',
     (SER, 'SerialRunner.remove_results', 'continue', 'return'), note='regression of fix d52ec2c (D5)')
fire('c17-process-return-in-release-loop', 'C17', 'C17.BATCH-ALL',
     (PROC, 'ProcessRunner.remove_results', 'continue', 'return'), note='regression of fix d52ec2c (D5)')
fire('c17-break-in-release-loop', 'C17', 'C17.BATCH-ALL',
     (PROC, 'ProcessRunner.remove_results', 'continue', 'break'))
fire('c17-release-first-only', 'C17', 'C17.BATCH-ALL',
     (SER, 'SerialRunner.remove_results', 'for task in tasks:', 'for task in list(tasks)[:1]:'))
fire('c17-release-never-deletes', 'C17', 'C17.RELEASE-DELETES',
     (SER, 'SerialRunner.remove_results', 'del self.results_map[task]', 'pass'))
fire('c17-release-call-dropped', 'C17', 'C17.RELEASE-CALLED',
     (LAB, 'TaskCoordinator.run', 'runner.remove_results(tasks_with_removable_results)', 'pass'))
fire('c17-release-only-on-success', 'C17', 'C17.RELEASE-CALLED',
     (LAB, 'TaskCoordinator.run', '                runner.remove_results(tasks_with_removable_results)',
      '                if isinstance(res, ResultMeta):\n                    runner.remove_results(tasks_with_removable_results)'))
fire('c17-release-before-capture', 'C17', 'C17.CAPTURE-BEFORE-RELEASE',
     (LAB, 'TaskCoordinator.run',
      """                    if task in tasks:
                        task_results[task] = runner.get_result(task).value
                    tasks_with_removable_results = state.complete_task(task, result_meta=res)
""",
      """                    tasks_with_removable_results = state.complete_task(task, result_meta=res)
                    runner.remove_results(tasks_with_removable_results)
                    if task in tasks:
                        task_results[task] = runner.get_result(task).value
"""))
fire('c17-releasable-empty-set', 'C17', 'C17.RELEASABLE-SET',
     (LAB, 'TaskState.complete_task', 'tasks_with_removable_results.add(dependency)', 'pass'))
fire('c17-releasable-eq-1', 'C17', 'C17.RELEASABLE-SET',
     (LAB, 'TaskState.complete_task', 'if len(self.task_to_pending_dependents[dependency]) == 0:',
      'if len(self.task_to_pending_dependents[dependency]) == 1:'))
fire('c17-releasable-only-on-success', 'C17', 'C17.RELEASABLE-SET',
     (LAB, 'TaskState.complete_task',
      """        for dependency in self.task_to_direct_dependencies[task]:
            self.task_to_pending_dependents[dependency].remove(task)
            if len(self.task_to_pending_dependents[dependency]) == 0:
                tasks_with_removable_results.add(dependency)
""",
      """        if result_meta is not None:
            for dependency in self.task_to_direct_dependencies[task]:
                self.task_to_pending_dependents[dependency].remove(task)
                if len(self.task_to_pending_dependents[dependency]) == 0:
                    tasks_with_removable_results.add(dependency)
"""))
fire('c17-self-never-released', 'C17', 'C17.RELEASABLE-SET',
     (LAB, 'TaskState.complete_task', 'tasks_with_removable_results.add(task)', 'pass'))
fire('c17-self-always-released', 'C17', 'C17.RELEASABLE-SET',
     (LAB, 'TaskState.complete_task', 'if len(self.task_to_pending_dependents[task]) == 0:', 'if True:'))
fire('c17-dependents-removed-at-start', 'C17', 'C17.DEPENDENTS-BOOK',
     (LAB, 'TaskState.start_task', 'self.pending_tasks.remove(task)',
      'self.pending_tasks.remove(task)\n        self.task_to_pending_dependents[task].clear()'))
silent('c17-not-emptiness', 'C17',
       (LAB, 'TaskState.complete_task', 'if len(self.task_to_pending_dependents[dependency]) == 0:',
        'if not self.task_to_pending_dependents[dependency]:'))
silent('c17-nested-if-instead-of-continue', 'C17',
       (SER, 'SerialRunner.remove_results',
        """            if task not in self.results_map:
                continue
            logger.debug(f"Removing result from in-memory cache for task: '{task}'")
            del self.results_map[task]
""",
        """            if task in self.results_map:
                logger.debug(f"Removing result from in-memory cache for task: '{task}'")
                del self.results_map[task]
"""))
silent('c17-pop-with-default', 'C17',
       (PROC, 'ProcessRunner.remove_results',
        """            if task not in self.results_map:
                continue
            logger.debug(f"Removing result from in-memory cache for task: '{task}'")
            del self.results_map[task]
""",
        """            self.results_map.pop(task, None)
"""))
silent('c17-rename-locals', 'C17',
       (LAB, 'TaskState.complete_task', 'tasks_with_removable_results', 'releasable', 4),
       (LAB, 'TaskState.complete_task', 'dependency', 'dep', 0))

# ------------------------------------------------------------------------------- C18
fire('c18-filename-check-removed', 'C18', 'C18.GUARDED-FILE',
     (STOR, 'LocalStorage.file_handle', 'if file_path.parent != key_path:', 'if False:'))
fire('c18-filename-unresolved', 'C18', ['C18.GUARDED-FILE', 'C18.SINKS'],
     (STOR, 'LocalStorage.file_handle', 'file_path = (key_path / filename).resolve()', 'file_path = key_path / filename'))
fire('c18-delete-raw-key', 'C18', 'C18.SINKS',
     (STOR, 'LocalStorage.delete', 'key_path = self._key_to_path(key)', 'key_path = self._storage_path / key'))
fire('c18-exists-raw-key', 'C18', 'C18.SINKS',
     (STOR, 'LocalStorage.exists', 'key_path = self._key_to_path(key)', 'key_path = Path(self._storage_path, key)'))
fire('c18-validator-resolve-dropped', 'C18', 'C18.VALIDATOR-SHAPE',
     (STOR, 'validate_file_path_key', 'key_path = (storage_path / key).resolve()', 'key_path = (storage_path / key)'))
fire('c18-validator-dot-allowed', 'C18', 'C18.VALIDATOR-SHAPE',
     (STOR, 'validate_file_path_key', "['.', '/', '\\\\', os.path.sep, os.path.altsep]", "['/', '\\\\', os.path.sep, os.path.altsep]"))
fire('c18-validator-empty-allowed', 'C18', 'C18.VALIDATOR-SHAPE',
     (STOR, 'validate_file_path_key', 'if not key:', 'if key is None:'))
fire('c18-validator-break-after-first-char', 'C18', 'C18.VALIDATOR-SHAPE',
     (STOR, 'validate_file_path_key', "        if char is not None and char in key: # altsep can be None",
      "        if char is None:\n            break\n        if char in key:"))
fire('c18-validator-parent-check-dropped', 'C18', 'C18.VALIDATOR-SHAPE',
     (STOR, 'validate_file_path_key', 'if key_path.parent != storage_path.resolve():', 'if False:'))
fire('c18-key-to-path-skips-validation', 'C18', ['C18.KEY-TO-PATH', 'C18.SINKS'],
     (STOR, 'LocalStorage._key_to_path', 'validate_file_path_key(key, storage_path=self._storage_path)',
      "if '/' in key:\n            validate_file_path_key(key, storage_path=self._storage_path)"))
fire('c18-rmtree-root', 'C18', 'C18.SINKS',
     (STOR, 'LocalStorage.delete', 'shutil.rmtree(key_path)', 'shutil.rmtree(key_path.parent)'))
fire('c18-open-raw-filename', 'C18', 'C18.SINKS',
     (STOR, 'LocalStorage.file_handle', 'return file_path.open(mode=mode)', 'return open(filename, mode=mode)'))
silent('c18-guard-operands-swapped', 'C18',
       (STOR, 'LocalStorage.file_handle', 'if file_path.parent != key_path:', 'if not (key_path == file_path.parent):'))
silent('c18-validator-inline-key-path', 'C18',
       (STOR, 'validate_file_path_key',
        """    key_path = (storage_path / key).resolve()
    if key_path.parent != storage_path.resolve():""",
        """    if (storage_path / key).resolve().parent != storage_path.resolve():"""))
silent('c18-delete-inline', 'C18',
       (STOR, 'LocalStorage.delete',
        """        key_path = self._key_to_path(key)
        if key_path.exists():
            shutil.rmtree(key_path)""",
        """        if self._key_to_path(key).exists():
            shutil.rmtree(self._key_to_path(key))"""))

# ------------------------------------------------------------------------------- C01
fire('c01-iterate-results', 'C01', 'C01.ORDERKEYS',
     (LAB, 'Lab.run_tasks', 'for task in tasks if task in results}', 'for task in results}'))
fire('c01-iterate-set', 'C01', 'C01.ORDERKEYS',
     (LAB, 'Lab.run_tasks', 'for task in tasks if task in results}', 'for task in set(tasks) if task in results}'))
fire('c01-filter-by-value', 'C01', 'C01.ORDERKEYS',
     (LAB, 'Lab.run_tasks', 'if task in results}', 'if results.get(task) is not None}'))
fire('c01-capture-narrowed', 'C01', 'C01.CAPTURE',
     (LAB, 'TaskCoordinator.run', 'if task in tasks:', 'if task in tasks and res.duration is not None:'))
fire('c01-capture-wrong-task', 'C01', 'C01.CAPTURE',
     (LAB, 'TaskCoordinator.run', 'task_results[task] = runner.get_result(task).value', 'task_results[task] = runner.get_result(tasks[0]).value'))
fire('c01-other-dict-returned', 'C01', 'C01.CAPTURE',
     (LAB, 'TaskCoordinator.run', 'return task_results', 'return dict()'))
fire('c01-serial-store-wrong-key', 'C01', ['C01.RUNNER-KEYING', 'C02.RESULT-BEFORE-YIELD'],
     (SER, 'SerialRunner.wait', 'self.results_map[task] = task_result', 'self.results_map[task_submission] = task_result'))
fire('c01-future-registered-for-other-task', 'C01', 'C01.RUNNER-KEYING',
     (PROC, 'ProcessRunner.submit_task', 'self.future_to_task[future] = task', 'self.future_to_task[future] = task_name'))
fire('c01-result-read-other-key', ['C01', 'C02'], 'C02.FAILED-DEP-RAISES',
     (TASKS, '_task_result', 'return self._results_map[self].value', 'return next(iter(self._results_map.values())).value'))
fire('c01-map-not-attached', 'C01', 'C01.DEP-MAP-ATTACH',
     (SER, 'SerialRunner.wait', 'dependency_task._set_results_map(self.results_map)', 'pass'))
fire('c01-map-attached-to-first-only', 'C01', 'C01.DEP-MAP-ATTACH',
     (PROC, 'ProcessRunner._subprocess_func', 'dependency_task._set_results_map(results_map)',
      'dependency_task._set_results_map(results_map)\n                break'))
fire('c01-spawn-map-foreign', 'C01', 'C01.DEP-MAP-ATTACH',
     (PROC, 'SpawnProcessRunner._submit_task', 'dependency_task: self.results_map[dependency_task]', 'dependency_task: None'))
silent('c01-explicit-loop-instead-of-comprehension-guard', 'C01',
       (LAB, 'TaskCoordinator.run', 'if task in tasks:\n                        task_results[task] = runner.get_result(task).value',
        'task_results[task] = runner.get_result(task).value'), note='unguarded capture keeps extra entries that run_tasks drops')
silent('c01-capture-after-complete', ['C01', 'C17'],
       (LAB, 'TaskCoordinator.run',
        """                    if task in tasks:
                        task_results[task] = runner.get_result(task).value
                    tasks_with_removable_results = state.complete_task(task, result_meta=res)
""",
        """                    tasks_with_removable_results = state.complete_task(task, result_meta=res)
                    if task in tasks:
                        task_results[task] = runner.get_result(task).value
"""))

# ------------------------------------------------------------------------------- C02
fire('c02-ready-gate-dropped', 'C02', 'C02.READY-GATE',
     (LAB, 'TaskState.get_ready_tasks', 'if len(self.task_to_pending_dependencies.get(task, set())) > 0:', 'if False:'))
fire('c02-ready-gate-gt-1', 'C02', 'C02.READY-GATE',
     (LAB, 'TaskState.get_ready_tasks', 'get(task, set())) > 0:', 'get(task, set())) > 1:'))
fire('c02-dict-values-not-searched', 'C02', 'C02.DISCOVER-TABLE',
     (TASKS, 'find_tasks_in_param', 'elif isinstance(param_value, dict) or isinstance(param_value, frozendict):', 'elif isinstance(param_value, dict):'))
fire('c02-tuple-not-searched', 'C02', 'C02.DISCOVER-TABLE',
     (TASKS, 'find_tasks_in_param', 'elif isinstance(param_value, list) or isinstance(param_value, tuple):', 'elif isinstance(param_value, list):'))
fire('c02-first-field-only', 'C02', 'C02.DISCOVER-TABLE',
     (TASKS, 'get_direct_dependencies', 'for field in fields(task):', 'for field in fields(task)[:1]:'))
fire('c02-first-item-only', 'C02', 'C02.DISCOVER-TABLE',
     (TASKS, 'find_tasks_in_param', 'for item in param_value\n', 'for item in param_value[:1]\n'))
fire('c02-unblock-at-start', 'C02', 'C02.UNBLOCK-ONLY-ON-COMPLETE',
     (LAB, 'TaskState.start_task', 'self.pending_tasks.remove(task)',
      'self.pending_tasks.remove(task)\n        for dependent in self.task_to_pending_dependents[task]:\n            self.task_to_pending_dependencies[dependent].discard(task)'))
fire('c02-edge-not-registered', 'C02', 'C02.EDGES',
     (LAB, 'TaskState.insert_task', 'self.task_to_pending_dependencies[task].add(dependency)', 'pass'))
fire('c02-dependents-edge-not-registered', 'C02', ['C02.EDGES'],
     (LAB, 'TaskState.insert_task', 'self.task_to_pending_dependents[dependency].add(task)', 'pass'))
fire('c02-deps-not-reprocessed', 'C02', 'C02.EDGES',
     (LAB, 'TaskState.process_tasks', 'all_dependencies += dependency_tasks', 'pass'))
fire('c02-results-map-rebound', 'C02', 'C02.ALIAS',
     (PROC, 'ProcessRunner.remove_results', "del self.results_map[task]", "self.results_map = {t: r for t, r in self.results_map.items() if t != task}"))
fire('c02-result-default-instead-of-raise', 'C02', 'C02.FAILED-DEP-RAISES',
     (TASKS, '_task_result', """    if self not in self._results_map:
        raise TaskError(f"Result for task '{self}' is not available in memory")
    return self._results_map[self].value""",
      """    entry = self._results_map.get(self)
    return entry.value if entry is not None else None"""))
fire('c02-yield-before-run', 'C02', ['C02.YIELD-AFTER-FINISH', 'C02.RESULT-BEFORE-YIELD'],
     (SER, 'SerialRunner.wait', """        else:
            self.results_map[task] = task_result
            yield (task, task_result.meta)""",
      """        else:
            yield (task, task_result.meta)
            self.results_map[task] = task_result"""))
fire('c02-submit-not-from-ready', 'C02', 'SUBMIT-FROM-READY',
     (LAB, 'TaskCoordinator.run', 'for task in ready_tasks:', 'for task in list(state.pending_tasks):'))
silent('c02-not-emptiness', ['C02', 'C04', 'C05'],
       (LAB, 'TaskState.get_ready_tasks', 'if len(self.task_to_pending_dependencies.get(task, set())) > 0:',
        'if self.task_to_pending_dependencies.get(task, set()):'))
silent('c02-nested-if-ready', ['C02', 'C04', 'C05'],
       (LAB, 'TaskState.get_ready_tasks',
        """            if len(self.task_to_pending_dependencies.get(task, set())) > 0:
                continue
            if (task._lt.max_parallel is not None) and (task_type_counts[type(task)] >= task._lt.max_parallel):
                continue
            task_type_counts[type(task)] += 1
            ready_tasks.append(task)""",
        """            if not self.task_to_pending_dependencies[task]:
                if task._lt.max_parallel is None or task._lt.max_parallel > task_type_counts[type(task)]:
                    ready_tasks.append(task)
                    task_type_counts[type(task)] += 1"""))
silent('c02-explicit-loop-in-search', ['C02', 'C15'],
       (TASKS, 'get_direct_dependencies', 'dependency_tasks: OrderedSet[Task] = OrderedSet()', 'dependency_tasks: OrderedSet[Task] = OrderedSet()  # collected below'))

# ------------------------------------------------------------------------------- C03
fire('c03-expand-regardless-of-cache', 'C03', 'C03.NO-EXPAND-CACHED',
     (LAB, 'TaskState.process_tasks', 'if not self.coordinator.use_cache(task):', 'if True:'))
fire('c03-submit-use-cache-false', 'C03', 'C03.PREDICATE-AGREE',
     (LAB, 'TaskCoordinator.run', 'use_cache=self.use_cache(task),', 'use_cache=False,'))
fire('c03-submit-is-cached', 'C03', 'C03.PREDICATE-AGREE',
     (LAB, 'TaskCoordinator.run', 'use_cache=self.use_cache(task),', 'use_cache=self.lab.is_cached(task),'))
fire('c03-use-cache-ignores-bust', ['C03', 'C08'], 'C03.USE-CACHE-TRUTH',
     (LAB, 'TaskCoordinator.use_cache', 'return (not self.bust_cache) and self.lab.is_cached(task)', 'return self.lab.is_cached(task)'))
fire('c03-use-cache-or', ['C03', 'C08'], 'C03.USE-CACHE-TRUTH',
     (LAB, 'TaskCoordinator.use_cache', '(not self.bust_cache) and', '(not self.bust_cache) or'))
fire('c03-save-dropped', ['C03', 'C06'], 'C03.LOAD-XOR-EXEC',
     (BASE, 'run_or_load_task', 'task._lt.cache.save(storage, task, task_result)', 'pass'))
fire('c03-load-falls-through', 'C03', 'C03.LOAD-XOR-EXEC',
     (BASE, 'run_or_load_task', '            return task_result\n        else:', '        if True:'))
fire('c03-skip-by-equality', 'C03', 'C03.INSTANCES',
     (LAB, 'TaskState.process_tasks', 'if id(task) in self.processed_task_ids:', 'if task in self.pending_tasks:'))
fire('c03-mark-only-one-instance', 'C03', 'C03.INSTANCES',
     (LAB, 'TaskState.complete_task', """            for task_instance in self.task_to_instances[task]:
                task_instance._set_result_meta(result_meta)""", """            task._set_result_meta(result_meta)"""))
fire('c03-start-task-not-called', 'C03', 'C03.SUBMIT-ONCE',
     (LAB, 'TaskCoordinator.run', 'state.start_task(task)', 'pass'))
fire('c03-pending-readded-on-complete', 'C03', 'C03.SUBMIT-ONCE',
     (LAB, 'TaskState.complete_task', 'self.type_to_active_tasks[type(task)].remove(task)',
      'self.type_to_active_tasks[type(task)].remove(task)\n        if result_meta is None:\n            self.pending_tasks.add(task)'))
silent('c03-use-cache-demorgan', ['C03', 'C08'],
       (LAB, 'TaskCoordinator.use_cache', 'return (not self.bust_cache) and self.lab.is_cached(task)',
        'return not (self.bust_cache or not self.lab.is_cached(task))'))
silent('c03-use-cache-if-form', ['C03', 'C08'],
       (LAB, 'TaskCoordinator.use_cache', 'return (not self.bust_cache) and self.lab.is_cached(task)',
        'if self.bust_cache:\n            return False\n        return self.lab.is_cached(task)'))

# ------------------------------------------------------------------------------- C04 / C05
fire('c04-type-gate-gt', 'C04', 'C04.TYPE-GATE',
     (LAB, 'TaskState.get_ready_tasks', 'task_type_counts[type(task)] >= task._lt.max_parallel', 'task_type_counts[type(task)] > task._lt.max_parallel'))
fire('c04-type-gate-plus-one', 'C04', 'C04.TYPE-GATE',
     (LAB, 'TaskState.get_ready_tasks', '>= task._lt.max_parallel)', '>= task._lt.max_parallel + 1)'))
fire('c04-counter-not-incremented', 'C04', 'C04.TYPE-GATE',
     (LAB, 'TaskState.get_ready_tasks', 'task_type_counts[type(task)] += 1', 'pass'))
fire('c04-counter-not-from-active', 'C04', 'C04.TYPE-GATE',
     (LAB, 'TaskState.get_ready_tasks', 'task_type: len(active_tasks)', 'task_type: 0'))
fire('c04-worker-gate-max-1', 'C04', 'C04.WORKER-GATE',
     (PROC, 'ProcessExecutor._start_processes', 'max(0, self.max_workers - len(self._running_id_to_future_and_process))', 'max(1, self.max_workers - len(self._running_id_to_future_and_process))'))
fire('c04-worker-gate-plus-one', 'C04', 'C04.WORKER-GATE',
     (PROC, 'ProcessExecutor._start_processes', 'self.max_workers - len(self._running_id_to_future_and_process))', 'self.max_workers - len(self._running_id_to_future_and_process) + 1)'))
fire('c04-slice-removed', 'C04', 'C04.WORKER-GATE',
     (PROC, 'ProcessExecutor._start_processes', '[:start_count]', ''))
fire('c04-unclamped', 'C04', 'C04.WORKER-GATE',
     (PROC, 'ProcessExecutor._start_processes', 'start_count = max(0, self.max_workers - len(self._running_id_to_future_and_process))', 'start_count = self.max_workers - len(self._running_id_to_future_and_process)'))
fire('c04-process-started-in-submit', 'C04', 'C04.WHO-MAY-START',
     (PROC, 'ProcessExecutor.submit', 'self._start_processes()', 'multiprocessing.Process(target=fn).start()'))
fire('c04-default-twice-cpu', 'C04', 'C04.DEFAULT',
     (PROC, 'ProcessExecutor.__init__', 'os.cpu_count() if max_workers is None else max_workers', 'os.cpu_count() * 2 if max_workers is None else max_workers'))
fire('c04-serial-runs-all', 'C04', 'SERIAL-ONE',
     (SER, 'SerialRunner.wait', '        task = task_submission.task\n', '        task = task_submission.task\n        import threading\n        threading.Thread(target=print).start()\n'))
fire('c05-submit-first-only', 'C05', 'C05.SUBMIT-ALL',
     (LAB, 'TaskCoordinator.run', 'for task in ready_tasks:', 'for task in ready_tasks[:1]:'))
fire('c05-break-after-first-submit', 'C05', 'C05.SUBMIT-ALL',
     (LAB, 'TaskCoordinator.run', "                                use_cache=self.use_cache(task),\n                            )", "                                use_cache=self.use_cache(task),\n                            )\n                            break"))
fire('c05-no-topup-in-submit', 'C05', 'C05.TOPUP',
     (PROC, 'ProcessExecutor.submit', 'self._start_processes()', 'pass'))
fire('c05-no-topup-in-wait', 'C05', 'C05.TOPUP',
     (PROC, 'ProcessExecutor.wait', 'self._start_processes()', 'pass'))
fire('c05-start-at-most-one', ['C05', 'C04'], 'C04.WORKER-GATE',
     (PROC, 'ProcessExecutor._start_processes', '[:start_count]', '[:min(1, start_count)]'))
fire('c05-scan-breaks-at-first-blocked', 'C05', 'C05.SCAN-EXACT',
     (LAB, 'TaskState.get_ready_tasks', "get(task, set())) > 0:\n                continue", "get(task, set())) > 0:\n                break"))
fire('c05-serial-pop-newest', ['C05', 'C04'], 'SERIAL-ONE',
     (SER, 'SerialRunner.wait', 'self.task_submissions.popleft()', 'self.task_submissions.pop()'))
silent('c04-operands-swapped', ['C04', 'C05'],
       (LAB, 'TaskState.get_ready_tasks', 'task_type_counts[type(task)] >= task._lt.max_parallel', 'task._lt.max_parallel <= task_type_counts[type(task)]'))
silent('c04-bound-operands-swapped', ['C04', 'C05'],
       (PROC, 'ProcessExecutor._start_processes', 'max(0, self.max_workers - len(self._running_id_to_future_and_process))', 'max(-len(self._running_id_to_future_and_process) + self.max_workers, 0)'))
silent('c04-islice', ['C04', 'C05'],
       (PROC, 'ProcessExecutor._start_processes', 'futures_to_start = list(self._pending_future_to_thunk.keys())[:start_count]',
        'from itertools import islice\n        futures_to_start = list(islice(self._pending_future_to_thunk, start_count))'))
silent('c04-default-if-statement', 'C04',
       (PROC, 'ProcessExecutor.__init__', 'self.max_workers = os.cpu_count() if max_workers is None else max_workers',
        'if max_workers is None:\n            max_workers = os.cpu_count()\n        self.max_workers = max_workers'))
silent('c04-default-negated-test', 'C04',
       (PROC, 'ProcessExecutor.__init__', 'os.cpu_count() if max_workers is None else max_workers', 'max_workers if max_workers is not None else os.cpu_count()'))
silent('c05-logging-added', ['C05', 'C02', 'C03', 'C14'],
       (LAB, 'TaskCoordinator.run', '                            state.start_task(task)', "                            logger.debug(f'Starting {task}')\n                            state.start_task(task)"))
