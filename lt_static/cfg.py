"""E2 - statement-level control-flow graph for one Python function, with exception edges,
finally duplication per exit kind, generator suspension points, dominators and path queries.
"""
from __future__ import annotations

import ast
from dataclasses import dataclass, field
from typing import Iterable, Iterator, Optional

from .model import AnalysisError, walk_local


@dataclass
class Node:
    id: int
    kind: str          # entry exit raise_exit stmt test for iter_eval with_enter with_exit return raise
    #                    except_entry break continue pass_join
    ast: Optional[ast.AST] = None     # the statement, or the test / iter expression
    stmt: Optional[ast.stmt] = None   # enclosing statement
    lineno: int = 0
    in_finally_copy: Optional[str] = None   # which exit kind this finally copy serves

    def __repr__(self) -> str:
        return f'<{self.id}:{self.kind}@{self.lineno}>'


def header_parts(stmt: ast.AST) -> list[ast.AST]:
    """The expressions evaluated by the node that represents `stmt` itself (not its body)."""
    if isinstance(stmt, (ast.If, ast.While)):
        return [stmt.test]
    if isinstance(stmt, (ast.For, ast.AsyncFor)):
        return [stmt.target, stmt.iter]
    if isinstance(stmt, (ast.With, ast.AsyncWith)):
        return list(stmt.items)
    if isinstance(stmt, ast.Try):
        return []
    if isinstance(stmt, ast.ExceptHandler):
        return [stmt.type] if stmt.type is not None else []
    if isinstance(stmt, (ast.FunctionDef, ast.AsyncFunctionDef, ast.ClassDef)):
        return list(stmt.decorator_list)
    if isinstance(stmt, ast.Match):
        return [stmt.subject]
    return [stmt]


def _contains(node: ast.AST, types) -> bool:
    for n in ast.walk(node):
        if isinstance(n, types):
            return True
    return False


def may_raise(parts: Iterable[ast.AST]) -> bool:
    for p in parts:
        for n in ast.walk(p):
            if isinstance(n, (ast.Call, ast.Subscript, ast.Raise, ast.Await, ast.Yield, ast.YieldFrom,
                              ast.Assert, ast.Delete, ast.Import, ast.ImportFrom)):
                return True
            if isinstance(n, ast.BinOp) and isinstance(n.op, (ast.Div, ast.FloorDiv, ast.Mod)):
                return True
    return False


def handler_is_catch_all(h: ast.ExceptHandler) -> bool:
    if h.type is None:
        return True
    names = []
    t = h.type
    elts = t.elts if isinstance(t, ast.Tuple) else [t]
    for e in elts:
        if isinstance(e, ast.Name):
            names.append(e.id)
        elif isinstance(e, ast.Attribute):
            names.append(e.attr)
    return 'BaseException' in names


class _Frame:
    """One level of the exception context."""

    def __init__(self, builder: 'CFGBuilder', handlers: list[int], catch_all: bool,
                 finalbody: Optional[list[ast.stmt]], outer: Optional['_Frame'], loops_at: int):
        self.b = builder
        self.handlers = handlers
        self.catch_all = catch_all
        self.finalbody = finalbody
        self.outer = outer
        self.loops_at = loops_at
        self._exc_finally_entry: Optional[int] = None

    def exc_finally_entry(self) -> int:
        if self._exc_finally_entry is None:
            b = self.b
            join = b._new('pass_join', None, None, 0)
            self._exc_finally_entry = join
            saved = (b.frame, b.loops)
            b.frame = self.outer
            b.loops = b.loops[:self.loops_at]
            dang = b._seq(self.finalbody or [], [(join, 'next')], copy_tag='raise')
            for tgt in b._raise_targets(self.outer):
                for (n, _lab) in dang:
                    # leaving an exceptional finally copy always continues the propagation
                    b._edge(n, tgt, 'exc')
            b.frame, b.loops = saved
        return self._exc_finally_entry


class CFG:

    def __init__(self, fn_node: ast.AST):
        self.fn_node = fn_node
        self.nodes: list[Node] = []
        self.succ: dict[int, list[tuple[int, str]]] = {}
        self.pred: dict[int, list[tuple[int, str]]] = {}
        self.entry = -1
        self.exit = -1
        self.raise_exit = -1
        self._by_stmt: dict[int, list[int]] = {}
        self._owner: dict[int, list[int]] = {}
        self._with_exit: dict[int, list[int]] = {}
        self._dom: Optional[dict[int, set[int]]] = None
        self._dom_noexc: Optional[dict[int, set[int]]] = None

    # -- lookup ----------------------------------------------------------------------------

    def node(self, i: int) -> Node:
        return self.nodes[i]

    def nodes_of(self, stmt: ast.AST) -> list[int]:
        return list(self._by_stmt.get(id(stmt), []))

    def nodes_containing(self, expr: ast.AST) -> list[int]:
        """CFG nodes whose own (header) expressions contain the given sub-expression."""
        return list(self._owner.get(id(expr), []))

    def with_exit_nodes(self, stmt: ast.AST) -> list[int]:
        return list(self._with_exit.get(id(stmt), []))

    def primary(self, x: ast.AST) -> int:
        """The non-finally-copy node for a statement or sub-expression (first created)."""
        ns = self._by_stmt.get(id(x)) or self._owner.get(id(x))
        if not ns:
            raise AnalysisError(f'no CFG node for construct at line {getattr(x, "lineno", "?")}')
        return ns[0]

    def _index(self) -> None:
        for n in self.nodes:
            if n.ast is None:
                continue
            key_stmt = n.stmt if n.stmt is not None else n.ast
            if n.kind not in ('iter_eval', 'with_exit'):
                self._by_stmt.setdefault(id(key_stmt), []).append(n.id)
            elif n.kind == 'with_exit':
                self._with_exit.setdefault(id(key_stmt), []).append(n.id)
            if n.kind == 'for':
                parts = [n.ast.target] if isinstance(n.ast, (ast.For, ast.AsyncFor)) else []
            elif n.kind == 'iter_eval':
                parts = [n.ast]
            elif n.kind == 'with_exit':
                parts = []
            elif n.kind == 'except_entry':
                parts = header_parts(n.ast)
            elif n.kind in ('test',):
                parts = [n.ast]
            else:
                parts = header_parts(n.ast)
            for p in parts:
                if p is None:
                    continue
                for sub in _walk_no_defs(p):
                    self._owner.setdefault(id(sub), []).append(n.id)

    # -- graph queries -----------------------------------------------------------------------

    def successors(self, i: int, exc: bool = True) -> list[int]:
        return [t for (t, lab) in self.succ.get(i, []) if exc or lab != 'exc']

    def predecessors(self, i: int, exc: bool = True) -> list[int]:
        return [s for (s, lab) in self.pred.get(i, []) if exc or lab != 'exc']

    def reachable(self, starts: Iterable[int], avoid: Iterable[int] = (), exc: bool = True,
                  include_starts: bool = True, avoid_edges: Iterable[tuple[int, int]] = ()) -> set[int]:
        avoid_s = set(avoid)
        avoid_e = set(avoid_edges)
        seen: set[int] = set()
        work = []
        for s in starts:
            if include_starts:
                if s not in avoid_s:
                    work.append(s)
            else:
                for t in self.successors(s, exc):
                    if t not in avoid_s and (s, t) not in avoid_e:
                        work.append(t)
        while work:
            n = work.pop()
            if n in seen:
                continue
            seen.add(n)
            for t in self.successors(n, exc):
                if t not in avoid_s and t not in seen and (n, t) not in avoid_e:
                    work.append(t)
        return seen

    def live_nodes(self) -> set[int]:
        return self.reachable([self.entry])

    def dominators(self, exc: bool = True) -> dict[int, set[int]]:
        cache = self._dom if exc else self._dom_noexc
        if cache is not None:
            return cache
        live = sorted(self.reachable([self.entry], exc=exc))
        allset = set(live)
        dom = {n: set(allset) for n in live}
        dom[self.entry] = {self.entry}
        changed = True
        while changed:
            changed = False
            for n in live:
                if n == self.entry:
                    continue
                ps = [p for p in self.predecessors(n, exc) if p in allset]
                if not ps:
                    new = {n}
                else:
                    new = set.intersection(*(dom[p] for p in ps)) | {n}
                if new != dom[n]:
                    dom[n] = new
                    changed = True
        if exc:
            self._dom = dom
        else:
            self._dom_noexc = dom
        return dom

    def dominates(self, a: int, b: int, exc: bool = True) -> bool:
        """Every path entry -> b passes through a (b unreachable counts as dominated)."""
        d = self.dominators(exc)
        if b not in d:
            return True
        return a in d[b]

    def must_pass(self, start: int, via: Iterable[int], targets: Iterable[int], exc: bool = False,
                  include_start: bool = False) -> bool:
        """Every path from start to any target passes through a `via` node."""
        via_s = set(via)
        if include_start and start in via_s:
            return True
        r = self.reachable([start], avoid=via_s, exc=exc, include_starts=False)
        return not (r & set(targets))

    def on_all_paths_to_exit(self, start: int, via: Iterable[int], exc: bool = False) -> bool:
        targets = [self.exit] + ([self.raise_exit] if exc else [])
        return self.must_pass(start, via, targets, exc=exc)

    def stmt_nodes(self) -> Iterator[Node]:
        for n in self.nodes:
            if n.ast is not None:
                yield n

    def loop_body_nodes(self, header: int) -> set[int]:
        """Nodes of the natural loop whose header is the given for/test node (excluding header)."""
        body_starts = [t for (t, lab) in self.succ.get(header, []) if lab in ('loop', 'true')]
        # nodes reachable from the body start without passing the header that can reach the header
        fwd = self.reachable(body_starts, avoid=[header])
        back: set[int] = set()
        work = [p for p in self.predecessors(header) if p in fwd]
        while work:
            n = work.pop()
            if n in back or n not in fwd:
                continue
            back.add(n)
            work.extend(self.predecessors(n))
        return back

    def edge_label(self, a: int, b: int) -> Optional[str]:
        for (t, lab) in self.succ.get(a, []):
            if t == b:
                return lab
        return None

    def dump(self) -> str:
        out = []
        for n in self.nodes:
            s = ''
            if n.ast is not None:
                try:
                    s = ast.unparse(n.ast).split('\n')[0][:70]
                except Exception:
                    s = type(n.ast).__name__
            out.append(f'{n.id:3d} {n.kind:11s} L{n.lineno:<4d} {s!r:75s} -> '
                       + ', '.join(f'{t}:{lab}' for t, lab in self.succ.get(n.id, [])))
        return '\n'.join(out)


def _walk_no_defs(node: ast.AST) -> Iterator[ast.AST]:
    stack = [node]
    while stack:
        n = stack.pop()
        yield n
        if isinstance(n, (ast.FunctionDef, ast.AsyncFunctionDef, ast.ClassDef)) and n is not node:
            continue
        if isinstance(n, (ast.FunctionDef, ast.AsyncFunctionDef, ast.ClassDef)):
            # the def statement's own node covers only decorators
            stack.extend(n.decorator_list)
            continue
        stack.extend(ast.iter_child_nodes(n))


class CFGBuilder:

    def __init__(self, fn_node: ast.AST):
        self.g = CFG(fn_node)
        self.frame: Optional[_Frame] = None
        self.loops: list[dict] = []
        self._copy_tag: Optional[str] = None

    # -- primitives -------------------------------------------------------------------------

    def _new(self, kind: str, a: Optional[ast.AST], stmt: Optional[ast.stmt], lineno: int) -> int:
        n = Node(len(self.g.nodes), kind, a, stmt, lineno, in_finally_copy=self._copy_tag)
        self.g.nodes.append(n)
        self.g.succ[n.id] = []
        self.g.pred[n.id] = []
        return n.id

    def _edge(self, a: int, b: int, label: str) -> None:
        if (b, label) not in self.g.succ[a]:
            self.g.succ[a].append((b, label))
            self.g.pred[b].append((a, label))

    def _connect(self, dangling: list[tuple[int, str]], target: int) -> None:
        for (n, lab) in dangling:
            self._edge(n, target, lab)

    def _raise_targets(self, frame: Optional[_Frame]) -> list[int]:
        targets: list[int] = []
        f = frame
        while f is not None:
            targets.extend(f.handlers)
            if f.handlers and f.catch_all:
                return targets
            if f.finalbody is not None:
                targets.append(f.exc_finally_entry())
                return targets
            f = f.outer
        targets.append(self.g.raise_exit)
        return targets

    def _add_exc_edges(self, n: int) -> None:
        for t in self._raise_targets(self.frame):
            self._edge(n, t, 'exc')

    # -- construction -------------------------------------------------------------------------

    def build(self) -> CFG:
        g = self.g
        g.entry = self._new('entry', None, None, getattr(g.fn_node, 'lineno', 0))
        g.exit = self._new('exit', None, None, 0)
        g.raise_exit = self._new('raise_exit', None, None, 0)
        body = g.fn_node.body if hasattr(g.fn_node, 'body') else []
        dang = self._seq(body, [(g.entry, 'next')])
        self._connect(dang, g.exit)
        g._index()
        return g

    def _seq(self, stmts: list[ast.stmt], dangling: list[tuple[int, str]],
             copy_tag: Optional[str] = None) -> list[tuple[int, str]]:
        saved_tag = self._copy_tag
        if copy_tag is not None:
            self._copy_tag = copy_tag
        try:
            for s in stmts:
                if not dangling:
                    # unreachable code: still build it (so lookups work) from a detached start
                    dangling = []
                dangling = self._stmt(s, dangling)
            return dangling
        finally:
            self._copy_tag = saved_tag

    def _through_finallys(self, dangling: list[tuple[int, str]], upto_loops: Optional[int],
                          tag: str) -> list[tuple[int, str]]:
        """Route an abrupt exit (return/break/continue) through the enclosing finally bodies.
        upto_loops: for break/continue, only the finallys entered inside the current loop."""
        f = self.frame
        saved = (self.frame, self.loops)
        try:
            while f is not None:
                if upto_loops is not None and f.loops_at < upto_loops:
                    break
                if f.finalbody is not None:
                    self.frame = f.outer
                    self.loops = saved[1][:f.loops_at]
                    dangling = self._seq(f.finalbody, dangling, copy_tag=tag)
                f = f.outer
        finally:
            self.frame, self.loops = saved
        return dangling

    def _stmt(self, s: ast.stmt, dangling: list[tuple[int, str]]) -> list[tuple[int, str]]:
        ln = getattr(s, 'lineno', 0)
        if isinstance(s, ast.If):
            t = self._new('test', s.test, s, ln)
            self._connect(dangling, t)
            if may_raise([s.test]):
                self._add_exc_edges(t)
            const = _const_truth(s.test)
            d_true = self._seq(s.body, [(t, 'true')] if const is not False else [])
            d_false = self._seq(s.orelse, [(t, 'false')] if const is not True else []) if s.orelse \
                else ([(t, 'false')] if const is not True else [])
            return d_true + d_false
        if isinstance(s, ast.While):
            t = self._new('test', s.test, s, ln)
            self._connect(dangling, t)
            if may_raise([s.test]):
                self._add_exc_edges(t)
            const = _const_truth(s.test)
            loop = {'head': t, 'breaks': [], 'depth': len(self.loops)}
            self.loops.append(loop)
            d_body = self._seq(s.body, [(t, 'true')] if const is not False else [])
            self.loops.pop()
            for (n, lab) in d_body:
                self._edge(n, t, 'back' if lab == 'next' else lab)
            d_false = [(t, 'false')] if const is not True else []
            d_else = self._seq(s.orelse, d_false) if s.orelse else d_false
            return d_else + loop['breaks']
        if isinstance(s, (ast.For, ast.AsyncFor)):
            it = self._new('iter_eval', s.iter, s, ln)
            self._connect(dangling, it)
            if may_raise([s.iter]):
                self._add_exc_edges(it)
            h = self._new('for', s, s, ln)
            self._edge(it, h, 'next')
            # advancing the iterator may raise (generators)
            self._add_exc_edges(h)
            loop = {'head': h, 'breaks': [], 'depth': len(self.loops)}
            self.loops.append(loop)
            d_body = self._seq(s.body, [(h, 'loop')])
            self.loops.pop()
            for (n, lab) in d_body:
                self._edge(n, h, 'back' if lab == 'next' else lab)
            d_done = [(h, 'done')]
            d_else = self._seq(s.orelse, d_done) if s.orelse else d_done
            return d_else + loop['breaks']
        if isinstance(s, (ast.With, ast.AsyncWith)):
            w = self._new('with_enter', s, s, ln)
            self._connect(dangling, w)
            self._add_exc_edges(w)
            d = self._seq(s.body, [(w, 'next')])
            x = self._new('with_exit', s, s, getattr(s, 'end_lineno', ln) or ln)
            self._connect(d, x)
            self._add_exc_edges(x)
            return [(x, 'next')]
        if isinstance(s, ast.Try):
            return self._try(s, dangling)
        if isinstance(s, ast.Return):
            r = self._new('return', s, s, ln)
            self._connect(dangling, r)
            if s.value is not None and may_raise([s.value]):
                self._add_exc_edges(r)
            d = self._through_finallys([(r, 'return')], None, 'return')
            self._connect([(n, 'return' if lab == 'next' else lab) for (n, lab) in d], self.g.exit)
            return []
        if isinstance(s, ast.Raise):
            r = self._new('raise', s, s, ln)
            self._connect(dangling, r)
            self._add_exc_edges(r)
            return []
        if isinstance(s, ast.Break):
            b = self._new('break', s, s, ln)
            self._connect(dangling, b)
            if not self.loops:
                raise AnalysisError(f'break outside loop at line {ln}')
            loop = self.loops[-1]
            d = self._through_finallys([(b, 'break')], loop['depth'] + 1, 'break')
            loop['breaks'].extend((n, 'break' if lab == 'next' else lab) for (n, lab) in d)
            return []
        if isinstance(s, ast.Continue):
            c = self._new('continue', s, s, ln)
            self._connect(dangling, c)
            if not self.loops:
                raise AnalysisError(f'continue outside loop at line {ln}')
            loop = self.loops[-1]
            d = self._through_finallys([(c, 'continue')], loop['depth'] + 1, 'continue')
            for (n, lab) in d:
                self._edge(n, loop['head'], 'continue' if lab == 'next' else lab)
            return []
        if isinstance(s, ast.Match):
            m = self._new('stmt', s, s, ln)
            self._connect(dangling, m)
            self._add_exc_edges(m)
            out: list[tuple[int, str]] = [(m, 'next')]
            for case in s.cases:
                out += self._seq(case.body, [(m, 'case')])
            return out
        # simple statement (including nested def/class, which are just bindings)
        n = self._new('stmt', s, s, ln)
        self._connect(dangling, n)
        if may_raise(header_parts(s)):
            self._add_exc_edges(n)
        return [(n, 'next')]

    def _try(self, s: ast.Try, dangling: list[tuple[int, str]]) -> list[tuple[int, str]]:
        finalbody = s.finalbody if s.finalbody else None
        outer = self.frame
        loops_at = len(self.loops)
        # handler entry nodes first, so that body statements can point at them
        h_entries = []
        for h in s.handlers:
            he = self._new('except_entry', h, None, h.lineno)
            h_entries.append(he)
        catch_all = any(handler_is_catch_all(h) for h in s.handlers)
        # frame for handler/else bodies: only the finally (if any)
        fin_frame = _Frame(self, [], False, finalbody, outer, loops_at) if finalbody is not None else outer
        body_frame = _Frame(self, h_entries, catch_all, finalbody, outer, loops_at)
        # anchor node so that an empty dangling list still yields a placed try
        self.frame = body_frame
        d_body = self._seq(s.body, dangling)
        self.frame = fin_frame
        d_else = self._seq(s.orelse, d_body) if s.orelse else d_body
        d_handlers: list[tuple[int, str]] = []
        for h, he in zip(s.handlers, h_entries):
            d_handlers += self._seq(h.body, [(he, 'next')])
        self.frame = outer
        d_all = d_else + d_handlers
        if finalbody is not None:
            d_all = self._seq(finalbody, d_all, copy_tag='normal')
        return d_all


def _const_truth(test: ast.expr) -> Optional[bool]:
    if isinstance(test, ast.Constant):
        return bool(test.value)
    return None


_CACHE: dict[int, CFG] = {}


def build_cfg(fn_node: ast.AST) -> CFG:
    key = id(fn_node)
    g = _CACHE.get(key)
    if g is None or g.fn_node is not fn_node:
        g = CFGBuilder(fn_node).build()
        _CACHE[key] = g
    return g


def clear_cache() -> None:
    _CACHE.clear()
