"""Rules over cache.py / storage.py (and their callers): writer/reader agreement, rollback cover,
commit point, ownership of storage effects, inert null objects, storage siblings, load guards.
Serves C06, C08, C09, C12, C13, C14."""
from __future__ import annotations

import ast
from typing import Optional

from .. import roles
from ..cfg import handler_is_catch_all
from ..dataflow import expand_locals
from ..engine import (Ctx, calls_in, cond_from_entry, cond_in_loop, early_exits, field_writes, formula_of, kwarg,
                      loop_region, memo_decorators, rule, same_expr, strip_order_preserving)
from ..formula import TRUE, canon, equivalent, f_not, implies, show
from ..model import PKG, AnalysisError, FuncInfo, dotted, src, walk_local
from .runners import _handler_always_raises


def base_cache(ctx: Ctx):
    return ctx.P.cls('cache.BaseCache')


def storage_calls(ctx: Ctx, fn: FuncInfo, names=('exists', 'file_handle', 'delete', 'find_keys')):
    """Calls in fn that resolve to a Storage interface method."""
    out = []
    for call in calls_in(fn.node):
        if isinstance(call.func, ast.Attribute) and call.func.attr in names:
            cs = ctx.P.resolve_call(call, fn, by_name=False)
            if any(q.startswith(f'{PKG}.storage.') or q.startswith(f'{PKG}.types.Storage') for q in cs):
                out.append(call)
    return out


def _mode_of(call: ast.Call) -> Optional[str]:
    m = kwarg(call, 'mode', 2)
    if m is None:
        return 'r'
    if isinstance(m, ast.Constant) and isinstance(m.value, str):
        return m.value
    return None


def cache_methods(ctx: Ctx) -> list[FuncInfo]:
    out = []
    for c in ctx.P.subclasses(roles.CACHE):
        for m in c.methods.values():
            out.append(m)
    return sorted(out, key=lambda f: f.qualname)


@rule('C06.KEY-PROV', ['C06', 'C08'], min_instances=6)
def key_prov(ctx: Ctx):
    """Every storage access of a cache uses task.cache_key of the method's own task parameter (or the
    key parameter of the load-by-key methods)."""
    for m in cache_methods(ctx):
        params = [a.arg for a in m.params]
        for call in storage_calls(ctx, m, ('exists', 'file_handle', 'delete')):
            k = kwarg(call, 'key', 0)
            ok = False
            if isinstance(k, ast.Attribute) and k.attr == 'cache_key' and isinstance(k.value, ast.Name) \
                    and k.value.id in params and ctx.rd(m).single_def(ctx.cfg(m).primary(call), k.value.id) == ctx.cfg(m).entry:
                ok = True
            elif isinstance(k, ast.Name) and k.id in params and k.id == 'key' \
                    and ctx.rd(m).single_def(ctx.cfg(m).primary(call), 'key') == ctx.cfg(m).entry:
                ok = True
            yield ctx.ob('C06.KEY-PROV', ok, m, call, f'storage.{call.func.attr} keyed by the task\'s own cache_key',
                         '' if ok else f'`{src(call)[:80]}` uses key `{src(k) if k is not None else "?"}`, not the cache_key of the '
                         'method\'s own task (an entry could be stored under / read from another task\'s key)')
    bc = base_cache(ctx)
    lrm = ctx.P.find_method(bc, 'load_result_with_meta')
    lm = ctx.P.find_method(bc, 'load_metadata')
    for call in calls_in(lrm.node):
        if lm.qualname in ctx.P.resolve_call(call, lrm):
            k = kwarg(call, 'key', 2)
            tt = kwarg(call, 'task_type', 1)
            ok = same_expr(k, ast.parse('task.cache_key', mode='eval').body) and same_expr(tt, ast.parse('type(task)', mode='eval').body)
            yield ctx.ob('C06.KEY-PROV', ok, lrm, call, 'metadata loaded for (type(task), task.cache_key)',
                         '' if ok else f'`{src(call)}` does not load the metadata of the task being loaded')


def _filename_arg(call: ast.Call) -> Optional[ast.AST]:
    return kwarg(call, 'filename', 1)


@rule('C06.FILENAMES', ['C06', 'C01', 'C08'], min_instances=2)
def filenames(ctx: Ctx):
    """Writers and readers of one file use the same class constant; the two files have different names."""
    bc = base_cache(ctx)
    pairs = [('save', 'load_metadata')]
    groups: dict[str, list] = {}
    for c in ctx.P.subclasses(bc.qualname):
        for (wname, rname) in (('save', 'load_metadata'), ('save_result', 'load_result')):
            wm, rm = c.methods.get(wname), c.methods.get(rname)
            if wm is None and rm is None:
                continue
            wm = wm or ctx.P.find_method(c, wname)
            rm = rm or ctx.P.find_method(c, rname)
            if wm is None or rm is None or wm.is_abstract or rm.is_abstract:
                continue
            wf = [_filename_arg(x) for x in storage_calls(ctx, wm, ('file_handle',))]
            rf = [_filename_arg(x) for x in storage_calls(ctx, rm, ('file_handle',))]
            if not wf or not rf:
                yield ctx.ob('C06.FILENAMES', False, wm, wm.node, f'{c.name}.{wname}/{rname} file handles',
                             f'{c.name}.{wname} or .{rname} opens no file through the storage', construct=f'{c.name}:{wname}')
                continue
            ok = all(same_expr(a, wf[0]) for a in wf + rf) and isinstance(wf[0], ast.Attribute)
            # every file the reader may open is (re)written by every save: otherwise a file left by an earlier save in another
            # format / under another name is read back as the current result
            gw, rdw = ctx.cfg(wm), ctx.rd(wm)

            def names_of(e, fnx, at):
                g2, rd2 = ctx.cfg(fnx), ctx.rd(fnx)
                if isinstance(e, ast.Name):
                    out = set()
                    for d in rd2.reaching(at, e.id):
                        dv = rd2.def_value(d, e.id)
                        if dv and dv[0] == 'value':
                            out |= names_of(dv[1], fnx, d)
                        else:
                            out.add('?')
                    return out
                if isinstance(e, ast.IfExp):
                    return names_of(e.body, fnx, at) | names_of(e.orelse, fnx, at)
                return {src(e)} if e is not None else {'?'}
            read_names = set()
            for x in storage_calls(ctx, rm, ('file_handle',)):
                read_names |= names_of(_filename_arg(x), rm, ctx.cfg(rm).primary(x))
            written_always = set()
            for x in storage_calls(ctx, wm, ('file_handle',)):
                ns = names_of(_filename_arg(x), wm, gw.primary(x))
                if len(ns) == 1 and gw.must_pass(gw.entry, [gw.primary(x)], [gw.exit], exc=False):
                    written_always |= ns
            stale = sorted(read_names - written_always)
            ok2 = not stale
            yield ctx.ob('C06.FILENAMES', ok2, rm, rm.node, f'every file {c.name}.{rname} may read is rewritten by every {wname}',
                         '' if ok2 else f'{c.name}.{rname} may read {stale}, which {c.name}.{wname} does not write on every path: a file left by an '
                         'earlier save (another format, another size class) is read back as the current result', construct=f'{c.name}:{wname}/{rname}:stale')
            yield ctx.ob('C06.FILENAMES', ok, rm, rm.node, f'{c.name}.{wname} and .{rname} use the same file name constant',
                         '' if ok else f'{c.name}.{wname} writes `{src(wf[0])}` but .{rname} reads `{src(rf[0])}`',
                         construct=f'{c.name}:{wname}/{rname}')
            groups.setdefault(c.qualname, []).append(wf[0])
    # metadata and result file names differ (constants resolved per class)
    for c in ctx.P.subclasses(bc.qualname):
        if ctx.P.is_abstract_class(c):
            continue
        names = {}
        for const in ('METADATA_FILENAME', 'RESULT_FILENAME'):
            v = ctx.P.class_const(c, const)
            if isinstance(v, ast.Constant):
                names[const] = v.value
        ok = len(names) == 2 and names['METADATA_FILENAME'] != names['RESULT_FILENAME']
        yield ctx.ob('C06.FILENAMES', ok, None, None, f'{c.name}: metadata and result file names differ ({names})',
                     '' if ok else f'{c.name} stores metadata and result under the same or unknown names {names}',
                     construct=f'{c.name}:distinct', path=c.module.path)


def _dict_reads(fn: FuncInfo, var: str) -> dict[str, list[ast.AST]]:
    """Keys read from dict variable `var`: d['k'], d.get('k'), 'k' in d."""
    out: dict[str, list[ast.AST]] = {}
    for n in walk_local(fn.node):
        k = None
        if isinstance(n, ast.Subscript) and isinstance(n.value, ast.Name) and n.value.id == var \
                and isinstance(n.slice, ast.Constant) and isinstance(n.ctx, ast.Load):
            k = n.slice.value
        elif isinstance(n, ast.Call) and isinstance(n.func, ast.Attribute) and n.func.attr == 'get' \
                and isinstance(n.func.value, ast.Name) and n.func.value.id == var and n.args and isinstance(n.args[0], ast.Constant):
            k = n.args[0].value
        elif isinstance(n, ast.Compare) and len(n.ops) == 1 and isinstance(n.ops[0], (ast.In, ast.NotIn)) \
                and isinstance(n.left, ast.Constant) and isinstance(n.comparators[0], ast.Name) and n.comparators[0].id == var:
            k = n.left.value
        if isinstance(k, str):
            out.setdefault(k, []).append(n)
    return out


CODEC_INVERSES = {
    'start_timestamp': ('isoformat', 'fromisoformat'),
    'duration_seconds': ('total_seconds', 'timedelta'),
    'task': ('serialize_task', 'deserialize_task'),
}


def _metadata_writer(ctx: Ctx):
    bc = base_cache(ctx)
    save = ctx.P.find_method(bc, 'save')
    # the dict literal handed to json.dump
    g = ctx.cfg(save)
    rd = ctx.rd(save)
    for call in calls_in(save.node):
        d = dotted(call.func)
        if d in ('json.dump', 'json.dumps') and call.args:
            a = call.args[0]
            lit = expand_locals(g, rd, a, g.primary(call), depth=1)
            if isinstance(lit, ast.Dict):
                return save, call, lit
    raise AnalysisError('BaseCache.save does not json.dump a dict literal (metadata writer not found)')


@rule('C06.META-KEYS', ['C06', 'C09'], min_instances=4)
def meta_keys(ctx: Ctx):
    """Metadata keys read by the load path are written by save; payload keys written are read; each
    (encode, decode) pair comes from the inverse table; ResultMeta(start, duration) derive from the two
    timing keys."""
    bc = base_cache(ctx)
    save, dump_call, lit = _metadata_writer(ctx)
    written = {}
    for k, v in zip(lit.keys, lit.values):
        if isinstance(k, ast.Constant) and isinstance(k.value, str):
            written[k.value] = v
    readers = [ctx.P.find_method(bc, n) for n in ('load_metadata', 'build_result_meta', 'load_task')]
    read: dict[str, list] = {}
    for r in readers:
        if r is None:
            continue
        for k, nodes in _dict_reads(r, 'metadata').items():
            read.setdefault(k, []).extend((r, n) for n in nodes)
    for k, sites in sorted(read.items()):
        ok = k in written
        yield ctx.ob('C06.META-KEYS', ok, sites[0][0], sites[0][1], f'key {k!r} read by the load path is written by save',
                     '' if ok else f'the load path reads metadata[{k!r}] which save never writes', construct=f'read:{k}')
    for k in ('task', 'start_timestamp', 'duration_seconds', 'cache'):
        ok = k in written and k in read
        yield ctx.ob('C06.META-KEYS', ok, save, written.get(k, lit), f'payload key {k!r} written and read back',
                     '' if ok else f'metadata key {k!r} is ' + ('not written by save' if k not in written else 'never read by the load path'),
                     construct=f'payload:{k}')
    # codecs
    g = ctx.cfg(save)
    rd = ctx.rd(save)
    for k, (enc, dec) in CODEC_INVERSES.items():
        if k not in written:
            continue
        wv = written[k]
        # encoder: the value (through local defs) is produced by a call to <enc>
        enc_calls = set()
        stack = [(wv, g.primary(dump_call))]
        seen = 0
        while stack and seen < 20:
            e, at = stack.pop()
            seen += 1
            for n in ast.walk(e):
                if isinstance(n, ast.Call):
                    nm = n.func.attr if isinstance(n.func, ast.Attribute) else (dotted(n.func) or '')
                    enc_calls.add(nm)
                if isinstance(n, ast.Name) and isinstance(n.ctx, ast.Load):
                    for d in rd.reaching(at, n.id):
                        dv = rd.def_value(d, n.id)
                        if dv and dv[0] == 'value' and not (isinstance(dv[1], ast.Constant)):
                            stack.append((dv[1], d))
        enc_ok = enc in enc_calls and not (enc_calls - {enc, 'isoformat', 'total_seconds', 'serialize_task'} and False)
        foreign = [c for c in enc_calls if c in ('timestamp', 'strftime', 'ctime', 'str', 'repr', 'microseconds', 'seconds')]
        # decoder
        dec_ok = False
        for r in readers:
            if r is None:
                continue
            for n in walk_local(r.node):
                if isinstance(n, ast.Call):
                    nm = n.func.attr if isinstance(n.func, ast.Attribute) else (dotted(n.func) or '')
                    uses_key = any(isinstance(x, ast.Subscript) and isinstance(x.slice, ast.Constant) and x.slice.value == k
                                   for x in ast.walk(n))
                    if uses_key and nm.split('.')[-1] == dec:
                        if dec == 'timedelta':
                            dec_ok = any(kw.arg == 'seconds' for kw in n.keywords)
                        else:
                            dec_ok = True
        ok = enc_ok and dec_ok and not foreign
        yield ctx.ob('C06.META-KEYS', ok, save, wv, f'{k}: encoded with {enc}, decoded with {dec}',
                     '' if ok else f'metadata[{k!r}] is encoded through {sorted(enc_calls)} and decoded '
                     f'{"with " + dec if dec_ok else "without " + dec}: not an inverse pair of the codec table '
                     f'(expected {enc} / {dec}); the stored value would not round-trip', construct=f'codec:{k}')
    # ResultMeta arguments
    brm = ctx.P.find_method(bc, 'build_result_meta')
    g2 = ctx.cfg(brm)
    rd2 = ctx.rd(brm)
    for call in calls_in(brm.node):
        if any(q.endswith('types.ResultMeta') for q in ctx.P.resolve_call(call, brm)):
            for (kwn, key) in (('start', 'start_timestamp'), ('duration', 'duration_seconds')):
                a = kwarg(call, kwn)
                ok = False
                if isinstance(a, ast.Name):
                    for d in rd2.reaching(g2.primary(call), a.id):
                        dv = rd2.def_value(d, a.id)
                        if dv and dv[0] == 'value' and any(isinstance(x, ast.Constant) and x.value == key for x in ast.walk(dv[1])):
                            ok = True
                elif a is not None:
                    ok = any(isinstance(x, ast.Constant) and x.value == key for x in ast.walk(a))
                yield ctx.ob('C06.META-KEYS', ok, brm, call, f'ResultMeta.{kwn} derives from metadata[{key!r}]',
                             '' if ok else f'ResultMeta({kwn}=...) does not derive from the stored {key!r}', construct=f'resultmeta:{kwn}')


@rule('C06.CODECS', ['C06', 'C09', 'C07', 'C08'], min_instances=3)
def codecs(ctx: Ctx):
    """json.dump/'w' <-> json.load/'r', pickle.dump/'wb' <-> pickle.load/'rb'; every JSON encoding of the
    serialised task uses the same key-order policy as the one hashed into the cache key."""
    n = 0
    for m in cache_methods(ctx):
        g = ctx.cfg(m)
        rd = ctx.rd(m)
        for call in calls_in(m.node):
            d = dotted(call.func)
            if d not in ('json.dump', 'json.load', 'pickle.dump', 'pickle.load'):
                continue
            n += 1
            fh = call.args[1] if d.endswith('dump') and len(call.args) > 1 else (call.args[0] if d.endswith('load') and call.args else None)
            mode = None
            if isinstance(fh, ast.Name):
                for dn in rd.reaching(g.primary(call), fh.id):
                    dv = rd.def_value(dn, fh.id)
                    src_call = dv[1] if dv and dv[0] in ('value', 'with') else None
                    if isinstance(src_call, ast.Call) and isinstance(src_call.func, ast.Attribute) and src_call.func.attr == 'file_handle':
                        mode = _mode_of(src_call)
            want = {'json.dump': 'w', 'json.load': 'r', 'pickle.dump': 'wb', 'pickle.load': 'rb'}[d]
            ok = mode == want
            yield ctx.ob('C06.CODECS', ok, m, call, f'{d} on a handle opened with mode {want!r}',
                         '' if ok else f'`{src(call)[:60]}` operates on a handle opened with mode {mode!r}, expected {want!r}')
    # writer/reader codec families agree per file
    bc = base_cache(ctx)
    for c in ctx.P.subclasses(bc.qualname):
        for (wname, rname) in (('save', 'load_metadata'), ('save_result', 'load_result')):
            wm, rm = c.methods.get(wname), c.methods.get(rname)
            if wm is None or rm is None or wm.is_abstract or rm.is_abstract:
                continue
            wfam = {dotted(x.func).split('.')[0] for x in calls_in(wm.node) if dotted(x.func) in ('json.dump', 'pickle.dump')}
            rfam = {dotted(x.func).split('.')[0] for x in calls_in(rm.node) if dotted(x.func) in ('json.load', 'pickle.load')}
            ok = len(wfam) == 1 and wfam == rfam
            yield ctx.ob('C06.CODECS', ok, rm, rm.node, f'{c.name}.{wname}/{rname} use the same serialisation family',
                         '' if ok else f'{c.name}.{wname} writes with {sorted(wfam)} but .{rname} reads with {sorted(rfam)}',
                         construct=f'{c.name}:{wname}/{rname}:family')
    # key-order policy agreement between the hashed JSON and the stored JSON
    pol = {}
    for m in cache_methods(ctx):
        for call in calls_in(m.node):
            d = dotted(call.func)
            if d in ('json.dump', 'json.dumps'):
                sk = kwarg(call, 'sort_keys')
                pol[(m, call)] = bool(isinstance(sk, ast.Constant) and sk.value)
    vals = set(pol.values())
    ok = len(vals) <= 1
    anym = next(iter(pol)) if pol else (None, None)
    yield ctx.ob('C06.CODECS', ok, anym[0], anym[1], 'hashed JSON and stored JSON agree on sort_keys',
                 '' if ok else 'the cache key hashes the serialised task with one key order but the metadata stores it with another '
                 '(sort_keys differs): a task reconstructed from the metadata gets a different cache_key than the entry it came from',
                 construct='sort-keys-agree')
    if n < 4:
        raise AnalysisError(f'only {n} json/pickle dump/load calls found in the caches (expected 4)')


@rule('C06.SAVE-WRITES-BOTH', ['C06', 'C12'])
def save_writes_both(ctx: Ctx):
    """BaseCache.save writes the metadata and calls save_result(storage, task, task_result.value) on
    every normal path."""
    bc = base_cache(ctx)
    save = ctx.P.find_method(bc, 'save')
    g = ctx.cfg(save)
    _s, dump_call, _lit = _metadata_writer(ctx)
    sr = [c for c in calls_in(save.node) if isinstance(c.func, ast.Attribute) and c.func.attr == 'save_result']
    ok1 = g.must_pass(g.entry, [g.primary(dump_call)], [g.exit], exc=False)
    yield ctx.ob('C06.SAVE-WRITES-BOTH', ok1, save, dump_call, 'metadata written on every normal path',
                 '' if ok1 else 'save can return normally without writing the metadata')
    ok2 = bool(sr) and g.must_pass(g.entry, [g.primary(sr[0])], [g.exit], exc=False)
    args_ok = False
    if sr:
        a = sr[0].args
        ps = [p.arg for p in save.params if p.arg != save.self_name]
        args_ok = len(a) >= 3 and isinstance(a[0], ast.Name) and a[0].id == ps[0] and isinstance(a[1], ast.Name) and a[1].id == ps[1] \
            and isinstance(a[2], ast.Attribute) and a[2].attr == 'value' and isinstance(a[2].value, ast.Name) and a[2].value.id == ps[2]
    yield ctx.ob('C06.SAVE-WRITES-BOTH', ok2 and args_ok, save, sr[0] if sr else save.node,
                 'save_result(storage, task, task_result.value) on every normal path',
                 '' if ok2 and args_ok else 'save does not always store the result value of the TaskResult it was given')
    # metadata dict: 'task' is the serialisation of the same task; 'cache' is the class qualname
    lit = _lit
    wmap = {k.value: v for k, v in zip(lit.keys, lit.values) if isinstance(k, ast.Constant)}
    tv = wmap.get('task')
    okt = isinstance(tv, ast.Call) and isinstance(tv.func, ast.Attribute) and tv.func.attr == 'serialize_task' \
        and tv.args and isinstance(tv.args[0], ast.Name) and tv.args[0].id == [p.arg for p in save.params if p.arg != save.self_name][1]
    yield ctx.ob('C06.SAVE-WRITES-BOTH', bool(okt), save, tv or lit, "metadata['task'] = serialize_task(task)",
                 '' if okt else "metadata['task'] is not the serialisation of the saved task", construct='meta-task')


@rule('C06.ISCACHED-CHAIN', ['C06', 'C08', 'C12', 'C13', 'C03'])
def iscached_chain(ctx: Ctx):
    """Lab.is_cached(task) -> task._lt.cache.is_cached(self._storage, task) -> storage.exists(task.cache_key)."""
    lab_ic = ctx.P.func('lab.Lab.is_cached')
    rets = [n for n in walk_local(lab_ic.node) if isinstance(n, ast.Return)]
    ok = len(rets) == 1 and isinstance(rets[0].value, ast.Call) \
        and same_expr(rets[0].value.func, ast.parse('task._lt.cache.is_cached', mode='eval').body) \
        and len(rets[0].value.args) == 2 and same_expr(rets[0].value.args[0], ast.parse('self._storage', mode='eval').body) \
        and same_expr(rets[0].value.args[1], ast.parse('task', mode='eval').body)
    yield ctx.ob('C06.ISCACHED-CHAIN', ok, lab_ic, rets[0] if rets else lab_ic.node, 'Lab.is_cached delegates to the task\'s cache with the Lab storage',
                 '' if ok else 'Lab.is_cached does not return task._lt.cache.is_cached(self._storage, task)')
    bc = base_cache(ctx)
    ic = ctx.P.find_method(bc, 'is_cached')
    rets = [n for n in walk_local(ic.node) if isinstance(n, ast.Return)]
    ok = len(rets) == 1 and isinstance(rets[0].value, ast.Call) and isinstance(rets[0].value.func, ast.Attribute) \
        and rets[0].value.func.attr == 'exists' and rets[0].value.args \
        and same_expr(rets[0].value.args[0], ast.parse('task.cache_key', mode='eval').body) \
        and same_expr(rets[0].value.func.value, ast.parse('storage', mode='eval').body)
    yield ctx.ob('C06.ISCACHED-CHAIN', ok, ic, rets[0] if rets else ic.node, 'BaseCache.is_cached = storage.exists(task.cache_key)',
                 '' if ok else 'BaseCache.is_cached does not return storage.exists(task.cache_key)')


@rule('C06.LOAD-META', ['C06'])
def load_meta(ctx: Ctx):
    """load_result_with_meta returns TaskResult(value=load_result(storage, task), meta=build_result_meta(
    load_metadata(...)))."""
    bc = base_cache(ctx)
    fn = ctx.P.find_method(bc, 'load_result_with_meta')
    g = ctx.cfg(fn)
    rd = ctx.rd(fn)
    rets = [n for n in walk_local(fn.node) if isinstance(n, ast.Return)]
    ok = False
    if len(rets) == 1 and isinstance(rets[0].value, ast.Call) and any(q.endswith('TaskResult') for q in ctx.P.resolve_call(rets[0].value, fn)):
        call = rets[0].value
        v = expand_locals(g, rd, kwarg(call, 'value', 0), g.primary(rets[0]))
        m = expand_locals(g, rd, kwarg(call, 'meta', 1), g.primary(rets[0]))
        okv = isinstance(v, ast.Call) and isinstance(v.func, ast.Attribute) and v.func.attr == 'load_result' \
            and len(v.args) == 2 and same_expr(v.args[0], ast.parse('storage', mode='eval').body) and same_expr(v.args[1], ast.parse('task', mode='eval').body)
        okm = isinstance(m, ast.Call) and isinstance(m.func, ast.Attribute) and m.func.attr == 'build_result_meta' and m.args \
            and isinstance(m.args[0], ast.Call) and isinstance(m.args[0].func, ast.Attribute) and m.args[0].func.attr == 'load_metadata'
        ok = okv and okm
    yield ctx.ob('C06.LOAD-META', ok, fn, rets[0] if rets else fn.node, 'TaskResult(value=load_result(...), meta=build_result_meta(load_metadata(...)))',
                 '' if ok else 'load_result_with_meta does not return the stored value together with the stored metadata')


# ----------------------------------------------------------------------------------------
# C12 / C13


def _effectful_statements(ctx: Ctx, save: FuncInfo) -> list[ast.stmt]:
    """Top-level-or-nested simple statements / with-statements of `save` that have a storage write
    effect in their closure."""
    out = []
    for s in walk_local(save.node):
        if not isinstance(s, ast.stmt) or isinstance(s, (ast.Try, ast.If, ast.For, ast.While, ast.FunctionDef)):
            continue
        hit = False
        parts = list(s.items) if isinstance(s, ast.With) else [s]
        for p in parts:
            for c in ast.walk(p):
                if isinstance(c, ast.Call):
                    nm = c.func.attr if isinstance(c.func, ast.Attribute) else ''
                    d = dotted(c.func) or ''
                    if nm in ('file_handle', 'save_result') or d in ('json.dump', 'pickle.dump') or nm in ('write', 'close'):
                        hit = True
        if isinstance(s, ast.With):
            # a with on a handle closes (flushes) it on exit
            for it in s.items:
                e = it.context_expr
                if isinstance(e, ast.Name) or (isinstance(e, ast.Call) and isinstance(e.func, ast.Attribute) and e.func.attr == 'file_handle'):
                    hit = True
        if hit:
            out.append(s)
    out.sort(key=lambda s: s.lineno)
    return out


@rule('C12.ROLLBACK-COVER', ['C12', 'C13', 'C14', 'C08', 'C10'], min_instances=3)
def rollback_cover(ctx: Ctx):
    """Every storage write effect of a save lies inside a try whose BaseException handler unconditionally
    deletes the same key and re-raises."""
    bc = base_cache(ctx)
    save = ctx.P.find_method(bc, 'save')
    stmts = _effectful_statements(ctx, save)
    if not stmts:
        raise AnalysisError('no storage write effects found in BaseCache.save')
    tries = [t for t in walk_local(save.node) if isinstance(t, ast.Try)]

    def good_handler(t: ast.Try) -> tuple[bool, str]:
        for h in t.handlers:
            if not handler_is_catch_all(h):
                # a narrower clause listed first takes the exception away from the rollback clause (sibling clauses do not
                # see what an earlier one raises): it has to roll back itself
                dels0 = [c for c in storage_calls(ctx, save, ('delete',)) if any(x is c for x in ast.walk(h))]
                g0 = ctx.cfg(save)
                he0 = g0.nodes_of(h)[0]
                if not dels0 or (g0.reachable([he0], avoid=[g0.primary(dels0[0])], exc=False) & {n for n in g0.reachable([he0], exc=False)
                                                                                                      if g0.node(n).kind in ('raise', 'return')}):
                    return False, (f'`except {src(h.type)}` is listed before the rollback clause and leaves without deleting the entry: these '
                                   'exceptions never reach `except BaseException`')
                continue
            dels = [c for c in storage_calls(ctx, save, ('delete',)) if any(x is c for x in ast.walk(h))]
            if not dels:
                return False, 'the catch-all handler does not delete the entry'
            d = dels[0]
            if not same_expr(kwarg(d, 'key', 0), ast.parse('task.cache_key', mode='eval').body):
                return False, f'the handler deletes `{src(kwarg(d, "key", 0))}`, not task.cache_key'
            # unconditional within the handler
            g = ctx.cfg(save)
            he = g.nodes_of(h)[0]
            reach_wo = g.reachable([he], avoid=[g.primary(d)], exc=False)
            leaves = [n for n in reach_wo if g.node(n).kind == 'raise']
            if leaves:
                return False, 'the handler can re-raise without deleting the partial entry (the delete is conditional)'
            if not _handler_always_raises(ctx, save, h):
                return False, 'the handler does not re-raise: a failed save would be reported as success'
            # nothing that can itself fail runs before the delete (a warning turned into an error by -W error, a formatted
            # message touching an unbound name, another storage call): the cleanup would be skipped
            from ..engine import cannot_raise
            dstmt = next((st for st in h.body if any(x is d for x in ast.walk(st))), None)
            for st in h.body:
                if st is dstmt:
                    break
                plain_log = isinstance(st, ast.Expr) and isinstance(st.value, ast.Call) and isinstance(st.value.func, ast.Attribute) \
                    and st.value.func.attr in ('debug', 'info', 'warning', 'error', 'exception') and 'log' in src(st.value.func.value).lower() \
                    and all(isinstance(a, (ast.Constant, ast.Name)) for a in st.value.args)
                if not (cannot_raise(ctx, save, st) or plain_log):
                    return False, (f'`{src(st)[:50]}` runs in the rollback handler before the entry is deleted and can raise itself '
                                   '(warnings as errors, a failing format): the partial entry then stays')
            return True, ''
        widest = [src(h.type) if h.type else 'bare' for h in t.handlers]
        return False, (f'handlers {widest} do not cover BaseException: an interrupt (KeyboardInterrupt/SystemExit) during the save '
                       'leaves the partial entry behind')

    def good_finally(t: ast.Try) -> tuple[bool, str]:
        """The success-flag form: `done = False; try: <writes>; done = True; finally: if not done: storage.delete(key)`.
        Any exception (BaseException included) leaves the try body before the flag is set, the finally block deletes the
        entry and the exception continues to propagate by itself."""
        if not t.finalbody or not t.body:
            return False, 'no finally block'
        last = t.body[-1]
        if not (isinstance(last, ast.Assign) and len(last.targets) == 1 and isinstance(last.targets[0], ast.Name)
                and isinstance(last.value, ast.Constant) and last.value.value is True):
            return False, 'the try body does not end by setting a success flag'
        flag = last.targets[0].id
        other = [n for b in t.body[:-1] for n in ast.walk(b) if isinstance(n, ast.Name) and n.id == flag and isinstance(n.ctx, ast.Store)]
        if other:
            return False, f'the success flag `{flag}` is also assigned earlier in the try body'
        g = ctx.cfg(save)
        rd = ctx.rd(save)
        first = g.primary(t.body[0])
        defs = rd.reaching(first, flag)
        vals = [rd.def_value(d, flag) for d in defs]
        if not vals or not all(v and v[0] == 'value' and isinstance(v[1], ast.Constant) and v[1].value is False for v in vals):
            return False, f'the success flag `{flag}` is not False on entry to the try'
        for h in t.handlers:
            if not _handler_always_raises(ctx, save, h):
                return False, 'a handler of the try swallows the exception'
            if any(isinstance(n, ast.Name) and n.id == flag and isinstance(n.ctx, ast.Store) for n in ast.walk(h)):
                return False, 'a handler assigns the success flag'
        guards = [s for s in t.finalbody if isinstance(s, ast.If) and isinstance(s.test, ast.UnaryOp) and isinstance(s.test.op, ast.Not)
                  and isinstance(s.test.operand, ast.Name) and s.test.operand.id == flag]
        if not guards:
            return False, f'the finally block has no `if not {flag}:` rollback'
        gd = guards[0]
        before = t.finalbody[:t.finalbody.index(gd)]
        if any(isinstance(n, (ast.Return, ast.Raise, ast.Break, ast.Continue)) for b in before for n in ast.walk(b)):
            return False, 'the finally block can leave before the rollback'
        dels = [c for c in storage_calls(ctx, save, ('delete',)) if any(x is c for x in ast.walk(gd))]
        if not dels or not any(s0 is st or any(x is dels[0] for x in ast.walk(st)) for st in gd.body[:1] for s0 in [st]):
            return False, 'the rollback branch does not start by deleting the entry'
        if not same_expr(kwarg(dels[0], 'key', 0), ast.parse('task.cache_key', mode='eval').body):
            return False, f'the rollback deletes `{src(kwarg(dels[0], "key", 0))}`, not task.cache_key'
        if any(isinstance(n, (ast.Return, ast.Break, ast.Continue)) for b in t.finalbody for n in ast.walk(b)):
            return False, 'the finally block swallows the exception (return / break / continue)'
        return True, ''

    for s in stmts:
        covering = [t for t in tries if any(x is s for b in t.body for x in ast.walk(b))]
        if not covering:
            yield ctx.ob('C12.ROLLBACK-COVER', False, save, s, f'write effect `{src(s)[:50]}` covered by the rollback handler',
                         f'`{src(s)[:70]}` has a storage write effect (the key directory is created by the first file_handle) but lies '
                         'outside the try whose handler removes the partial entry')
            continue
        res = [good_handler(t) for t in covering]
        if not any(r[0] for r in res):
            res2 = [good_finally(t) for t in covering if t.finalbody]
            if any(r[0] for r in res2):
                res = res2
        ok = any(r[0] for r in res)
        yield ctx.ob('C12.ROLLBACK-COVER', ok, save, s, f'write effect `{src(s)[:50]}` covered by the rollback handler',
                     '' if ok else res[0][1])
    # overrides of save_result must not swallow
    for c in ctx.P.subclasses(bc.qualname):
        m = c.methods.get('save_result')
        if m is None or m.is_abstract:
            continue
        bad = [h for t in walk_local(m.node) if isinstance(t, ast.Try) for h in t.handlers if not _handler_always_raises(ctx, m, h)]
        yield ctx.ob('C12.ROLLBACK-COVER', not bad, m, bad[0] if bad else m.node, f'{c.name}.save_result propagates failures',
                     '' if not bad else f'{c.name}.save_result swallows an exception: the rollback never runs',
                     construct=f'{c.name}:save_result-propagates')


@rule('C12.HANDLE-CLOSED-IN-SCOPE', ['C12', 'C13', 'C06', 'C08'])
def handle_closed_in_scope(ctx: Ctx):
    """Every storage.file_handle(...) a cache opens is closed by a `with` statement in the same function: buffered data is
    written at close, and only a close inside the save's try block lets a failing flush (disk full, quota, remote store) reach
    the rollback.  A handle that is merely dropped is closed by the object finalizer, which discards the error - the save
    "succeeds" with a truncated file."""
    n = 0
    for m in cache_methods(ctx):
        fhs = storage_calls(ctx, m, ('file_handle',))
        if not fhs:
            continue
        withs = [w for w in walk_local(m.node) if isinstance(w, (ast.With, ast.AsyncWith))]
        for call in fhs:
            n += 1
            ok = any(it.context_expr is call for w in withs for it in w.items)
            if not ok:
                # bound to a name that is then entered: `f = storage.file_handle(...)` ... `with f:`
                for a in walk_local(m.node):
                    if isinstance(a, ast.Assign) and a.value is call and len(a.targets) == 1 and isinstance(a.targets[0], ast.Name):
                        nm = a.targets[0].id
                        ok = any(isinstance(it.context_expr, ast.Name) and it.context_expr.id == nm for w in withs for it in w.items)
            if not ok:
                # `f = storage.file_handle(...)` + `try: ... finally: f.close()` (or contextlib.closing(f) / ExitStack.enter_context(f))
                for a in walk_local(m.node):
                    if isinstance(a, ast.Assign) and a.value is call and len(a.targets) == 1 and isinstance(a.targets[0], ast.Name):
                        nm = a.targets[0].id
                        for t in [t for t in walk_local(m.node) if isinstance(t, ast.Try) and t.finalbody]:
                            closes = [c for st in t.finalbody for c in ast.walk(st) if isinstance(c, ast.Call) and isinstance(c.func, ast.Attribute)
                                      and c.func.attr == 'close' and isinstance(c.func.value, ast.Name) and c.func.value.id == nm]
                            if closes and t.finalbody and any(x is closes[0] for x in ast.walk(t.finalbody[0])):
                                ok = True
                        for c in calls_in(m.node):
                            d = (dotted(c.func) or '').split('.')[-1]
                            if d in ('closing', 'enter_context') and c.args and isinstance(c.args[0], ast.Name) and c.args[0].id == nm:
                                ok = True
                d0 = None
                for c in calls_in(m.node):
                    if (dotted(c.func) or '').split('.')[-1] in ('closing', 'enter_context') and c.args and c.args[0] is call:
                        ok = True
            if not ok:
                # returned to the caller (a helper that opens): the caller is responsible
                ok = any(isinstance(r, ast.Return) and r.value is call for r in walk_local(m.node))
            yield ctx.ob('C12.HANDLE-CLOSED-IN-SCOPE', ok, m, call, f'{src(call)[:50]} closed by a with statement',
                         '' if ok else f'`{src(call)[:70]}` is not entered as a context manager: the file is closed by its finalizer, which swallows '
                         'a failing flush, so a truncated file is left behind and the save reports success')
    if n < 3:
        raise AnalysisError(f'only {n} storage.file_handle() calls found in the cache classes')


@rule('C13.COMMIT-POINT', ['C13'])
def commit_point(ctx: Ctx):
    """Abstract effect trace of a save: the effect that makes is_cached true must come after the last
    payload write, as one atomic publish."""
    bc = base_cache(ctx)
    save = ctx.P.find_method(bc, 'save')
    ic = ctx.P.find_method(bc, 'is_cached')
    # visibility predicate: storage.exists(key); LocalStorage.exists -> key directory exists
    fhs = storage_calls(ctx, save, ('file_handle',))
    trace = []
    for s in _effectful_statements(ctx, save):
        trace.append(src(s).split('\n')[0][:60])
    # does any implementation of Storage.file_handle create the key directory?
    creates = []
    for impl in roles.impls(ctx, roles.STORAGE, 'file_handle'):
        for call in calls_in(impl.node):
            if isinstance(call.func, ast.Attribute) and call.func.attr in ('mkdir', 'mkdirs', 'makedirs'):
                creates.append(impl.short)
    publish = [c for c in calls_in(save.node) if isinstance(c.func, ast.Attribute) and c.func.attr in ('rename', 'replace', 'publish', 'commit')]
    ok = bool(publish) and not creates
    first = fhs[0] if fhs else save.node
    yield ctx.ob('C13.COMMIT-POINT', ok, save, first, 'entry becomes visible only after the payload is complete',
                 '' if ok else f'the first storage.file_handle() of a save creates the key directory ({sorted(set(creates))}) and is_cached is bare '
                 f'directory existence: the entry is visible before a single payload byte is written, and there is no atomic publish step '
                 f'(trace: {trace})', construct='first-visibility=Storage.file_handle')


# ----------------------------------------------------------------------------------------
# C08


@rule('C08.WHO-WRITES-STORAGE', ['C08', 'C12', 'C13', 'C06'], min_instances=4)
def who_writes_storage(ctx: Ctx):
    """Only Cache.save closures open storage files for writing, only Cache.delete (and the save rollback)
    delete, only run_or_load_task's execute branch saves, only Lab.uncache_tasks deletes cache entries."""
    P = ctx.P
    cache_classes = {c.qualname for c in P.subclasses(roles.CACHE)}
    storage_classes = {c.qualname for c in P.subclasses(roles.STORAGE)}
    for fn in P.all_functions():
        top = fn
        while top.parent is not None:
            top = top.parent
        in_storage = top.cls is not None and top.cls.qualname in storage_classes
        if in_storage:
            continue
        for call in storage_calls(ctx, fn, ('file_handle', 'delete')):
            in_cache = top.cls is not None and top.cls.qualname in cache_classes
            if call.func.attr == 'file_handle':
                mode = _mode_of(call)
                writing = mode is None or any(ch in mode for ch in 'wax+')
                if not writing:
                    ok = in_cache
                    where = 'a Cache class'
                else:
                    ok = in_cache and top.name in ('save', 'save_result')
                    where = 'Cache.save / save_result'
                yield ctx.ob('C08.WHO-WRITES-STORAGE', ok, fn, call, f'file_handle(mode={mode!r}) in {fn.short}',
                             '' if ok else f'`{src(call)[:70]}` opens a storage file (mode {mode!r}) outside {where}')
            else:
                ok = in_cache and top.name in ('delete', 'save')
                yield ctx.ob('C08.WHO-WRITES-STORAGE', ok, fn, call, f'storage.delete in {fn.short}',
                             '' if ok else f'`{src(call)[:70]}` deletes a storage entry outside Cache.delete / the save rollback')
    save_impls = {f.qualname for f in roles.impls(ctx, roles.CACHE, 'save')}
    del_impls = {f.qualname for f in roles.impls(ctx, roles.CACHE, 'delete')}
    for fn in P.all_functions():
        for call in calls_in(fn.node):
            if not isinstance(call.func, ast.Attribute) or call.func.attr not in ('save', 'delete'):
                continue
            cs = set(P.resolve_call(call, fn, by_name=False))
            if cs & save_impls:
                ok = fn.qualname == f'{PKG}.runners.base.run_or_load_task'
                yield ctx.ob('C08.WHO-WRITES-STORAGE', ok, fn, call, f'Cache.save called from {fn.short}',
                             '' if ok else 'Cache.save is called from somewhere other than the execute branch of run_or_load_task')
            if cs & del_impls:
                ok = fn.qualname == f'{PKG}.lab.Lab.uncache_tasks'
                yield ctx.ob('C08.WHO-WRITES-STORAGE', ok, fn, call, f'Cache.delete called from {fn.short}',
                             '' if ok else 'Cache.delete is called from somewhere other than Lab.uncache_tasks')


@rule('C08.UNCACHE', ['C08'])
def uncache(ctx: Ctx):
    """Lab.uncache_tasks deletes the entry of every given task (complete loop; an is_cached guard is
    allowed); BaseCache.delete -> storage.delete(task.cache_key)."""
    fn = ctx.P.func('lab.Lab.uncache_tasks')
    sn = fn.self_name
    tparam = [a.arg for a in fn.params if a.arg != sn][0]
    loops = [lp for lp in walk_local(fn.node) if isinstance(lp, ast.For) and isinstance(lp.target, ast.Name)
             and isinstance(strip_order_preserving(lp.iter), ast.Name) and strip_order_preserving(lp.iter).id == tparam]
    if not loops:
        yield ctx.ob('C08.UNCACHE', False, fn, fn.node, 'loop over all tasks', 'uncache_tasks has no loop over all given tasks',
                     construct='no-loop')
        return
    lp = loops[0]
    tv = lp.target.id
    exits = early_exits(lp, allow_raise=False, allow_continue=True)
    yield ctx.ob('C08.UNCACHE', not exits, fn, exits[0] if exits else lp, 'uncache loop has no early exit',
                 '' if not exits else f'`{src(exits[0])}` abandons the remaining tasks: their entries stay cached')
    dels = [c for c in calls_in(lp) if isinstance(c.func, ast.Attribute) and c.func.attr == 'delete'
            and same_expr(c.func.value, ast.parse(f'{tv}._lt.cache', mode='eval').body)]
    if not dels:
        yield ctx.ob('C08.UNCACHE', False, fn, lp, 'cache.delete(storage, task) per task', 'no task._lt.cache.delete(...) in the loop',
                     construct='no-delete')
        return
    d = dels[0]
    args_ok = len(d.args) == 2 and same_expr(d.args[0], ast.parse(f'{sn}._storage', mode='eval').body) \
        and isinstance(d.args[1], ast.Name) and d.args[1].id == tv
    fbn = ctx.fb(fn)
    saved = fbn.inline_bound
    fbn.inline_bound = 0
    try:
        c = cond_in_loop(ctx, fn, lp, d)
        need = fbn.build(ast.parse(f'{sn}.is_cached({tv})', mode='eval').body)
    finally:
        fbn.inline_bound = saved
    ok = c == TRUE or implies(need, c)
    yield ctx.ob('C08.UNCACHE', ok and args_ok, fn, d, 'every cached task reaches cache.delete(self._storage, task)',
                 '' if ok and args_ok else f'delete is reached only when {show(c)} or with the wrong arguments')
    bc = base_cache(ctx)
    dm = ctx.P.find_method(bc, 'delete')
    g = ctx.cfg(dm)
    sd = storage_calls(ctx, dm, ('delete',))
    okd = bool(sd) and same_expr(kwarg(sd[0], 'key', 0), ast.parse('task.cache_key', mode='eval').body) \
        and g.must_pass(g.entry, [g.primary(sd[0])], [g.exit], exc=False)
    yield ctx.ob('C08.UNCACHE', okd, dm, sd[0] if sd else dm.node, 'BaseCache.delete = storage.delete(task.cache_key)',
                 '' if okd else 'BaseCache.delete does not always delete the entry under task.cache_key')


@rule('C08.NULL-INERT', ['C08'], min_instances=8)
def null_inert(ctx: Ctx):
    """NullCache never touches its storage; NullStorage has no filesystem effect except os.devnull;
    cache=None -> NullCache(), storage=None -> NullStorage()."""
    nc = ctx.P.cls('cache.NullCache')
    for m in sorted(nc.methods.values(), key=lambda f: f.node.lineno):
        sp = [a.arg for a in m.params if a.arg == 'storage']
        uses = [n for n in walk_local(m.node) if isinstance(n, ast.Name) and n.id == 'storage' and isinstance(n.ctx, ast.Load)] if sp else []
        yield ctx.ob('C08.NULL-INERT', not uses, m, uses[0] if uses else m.node, f'NullCache.{m.name} ignores its storage',
                     '' if not uses else f'NullCache.{m.name} uses its storage argument: a cache=None task type would persist something')
    ic = nc.methods.get('is_cached')
    if ic is not None:
        rets = [n for n in walk_local(ic.node) if isinstance(n, ast.Return)]
        ok = all(isinstance(r.value, ast.Constant) and r.value.value is False for r in rets) and rets
        yield ctx.ob('C08.NULL-INERT', bool(ok), ic, ic.node, 'NullCache.is_cached is constantly False', '' if ok else
                     'NullCache.is_cached can return something other than False', construct='null-is-cached')
    ns = ctx.P.cls('storage.NullStorage')
    from .c18 import sinks
    for m in sorted(ns.methods.values(), key=lambda f: f.node.lineno):
        bad = []
        for (call, operand, eff, w) in sinks(ctx, m):
            if eff == 'open()' and same_expr(operand, ast.parse('os.devnull', mode='eval').body):
                continue
            bad.append(call)
        yield ctx.ob('C08.NULL-INERT', not bad, m, bad[0] if bad else m.node, f'NullStorage.{m.name} has no filesystem effect',
                     '' if not bad else f'NullStorage.{m.name} touches the filesystem: `{src(bad[0])[:60]}`')
    ex = ns.methods.get('exists')
    if ex is not None:
        rets = [n for n in walk_local(ex.node) if isinstance(n, ast.Return)]
        ok = all(isinstance(r.value, ast.Constant) and r.value.value is False for r in rets) and rets
        yield ctx.ob('C08.NULL-INERT', bool(ok), ex, ex.node, 'NullStorage.exists is constantly False', '' if ok else
                     'NullStorage.exists can report an entry', construct='null-exists')
    # constant flow of the None mappings
    deco = ctx.P.func('tasks.task.<locals>.decorator')
    okc = False
    for n in walk_local(deco.node):
        if isinstance(n, ast.If):
            chain = []
            cur = n
            while isinstance(cur, ast.If):
                chain.append(cur)
                cur = cur.orelse[0] if len(cur.orelse) == 1 and isinstance(cur.orelse[0], ast.If) else None
            for c in chain:
                if equivalent(formula_of(ctx, deco, c.test), formula_of(ctx, deco, 'cache is None')):
                    for s in c.body:
                        if isinstance(s, ast.Assign) and isinstance(s.value, ast.Call) and \
                                any(q.endswith('cache.NullCache') for q in ctx.P.resolve_call(s.value, deco)):
                            okc = True
    yield ctx.ob('C08.NULL-INERT', okc, deco, deco.node, 'cache=None maps to NullCache()', '' if okc else
                 'the task decorator does not map cache=None to NullCache()', construct='none-to-nullcache')
    init = ctx.P.func('lab.Lab.__init__')
    oks = False
    for n in walk_local(init.node):
        if isinstance(n, ast.If):
            cur = n
            while isinstance(cur, ast.If):
                if equivalent(formula_of(ctx, init, cur.test), formula_of(ctx, init, 'storage is None')):
                    for s in cur.body:
                        if isinstance(s, ast.Assign) and isinstance(s.value, ast.Call) and \
                                any(q.endswith('storage.NullStorage') for q in ctx.P.resolve_call(s.value, init)):
                            oks = True
                cur = cur.orelse[0] if len(cur.orelse) == 1 and isinstance(cur.orelse[0], ast.If) else None
    yield ctx.ob('C08.NULL-INERT', oks, init, init.node, 'storage=None maps to NullStorage()', '' if oks else
                 'Lab.__init__ does not map storage=None to NullStorage()', construct='none-to-nullstorage')


def _storage_features(ctx: Ctx, c, mname: str) -> dict:
    m = ctx.P.find_method(c, mname)
    if m is None:
        return {}
    g = ctx.cfg(m)
    # the class's key-to-path helper: its method that calls the key validator
    vq = ctx.P.func('storage.validate_file_path_key').qualname
    wrappers = {mm.name for mm in c.methods.values() if any(vq in ctx.P.resolve_call(x, mm) for x in calls_in(mm.node))}
    k2p = [call for call in calls_in(m.node) if isinstance(call.func, ast.Attribute) and call.func.attr in wrappers]
    feats = {'key_through_validator': bool(k2p) and all(isinstance(kwarg(c2, 'key', 0), ast.Name) and kwarg(c2, 'key', 0).id == 'key' for c2 in k2p)}
    raw_key_uses = [n for n in walk_local(m.node) if isinstance(n, ast.Name) and n.id == 'key' and isinstance(n.ctx, ast.Load)
                    and not any(n is kwarg(c2, 'key', 0) for c2 in k2p)]
    # f-strings in error messages may mention the key: ignore JoinedStr uses
    in_fstr = set()
    for js in [x for x in walk_local(m.node) if isinstance(x, ast.JoinedStr)]:
        for x in ast.walk(js):
            in_fstr.add(id(x))
    # ... and so may the arguments of logging calls
    for lc in [x for x in calls_in(m.node) if isinstance(x.func, ast.Attribute) and x.func.attr in ('debug', 'info', 'warning', 'error', 'exception', 'log')
               and 'log' in src(x.func.value).lower()]:
        for x in ast.walk(lc):
            in_fstr.add(id(x))
    feats['no_raw_key_use'] = not [n for n in raw_key_uses if id(n) not in in_fstr]
    if mname == 'file_handle':
        opens = [call for call in calls_in(m.node) if isinstance(call.func, ast.Attribute) and call.func.attr == 'open']
        mk = [call for call in calls_in(m.node) if isinstance(call.func, ast.Attribute) and call.func.attr in ('mkdir', 'mkdirs')]
        feats['dir_created_before_open'] = bool(opens) and bool(mk) and all(g.dominates(g.primary(mk[0]), g.primary(o)) for o in opens)
        raises = [n for n in walk_local(m.node) if isinstance(n, ast.Raise)]
        guard = False
        facts = ctx.facts(m, exc=False)
        for o in opens:
            f = facts.formula_at(g.primary(o), ctx.fb(m), expand=lambda e, t: expand_locals(g, ctx.rd(m), e, t))
            guard = any('parent' in a[2][0] + a[2][1] for a in __import__('lt_static.formula', fromlist=['atoms_of']).atoms_of(f)
                        if a[0] == 'atom' and a[1] == 'eq')
        feats['parent_guard_before_open'] = guard
        feats['mode_passed'] = any(any(isinstance(x, ast.Name) and x.id == 'mode' for x in ast.walk(o)) for o in opens)
    if mname == 'delete':
        rm = [call for call in calls_in(m.node) if (dotted(call.func) or '').endswith('rmtree')
              or (isinstance(call.func, ast.Attribute) and call.func.attr == 'rm')]
        feats['removes'] = bool(rm)
        rec = True
        for r in rm:
            if isinstance(r.func, ast.Attribute) and r.func.attr == 'rm':
                rv = kwarg(r, 'recursive')
                rec = isinstance(rv, ast.Constant) and rv.value is True
        feats['recursive'] = rec
        ex = [call for call in calls_in(m.node) if isinstance(call.func, ast.Attribute) and call.func.attr == 'exists']
        feats['existence_guarded'] = bool(ex) and bool(rm) and all(g.dominates(g.primary(ex[0]), g.primary(r)) for r in rm)
    if mname == 'exists':
        ex = [call for call in calls_in(m.node) if isinstance(call.func, ast.Attribute) and call.func.attr == 'exists']
        feats['returns_existence'] = bool(ex)
    return feats


@rule('C08.STORAGE-SIBLINGS', ['C08', 'C12', 'C13'], min_instances=3)
def storage_siblings(ctx: Ctx):
    """LocalStorage and FsspecStorage agree on the feature vector of exists / file_handle / delete."""
    ls = ctx.P.cls('storage.LocalStorage')
    fs = ctx.P.cls('storage.FsspecStorage')
    for mname in ('exists', 'file_handle', 'delete'):
        a = _storage_features(ctx, ls, mname)
        b = _storage_features(ctx, fs, mname)
        diff = {k: (a.get(k), b.get(k)) for k in sorted(set(a) | set(b)) if a.get(k) != b.get(k)}
        bad = {k: v for k, v in a.items() if not v}
        badb = {k: v for k, v in b.items() if not v}
        ok = not diff and not bad and not badb
        m = ctx.P.find_method(fs, mname)
        yield ctx.ob('C08.STORAGE-SIBLINGS', ok, m, m.node, f'{mname}: LocalStorage and FsspecStorage agree ({sorted(a)})',
                     '' if ok else f'{mname}: feature vectors differ or a required feature is missing: Local={a} Fsspec={b}',
                     construct=f'siblings:{mname}')


# ----------------------------------------------------------------------------------------
# C09 (cache side)


@rule('C09.LOAD-TASK-GUARDS', ['C09', 'C08'], min_instances=3)
def load_task_guards(ctx: Ctx):
    """load_task returns only under three guards each raising TaskNotFound: key prefix of the requested
    type, stored cache class, isinstance(task, task_type)."""
    bc = base_cache(ctx)
    lt = ctx.P.find_method(bc, 'load_task')
    lm = ctx.P.find_method(bc, 'load_metadata')
    g = ctx.cfg(lt)
    rd = ctx.rd(lt)
    fb = ctx.fb(lt)
    facts = ctx.facts(lt, exc=False)
    at_exit = facts.formula_at(g.exit, fb)
    rets = [n for n in walk_local(lt.node) if isinstance(n, ast.Return)]
    tv = rets[0].value.id if rets and isinstance(rets[0].value, ast.Name) else 'task'
    need = formula_of(ctx, lt, f'isinstance({tv}, task_type)')
    ok = implies(at_exit, need)
    yield ctx.ob('C09.LOAD-TASK-GUARDS', ok, lt, rets[0] if rets else lt.node, 'returned task is an instance of the requested type',
                 '' if ok else 'load_task can return a task that is not an instance of the requested task type (key prefixes of '
                 'different types may overlap)', construct='isinstance-guard')
    # raises are TaskNotFound
    for r in [n for n in walk_local(lt.node) if isinstance(n, ast.Raise)] + [n for n in walk_local(lm.node) if isinstance(n, ast.Raise)]:
        nm = dotted(r.exc.func if isinstance(r.exc, ast.Call) else r.exc) if r.exc is not None else ''
        okr = (nm or '').split('.')[-1] == 'TaskNotFound'
        yield ctx.ob('C09.LOAD-TASK-GUARDS', okr, lt if r in list(walk_local(lt.node)) else lm, r, 'guard raises TaskNotFound',
                     '' if okr else f'a mismatch raises {nm} instead of TaskNotFound: cached_tasks would abort instead of skipping the entry')
    # load_task goes through load_metadata for the same (task_type, key)
    lmc = [c for c in calls_in(lt.node) if lm.qualname in ctx.P.resolve_call(c, lt)]
    okc = bool(lmc) and g.dominates(g.primary(lmc[0]), g.exit) and \
        same_expr(kwarg(lmc[0], 'task_type', 1), ast.parse('task_type', mode='eval').body) and \
        same_expr(kwarg(lmc[0], 'key', 2), ast.parse('key', mode='eval').body)
    yield ctx.ob('C09.LOAD-TASK-GUARDS', okc, lt, lmc[0] if lmc else lt.node, 'load_task uses load_metadata(storage, task_type, key)',
                 '' if okc else 'load_task bypasses load_metadata (prefix and cache-class guards)')
    g2 = ctx.cfg(lm)
    f2 = ctx.facts(lm, exc=False).formula_at(g2.exit, ctx.fb(lm))
    from ..formula import atoms_of
    ats = atoms_of(f2)
    has_prefix = any(a[0] == 'atom' and a[1] == 'call' and 'startswith' in a[2][0] for a in ats)
    has_cls = any(a[0] == 'atom' and a[1] == 'eq' and any("'cache'" in k for k in a[2]) for a in ats)
    # polarity: startswith true, cache == class true on exit
    need_prefix = None
    for n in walk_local(lm.node):
        if isinstance(n, ast.Call) and isinstance(n.func, ast.Attribute) and n.func.attr == 'startswith':
            need_prefix = n
    okp = need_prefix is not None and implies(f2, ctx.fb(lm).build(need_prefix))
    yield ctx.ob('C09.LOAD-TASK-GUARDS', okp, lm, need_prefix or lm.node, 'key prefix guard holds on the normal exit',
                 '' if okp else 'load_metadata can return for a key that does not start with the prefix of the requested type',
                 construct='prefix-guard')
    needc = None
    for n in walk_local(lm.node):
        if isinstance(n, ast.Compare) and any("'cache'" in src(x) for x in ast.walk(n)):
            needc = n
    okcls = False
    if needc is not None:
        fc = ctx.fb(lm).build(needc)
        eqf = fc if isinstance(needc.ops[0], ast.Eq) else f_not(fc)
        okcls = implies(f2, eqf) and any('__qualname__' in src(x) for x in ast.walk(needc))
    yield ctx.ob('C09.LOAD-TASK-GUARDS', okcls, lm, needc or lm.node, 'stored cache class guard holds on the normal exit',
                 '' if okcls else 'load_metadata can return metadata written by a different cache class', construct='cache-class-guard')
    # the prefix guard is evaluated before the file is opened
    fh = storage_calls(ctx, lm, ('file_handle',))
    okb = need_prefix is not None and bool(fh) and g2.dominates(g2.primary(need_prefix), g2.primary(fh[0]))
    yield ctx.ob('C09.LOAD-TASK-GUARDS', okb, lm, fh[0] if fh else lm.node, 'prefix guard precedes opening the metadata file',
                 '' if okb else 'metadata of foreign keys is opened before the prefix guard', construct='prefix-first')


@rule('C09.KEY-FORMAT-AGREE', ['C09', 'C07', 'C08'])
def key_format_agree(ctx: Ctx):
    """The startswith template in load_metadata is a prefix of the cache_key template."""
    bc = base_cache(ctx)
    ck = ctx.P.find_method(bc, 'cache_key')
    lm = ctx.P.find_method(bc, 'load_metadata')
    rets = [n for n in walk_local(ck.node) if isinstance(n, ast.Return)]
    tmpl = rets[0].value if rets and isinstance(rets[0].value, ast.JoinedStr) else None
    pre = None
    for n in walk_local(lm.node):
        if isinstance(n, ast.Call) and isinstance(n.func, ast.Attribute) and n.func.attr == 'startswith' and n.args \
                and isinstance(n.args[0], ast.JoinedStr):
            pre = n.args[0]
    if tmpl is None or pre is None:
        yield ctx.ob('C09.KEY-FORMAT-AGREE', False, ck, ck.node, 'key templates', 'cache_key / load_metadata do not use f-string templates',
                     construct='templates')
        return

    def parts(js: ast.JoinedStr, subst: dict[str, str]):
        out = []
        for v in js.values:
            if isinstance(v, ast.Constant):
                out.append(('lit', v.value))
            else:
                t = src(v.value)
                for a, b in subst.items():
                    t = t.replace(a, b)
                out.append(('expr', t))
        return out
    a = parts(tmpl, {'task.__class__': 'TYPE', 'type(task)': 'TYPE'})
    b = parts(pre, {'task_type': 'TYPE'})
    ok = a[:len(b)] == b
    yield ctx.ob('C09.KEY-FORMAT-AGREE', ok, lm, pre, 'startswith template is a prefix of the cache_key template',
                 '' if ok else f'load_metadata tests for prefix {b} but cache_key builds {a}')


@rule('C08.FIND-KEYS', ['C08', 'C09', 'C13', 'C12'])
def find_keys(ctx: Ctx):
    """find_keys lists every entry of the storage directory: LocalStorage returns the name of every
    directory under the root (only non-directories are skipped), FsspecStorage every listed entry relative to
    the root; NullStorage none."""
    ls = ctx.P.cls('storage.LocalStorage')
    fk = ls.methods.get('find_keys')
    if fk is None:
        raise AnalysisError('LocalStorage.find_keys missing')
    from .c18 import root_field
    root = root_field(ctx)
    sn = fk.self_name
    comps = [n for n in walk_local(fk.node) if isinstance(n, (ast.ListComp, ast.GeneratorExp, ast.SetComp))]
    ok = False
    why = 'find_keys does not list the entries of the storage directory with a comprehension / loop over iterdir()'
    for cp in comps:
        gen = cp.generators[0]
        it = gen.iter
        if isinstance(it, ast.Call) and isinstance(it.func, ast.Attribute) and it.func.attr == 'iterdir' \
                and same_expr(it.func.value, ast.parse(f'{sn}.{root}', mode='eval').body) and isinstance(gen.target, ast.Name):
            v = gen.target.id
            filt_ok = all(same_expr(i, ast.parse(f'{v}.is_dir()', mode='eval').body) for i in gen.ifs) and len(gen.ifs) <= 1
            elt_ok = same_expr(cp.elt, ast.parse(f'{v}.name', mode='eval').body)
            ok = filt_ok and elt_ok and len(cp.generators) == 1
            if not filt_ok:
                why = f'find_keys filters entries by `{" and ".join(src(i) for i in gen.ifs)}`: cached entries can be hidden from cached_tasks'
            elif not elt_ok:
                why = f'find_keys returns `{src(cp.elt)}` instead of the entry name'
    rets = [n for n in walk_local(fk.node) if isinstance(n, ast.Return)]
    sliced = any(isinstance(x, ast.Subscript) and isinstance(x.slice, ast.Slice) for r in rets for x in ast.walk(r))
    yield ctx.ob('C08.FIND-KEYS', ok and not sliced and len(rets) == 1, fk, fk.node, 'LocalStorage.find_keys = names of all directories under the root',
                 '' if ok and not sliced and len(rets) == 1 else why, construct='local')
    fs = ctx.P.cls('storage.FsspecStorage')
    ffk = fs.methods.get('find_keys')
    okf = False
    if ffk is not None:
        for cp in [n for n in walk_local(ffk.node) if isinstance(n, (ast.ListComp, ast.GeneratorExp))]:
            gen = cp.generators[0]
            okf = isinstance(gen.iter, ast.Call) and isinstance(gen.iter.func, ast.Attribute) and gen.iter.func.attr == 'ls' \
                and not gen.ifs and 'relative_to' in src(cp.elt)
    yield ctx.ob('C08.FIND-KEYS', okf, ffk, ffk.node if ffk else None, 'FsspecStorage.find_keys = every listed entry relative to the root',
                 '' if okf else 'FsspecStorage.find_keys does not return every listed entry', construct='fsspec')
    ns = ctx.P.cls('storage.NullStorage')
    nfk = ns.methods.get('find_keys')
    rets = [n for n in walk_local(nfk.node) if isinstance(n, ast.Return)] if nfk else []
    okn = bool(rets) and all(isinstance(r.value, (ast.List, ast.Tuple)) and not r.value.elts for r in rets)
    yield ctx.ob('C08.FIND-KEYS', okn, nfk, nfk.node if nfk else None, 'NullStorage.find_keys is empty', '' if okn else
                 'NullStorage.find_keys reports keys', construct='null')


@rule('C06.CACHE-STATELESS', ['C06', 'C08', 'C09', 'C03'])
def cache_stateless(ctx: Ctx):
    """Cache objects are shared by every Lab, storage and worker of a process: outside __init__ no Cache method
    writes an attribute of self (a memo of storage contents would be served for another storage or go stale)."""
    n = 0
    for c in ctx.P.subclasses(roles.CACHE):
        for m in c.methods.values():
            if m.name == '__init__':
                continue
            n += 1
            ws = field_writes(m)
            yield ctx.ob('C06.CACHE-STATELESS', not ws, m, ws[0].node if ws else m.node, f'{c.name}.{m.name} keeps no state on the cache object',
                         '' if not ws else f'`{src(ws[0].node)[:60]}` stores state on the cache object, which is shared between Labs, storages and '
                         'worker processes: what it remembers about one storage entry is served for another or goes stale')
    if n == 0:
        raise AnalysisError('no Cache methods found')


@rule('C08.STORAGE-STATELESS', ['C08', 'C06', 'C03', 'C12', 'C13', 'C09'])
def storage_stateless(ctx: Ctx):
    """A Storage object answers from the backing store every time: outside __init__ no Storage method writes an attribute of
    self.  Entries are written and deleted by *other* processes (the task workers), so anything the parent's storage object
    remembers about a key - that it exists, that it does not, a listing - is stale the moment a worker saves."""
    n = 0
    for c in ctx.P.subclasses(roles.STORAGE):
        for m in c.methods.values():
            if m.name == '__init__':
                continue
            n += 1
            ws = field_writes(m)
            md = memo_decorators(m)
            ok = not ws and not md
            yield ctx.ob('C08.STORAGE-STATELESS', ok, m, ws[0].node if ws else m.node, f'{c.name}.{m.name} keeps no state on the storage object',
                         '' if ok else (f'`{src(ws[0].node)[:60]}` stores state on the storage object' if ws else f'{m.name} is memoised ({md})') +
                         ': results are saved and deleted by worker processes, so what the parent remembers about a key goes stale '
                         '(a cached task is re-executed, a deleted one is reported cached)')
    if n == 0:
        raise AnalysisError('no Storage methods found')


@rule('C13.PREPARE-BEFORE-VISIBLE', ['C13', 'C12'])
def prepare_before_visible(ctx: Ctx):
    """Everything that can fail or take time other than the writes themselves (serialising the task, building
    the metadata) happens before the first storage.file_handle() of a save makes the entry visible."""
    bc = base_cache(ctx)
    save = ctx.P.find_method(bc, 'save')
    g = ctx.cfg(save)
    fhs = storage_calls(ctx, save, ('file_handle',))
    if not fhs:
        raise AnalysisError('BaseCache.save opens no storage file')
    first = min(fhs, key=lambda c: (c.lineno, c.col_offset))
    fn0 = g.primary(first)
    after = g.reachable([fn0], exc=False, include_starts=False)
    allowed = ('file_handle', 'save_result', 'dump', 'dumps', 'delete', 'debug', 'info', 'write', 'close', 'flush')
    bad = []
    for call in calls_in(save.node):
        if call is first:
            continue
        cn = g.primary(call)
        if cn in after or (cn == fn0 and (call.lineno, call.col_offset) > (first.lineno, first.col_offset)):
            nm = call.func.attr if isinstance(call.func, ast.Attribute) else (dotted(call.func) or '')
            in_handler = any(isinstance(h, ast.ExceptHandler) and any(x is call for x in ast.walk(h)) for h in walk_local(save.node))
            if nm.split('.')[-1] not in allowed and not in_handler:
                bad.append(call)
    yield ctx.ob('C13.PREPARE-BEFORE-VISIBLE', not bad, save, bad[0] if bad else first,
                 'between the first file_handle() and the end of the save only the writes happen',
                 '' if not bad else f'`{src(bad[0])[:70]}` runs after the entry became visible (first storage.file_handle) and before the payload is '
                 'complete: a kill or failure there leaves an entry that is reported as cached but cannot be loaded')


@rule('C12.DELETE-TOTAL', ['C12', 'C13', 'C08'])
def delete_total(ctx: Ctx):
    """Storage.delete removes whatever is there - one recursive removal of the key directory, guarded by its existence - and
    never a named file on its own.  The rollback of a failed save calls it on a *partial* entry: a delete that first unlinks
    `metadata.json` (or any specific file) raises FileNotFoundError inside the rollback handler when that file was not
    written yet, and the rest of the entry stays."""
    n = 0
    for m in roles.impls(ctx, roles.STORAGE, 'delete'):
        if m.module.name.endswith('.types'):
            continue
        n += 1
        single = [c for c in calls_in(m.node) if (isinstance(c.func, ast.Attribute) and c.func.attr in ('unlink', 'rm_file', 'remove', 'rmdir'))
                  or (dotted(c.func) or '') in ('os.remove', 'os.unlink', 'os.rmdir')]
        single = [c for c in single if not (isinstance(c.func, ast.Attribute) and c.func.attr == 'remove' and not c.args)]
        ok = not single
        yield ctx.ob('C12.DELETE-TOTAL', ok, m, single[0] if single else m.node, f'{m.short} removes the key directory as a whole',
                     '' if ok else f'`{src(single[0])[:60]}` removes one named file / directory level on its own: on a partially written entry (the '
                     'rollback of a failed save) it raises before the rest is removed, and the leftover looks cached')
    if n < 2:
        raise AnalysisError('fewer than two Storage.delete implementations found')


# ----------------------------------------------------------------------------------------
# options of the JSON encoder calls

_JSON_OPTION_PROPS = {
    'allow_nan': ['C15', 'C07'],
    'ensure_ascii': ['C06', 'C09', 'C08'],
    'skipkeys': ['C07', 'C06'],
    'default': ['C07', 'C06'],
}


@rule('C07.JSON-OPTIONS', ['C06', 'C07', 'C08', 'C09', 'C15'])
def json_options(ctx: Ctx):
    """The JSON encoder calls of the cache keep the encoder total and faithful over the documented parameter grammar:
    allow_nan stays on (inf / nan are accepted float parameters; with allow_nan=False the key computed at construction
    raises ValueError); ensure_ascii stays on where the text goes to a storage file handle (opened without an encoding: the
    bytes written, and whether they can be read back, would depend on the locale of each process); skipkeys stays off and
    no default= fallback is installed (entries dropped or keyed by a fallback representation make unequal tasks collide)."""
    n = 0
    for fn in ctx.P.all_functions():
        if fn.module.name != f'{PKG}.cache':
            continue
        for call in calls_in(fn.node):
            d = dotted(call.func)
            if d not in ('json.dump', 'json.dumps'):
                continue
            n += 1
            kws = {k.arg: k.value for k in call.keywords if k.arg}
            star = any(k.arg is None for k in call.keywords)

            def const(name):
                v = kws.get(name)
                return v.value if isinstance(v, ast.Constant) else ('?' if v is not None else None)
            checks = []
            an = const('allow_nan')
            checks.append(('allow_nan', an in (None, True) and not star,
                           f'`{src(call)[:80]}` turns allow_nan off: float("inf") / float("nan") are accepted parameter values, and the '
                           'encoder now raises ValueError for them (for the key: already while the task is being constructed)'))
            if d == 'json.dump':
                ea = const('ensure_ascii')
                checks.append(('ensure_ascii', ea in (None, True) and not star,
                               f'`{src(call)[:80]}` writes non-ASCII characters as they are into a handle opened without an explicit encoding: '
                               'what is stored, and whether a later process can read it, depends on the locale of each process'))
            sk = const('skipkeys')
            checks.append(('skipkeys', sk in (None, False) and not star,
                           f'`{src(call)[:80]}` skips keys the encoder cannot write: entries vanish from the key / metadata silently'))
            checks.append(('default', 'default' not in kws and 'cls' not in kws and not star,
                           f'`{src(call)[:80]}` installs a fallback encoder: values outside the documented grammar are keyed by a fallback '
                           'representation instead of being rejected'))
            for opt, ok, why in checks:
                if ctx.pid is not None and ctx.pid not in _JSON_OPTION_PROPS[opt]:
                    continue
                yield ctx.ob('C07.JSON-OPTIONS', ok, fn, call, f'{d}: {opt}', '' if ok else why, construct=f'{d}:{opt}')
    if n < 2:
        raise AnalysisError(f'expected the key and the metadata JSON encoder calls in cache.py, found {n}')
