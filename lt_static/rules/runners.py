"""Rules over the runners (serial.py, process.py runner classes) and run_or_load_task (base.py).
Serves C01, C02, C03, C04, C05, C06, C10, C11, C12, C14, C16."""
from __future__ import annotations

import ast
from dataclasses import dataclass
from typing import Optional

from .. import roles
from ..dataflow import expand_locals
from ..engine import (Ctx, same_value, calls_in, cond_from_entry, cond_in_loop, early_exits, field_writes, formula_of, kwarg,
                      loop_region, rule, same_expr, strip_order_preserving)
from ..formula import TRUE, canon, equivalent, f_not, implies, show
from ..model import PKG, AnalysisError, FuncInfo, dotted, src, walk_local
from ..cfg import handler_is_catch_all


def rolt(ctx: Ctx) -> FuncInfo:
    return ctx.P.func('runners.base.run_or_load_task')


def results_field(ctx: Ctx, cls) -> str:
    gr = ctx.P.find_method(cls, 'get_result')
    if gr is None:
        raise AnalysisError(f'{cls.name} has no get_result')
    for n in walk_local(gr.node):
        if isinstance(n, ast.Return) and isinstance(n.value, ast.Subscript):
            v = n.value.value
            if isinstance(v, ast.Attribute) and isinstance(v.value, ast.Name) and v.value.id == gr.self_name:
                return v.attr
    raise AnalysisError(f'{gr.where()}: get_result does not return self.<map>[task]')


def pending_field(ctx: Ctx, cls) -> str:
    pc = ctx.P.find_method(cls, 'pending_task_count')
    for n in walk_local(pc.node):
        if isinstance(n, ast.Return) and isinstance(n.value, ast.Call) and dotted(n.value.func) == 'len' \
                and isinstance(n.value.args[0], ast.Attribute):
            return n.value.args[0].attr
    raise AnalysisError(f'{pc.where()}: pending_task_count does not return len(self.<structure>)')


@dataclass
class WaitInfo:
    fn: FuncInfo
    yields: list          # (yield stmt node, task expr, outcome expr)
    exec_calls: list      # calls whose completion means the task finished (run_or_load_task / future.result())
    rfield: str
    pfield: str


def wait_infos(ctx: Ctx) -> list[WaitInfo]:
    out = []
    for fn in roles.impls(ctx, roles.RUNNER, 'wait', minimum=2):
        ys = []
        for n in walk_local(fn.node):
            if isinstance(n, ast.Expr) and isinstance(n.value, ast.Yield):
                v = n.value.value
                if isinstance(v, ast.Tuple) and len(v.elts) == 2:
                    ys.append((n, v.elts[0], v.elts[1]))
                else:
                    raise AnalysisError(f'{fn.where(n)}: wait() yields something other than a (task, outcome) pair')
        execs = []
        for call in calls_in(fn.node):
            cs = ctx.P.resolve_call(call, fn)
            if rolt(ctx).qualname in cs:
                execs.append(call)
            elif isinstance(call.func, ast.Attribute) and call.func.attr == 'result' and not call.args:
                execs.append(call)
        out.append(WaitInfo(fn, ys, execs, results_field(ctx, fn.cls), pending_field(ctx, fn.cls)))
    return out


def _is_failure_yield(fn: FuncInfo, y) -> Optional[ast.ExceptHandler]:
    """The except handler whose bound name is yielded as the outcome."""
    stmt, _t, outcome = y
    if not isinstance(outcome, ast.Name):
        return None
    for n in walk_local(fn.node):
        if isinstance(n, ast.ExceptHandler) and n.name == outcome.id and any(x is stmt for x in ast.walk(n)):
            return n
    return None


@rule('C02.YIELD-AFTER-FINISH', ['C02'], min_instances=3)
def yield_after_finish(ctx: Ctx):
    """A runner yields a task only after its execution returned or raised; futures become done only
    through the result consumer / dead-process detector."""
    for wi in wait_infos(ctx):
        fn = wi.fn
        g = ctx.cfg(fn)
        if not wi.exec_calls:
            yield ctx.ob('C02.YIELD-AFTER-FINISH', False, fn, fn.node, 'execution call',
                         'wait() contains no call that executes the task / collects its outcome', construct='no-exec')
            continue
        en = [g.primary(c) for c in wi.exec_calls]
        for y in wi.yields:
            yn = g.primary(y[0])
            ok = any(g.dominates(e, yn) for e in en)
            if not ok:
                # a failure yield in a handler of the try whose body holds the execution: the task has
                # finished (by raising) even if the exception came from the preparation before run()
                h = _is_failure_yield(fn, y)
                if h is not None:
                    for t in [t for t in walk_local(fn.node) if isinstance(t, ast.Try) and h in t.handlers]:
                        if any(x is c for c in wi.exec_calls for b in t.body for x in ast.walk(b)):
                            ok = True
            yield ctx.ob('C02.YIELD-AFTER-FINISH', ok, fn, y[0], 'yield dominated by the execution / outcome collection',
                         '' if ok else 'a task can be reported as finished before it was executed')
    # who may complete a Future
    fut = ctx.P.cls('runners.process.Future')
    allowed_cls = None
    from .executor import executor
    ex = executor(ctx)
    for name in ('set_result', 'set_exception'):
        m = ctx.P.find_method(fut, name)
        if m is None:
            raise AnalysisError(f'Future.{name} missing')
        for fn in ctx.P.all_functions():
            for call in calls_in(fn.node):
                if isinstance(call.func, ast.Attribute) and call.func.attr == name:
                    top = fn
                    while top.parent is not None:
                        top = top.parent
                    ok = top.cls is not None and top.cls.qualname == ex.cls.qualname
                    yield ctx.ob('C02.YIELD-AFTER-FINISH', ok, fn, call, f'Future.{name} caller',
                                 '' if ok else f'`{src(call)}`: futures may only be completed by the executor\'s result consumer '
                                 'or dead-process detector')
    # wait() of the process runner yields only futures the executor reports done
    pr = ctx.P.cls('runners.process.ProcessRunner')
    w = ctx.P.find_method(pr, 'wait')
    ew = ctx.P.find_method(ex.cls, 'wait')
    g = ctx.cfg(w)
    rd = ctx.rd(w)
    for lp in [n for n in walk_local(w.node) if isinstance(n, ast.For) and any(isinstance(x, ast.Yield) for x in ast.walk(n))]:
        ok = False
        if isinstance(lp.iter, ast.Name):
            itn = [n for n in g.nodes_containing(lp.iter) if g.node(n).kind == 'iter_eval']
            d = rd.single_def(itn[0] if itn else g.primary(lp), lp.iter.id)
            if d is not None and d != g.entry:
                a = g.node(d).ast
                if isinstance(a, ast.Assign) and isinstance(a.value, ast.Call) and ew.qualname in ctx.P.resolve_call(a.value, w) \
                        and isinstance(a.targets[0], ast.Tuple) and isinstance(a.targets[0].elts[0], ast.Name) \
                        and a.targets[0].elts[0].id == lp.iter.id:
                    ok = True
        yield ctx.ob('C02.YIELD-AFTER-FINISH', ok, w, lp, 'yield loop iterates the executor\'s done list',
                     '' if ok else f'ProcessRunner.wait yields for `{src(lp.iter)}`, which is not the done partition returned by executor.wait')
    sdf = ctx.P.func('runners.process.split_done_futures')
    done_ok = False
    # semantic: an element reaches the first returned collection exactly when `<element>.done` (loop + append, or comprehension)
    rets = [r for r in walk_local(sdf.node) if isinstance(r, ast.Return) and isinstance(r.value, ast.Tuple) and r.value.elts]
    if rets:
        first = rets[0].value.elts[0]
        gs, rds = ctx.cfg(sdf), ctx.rd(sdf)
        v = expand_locals(gs, rds, first, gs.primary(rets[0])) if isinstance(first, ast.Name) else first
        if isinstance(v, (ast.ListComp, ast.GeneratorExp)) or (isinstance(v, ast.Call) and v.args and isinstance(v.args[0], (ast.ListComp, ast.GeneratorExp))):
            comp = v if isinstance(v, (ast.ListComp, ast.GeneratorExp)) else v.args[0]
            gen = comp.generators[0]
            if len(comp.generators) == 1 and isinstance(gen.target, ast.Name) and isinstance(comp.elt, ast.Name) and comp.elt.id == gen.target.id and gen.ifs:
                have = formula_of(ctx, sdf, ast.BoolOp(op=ast.And(), values=list(gen.ifs)) if len(gen.ifs) > 1 else gen.ifs[0])
                done_ok = equivalent(have, formula_of(ctx, sdf, f'{gen.target.id}.done'))
        elif isinstance(first, ast.Name):
            for lp in [n for n in walk_local(sdf.node) if isinstance(n, ast.For) and isinstance(n.target, ast.Name)]:
                apps = [c for c in calls_in(lp) if isinstance(c.func, ast.Attribute) and c.func.attr == 'append' and isinstance(c.func.value, ast.Name)
                        and c.func.value.id == first.id and c.args and isinstance(c.args[0], ast.Name) and c.args[0].id == lp.target.id]
                if apps:
                    done_ok = equivalent(cond_in_loop(ctx, sdf, lp, apps[0]), formula_of(ctx, sdf, f'{lp.target.id}.done'))
    yield ctx.ob('C02.YIELD-AFTER-FINISH', done_ok, sdf, sdf.node, 'done partition is filtered by future.done',
                 '' if done_ok else 'split_done_futures does not partition by future.done', construct='done-filter')


@rule('C02.RESULT-BEFORE-YIELD', ['C02', 'C01'], min_instances=2)
def result_before_yield(ctx: Ctx):
    """The store results_map[task] = result dominates the success yield of the same task, and the
    yielded meta belongs to that result (C01.RUNNER-KEYING)."""
    for wi in wait_infos(ctx):
        fn = wi.fn
        sn = fn.self_name
        g = ctx.cfg(fn)
        rd = ctx.rd(fn)
        succ = [y for y in wi.yields if _is_failure_yield(fn, y) is None]
        if not succ:
            yield ctx.ob('C02.RESULT-BEFORE-YIELD', False, fn, fn.node, 'success yield', 'wait() never yields a success outcome',
                         construct='no-success-yield')
            continue
        stores = [w for w in field_writes(fn) if w.field == wi.rfield and w.kind == 'item_store']
        for y in succ:
            stmt, texpr, outcome = y
            yn = g.primary(stmt)
            ok = False
            msg = f'no store into {sn}.{wi.rfield} dominates the success yield'
            if isinstance(outcome, ast.Attribute) and outcome.attr == 'meta' and isinstance(outcome.value, ast.Name):
                rv = outcome.value.id
                for w in stores:
                    wn = g.primary(w.node)
                    key = w.target.slice
                    val = w.node.value if isinstance(w.node, ast.Assign) else None
                    if g.dominates(wn, yn) and same_value(ctx, fn, key, wn, texpr, yn) \
                            and isinstance(val, ast.Name) and val.id == rv and rd.same_binding(wn, yn, rv):
                        ok = True
            else:
                msg = f'the success outcome `{src(outcome)}` is not `<result>.meta` of the stored result'
            yield ctx.ob('C02.RESULT-BEFORE-YIELD', ok, fn, stmt, 'results_map[task] = result before yield (task, result.meta)',
                         '' if ok else msg)


@rule('C01.RUNNER-KEYING', ['C01'], min_instances=3)
def runner_keying(ctx: Ctx):
    """Each results_map[k] = v stores the outcome of executing k itself."""
    for wi in wait_infos(ctx):
        fn = wi.fn
        sn = fn.self_name
        g = ctx.cfg(fn)
        rd = ctx.rd(fn)
        for w in [w for w in field_writes(fn) if w.field == wi.rfield and w.kind == 'item_store']:
            key = w.target.slice
            val = w.node.value if isinstance(w.node, ast.Assign) else None
            wn = g.primary(w.node)
            ok = False
            msg = f'`{src(w.node)}`: value is not the outcome of executing the key task'
            if isinstance(val, ast.Name):
                vd = rd.single_def(wn, val.id)
                dv = rd.def_value(vd, val.id) if vd is not None else None
                if dv and dv[0] == 'value' and isinstance(dv[1], ast.Call):
                    call = dv[1]
                    if rolt(ctx).qualname in ctx.P.resolve_call(call, fn):
                        ta = kwarg(call, 'task', 0)
                        ok = same_value(ctx, fn, ta, vd, key, wn)
                        if not ok:
                            msg = f'result of run_or_load_task(task={src(ta) if ta else "?"}) is stored under `{src(key)}`'
                    elif isinstance(key, ast.Name) and isinstance(call.func, ast.Attribute) and call.func.attr == 'result' and isinstance(call.func.value, ast.Name):
                        fv = call.func.value.id
                        # key derives from future_to_task[fv] / .pop(fv) for the same future
                        kd = rd.single_def(wn, key.id)
                        kv = rd.def_value(kd, key.id) if kd is not None else None
                        if kv and kv[0] == 'value':
                            e = kv[1]
                            base = None
                            arg = None
                            if isinstance(e, ast.Subscript):
                                base, arg = e.value, e.slice
                            elif isinstance(e, ast.Call) and isinstance(e.func, ast.Attribute) and e.func.attr == 'pop' and e.args:
                                base, arg = e.func.value, e.args[0]
                            ok = base is not None and same_expr(base, ast.parse(f'{sn}.{wi.pfield}', mode='eval').body) \
                                and isinstance(arg, ast.Name) and arg.id == fv and rd.same_binding(kd, vd, fv)
                        if not ok:
                            msg = f'`{key.id}` is not the task registered for future `{fv}` whose result is stored'
            yield ctx.ob('C01.RUNNER-KEYING', ok, fn, w.node, f'{wi.rfield}[task] holds that task\'s own outcome', '' if ok else msg)
    # future_to_task registration
    pr = ctx.P.cls('runners.process.ProcessRunner')
    st = ctx.P.find_method(pr, 'submit_task')
    pf = pending_field(ctx, pr)
    g = ctx.cfg(st)
    rd = ctx.rd(st)
    n = 0
    for m in pr.methods.values():
        for w in field_writes(m):
            if w.field == pf and w.kind == 'item_store':
                n += 1
                ok = False
                if m.qualname == st.qualname and isinstance(w.node, ast.Assign):
                    key, val = w.target.slice, w.node.value
                    if isinstance(key, ast.Name) and isinstance(val, ast.Name):
                        kd = rd.single_def(g.primary(w.node), key.id)
                        kv = rd.def_value(kd, key.id) if kd is not None else None
                        if kv and kv[0] == 'value' and isinstance(kv[1], ast.Call) \
                                and any(q.endswith('._submit_task') for q in ctx.P.resolve_call(kv[1], m)):
                            ta = kwarg(kv[1], 'task', 1)
                            ok = isinstance(ta, ast.Name) and ta.id == val.id and rd.single_def(g.primary(w.node), val.id) == g.entry
                yield ctx.ob('C01.RUNNER-KEYING', ok, m, w.node, 'future registered for the task it executes',
                             '' if ok else f'`{src(w.node)}` does not map the future returned by _submit_task(task=t) to that same t')
    if n == 0:
        yield ctx.ob('C01.RUNNER-KEYING', False, st, st.node, 'future registration', 'submitted futures are never registered',
                     construct='no-registration')


@rule('C10.EXC-TO-FAILURE', ['C10', 'C12'], min_instances=3)
def exc_to_failure(ctx: Ctx):
    """Every runner converts any exception of the task into a yielded failure (handler for
    BaseException that yields (task, ex)); the child ships any BaseException back."""
    for wi in wait_infos(ctx):
        fn = wi.fn
        for call in wi.exec_calls:
            tries = [t for t in walk_local(fn.node) if isinstance(t, ast.Try)
                     and any(x is call for b in t.body for x in ast.walk(b))]
            ok = False
            msg = 'the execution is not inside a try with a BaseException handler that yields the failure'
            for t in tries:
                for h in t.handlers:
                    if handler_is_catch_all(h):
                        ys = [n for n in walk_local(h) if isinstance(n, ast.Yield)]
                        good = [y for y in ys if isinstance(y.value, ast.Tuple) and len(y.value.elts) == 2
                                and isinstance(y.value.elts[1], ast.Name) and y.value.elts[1].id == h.name]
                        if good:
                            ok = True
                        else:
                            msg = 'the catch-all handler does not yield (task, ex)'
                    else:
                        hn = dotted(h.type) if h.type is not None else ''
                        if hn and hn.split('.')[-1] not in ('KeyboardInterrupt',) and not any(isinstance(s, ast.Raise) for s in h.body):
                            ok = ok
                if not any(handler_is_catch_all(h) for h in t.handlers):
                    widest = [dotted(h.type) for h in t.handlers if h.type is not None]
                    msg = f'the handlers around the execution catch only {widest}: other exceptions escape wait() and abort the whole run'
            yield ctx.ob('C10.EXC-TO-FAILURE', ok, fn, call, 'any exception of the task becomes a yielded failure', '' if ok else msg)
    tgt = ctx.P.func('runners.process._subprocess_target')
    ok = False
    for t in [t for t in walk_local(tgt.node) if isinstance(t, ast.Try)]:
        for h in t.handlers:
            if handler_is_catch_all(h):
                puts = [c for c in calls_in(h) if isinstance(c.func, ast.Attribute) and c.func.attr == 'put']
                ok = any(isinstance(p.args[0], ast.Tuple) and len(p.args[0].elts) == 2 and isinstance(p.args[0].elts[1], ast.Name)
                         and p.args[0].elts[1].id == h.name for p in puts if p.args)
    yield ctx.ob('C10.EXC-TO-FAILURE', ok, tgt, tgt.node, 'child ships any BaseException back on the result queue',
                 '' if ok else 'the subprocess target does not put (future_id, ex) for every BaseException', construct='child-ships')


@rule('C10.SUCCESS-ONLY-STORES', ['C10', 'C12'], min_instances=3)
def success_only_stores(ctx: Ctx):
    """Result maps are stored only on the non-exception path; nothing swallows an exception between
    run() and Cache.save()."""
    for wi in wait_infos(ctx):
        fn = wi.fn
        g = ctx.cfg(fn)
        en = [g.primary(c) for c in wi.exec_calls]
        normal_out = [(e, t) for e in en for (t, lab) in g.succ[e] if lab != 'exc']
        reach = g.reachable([g.entry], avoid_edges=normal_out)
        for w in [w for w in field_writes(fn) if w.field == wi.rfield and w.kind in ('item_store', 'mutcall:update', 'mutcall:setdefault')]:
            ok = g.primary(w.node) not in reach
            yield ctx.ob('C10.SUCCESS-ONLY-STORES', ok, fn, w.node, f'{wi.rfield} stored only after a normal completion',
                         '' if ok else f'`{src(w.node)}` is reachable when the execution raised: a failed task gets a result')
    # consumer loop: the coordinator's result dict is stored only on the ResultMeta branch
    for cl in roles.consumer_loops(ctx):
        from .c17 import _capture_store
        for (cap, _call) in _capture_store(ctx, cl):
            c = cond_in_loop(ctx, cl.fn, cl.loop, cap)
            need = formula_of(ctx, cl.fn, f'isinstance({cl.res_var}, ResultMeta)')
            ok = implies(c, need)
            yield ctx.ob('C10.SUCCESS-ONLY-STORES', ok, cl.fn, cap, 'result captured only for a ResultMeta outcome',
                         '' if ok else f'the capture happens when {show(c)}, not only for successful outcomes')
    fn = rolt(ctx)
    bad = []
    for t in [t for t in walk_local(fn.node) if isinstance(t, ast.Try)]:
        for h in t.handlers:
            if not _handler_always_raises(ctx, fn, h):
                bad.append(h)
    yield ctx.ob('C10.SUCCESS-ONLY-STORES', not bad, fn, bad[0] if bad else fn.node, 'no swallowing handler in run_or_load_task',
                 '' if not bad else f'`except {src(bad[0].type) if bad[0].type else ""}` in run_or_load_task can swallow a failure of '
                 'run()/save()/load: a value would be returned (and reported as success) for a failed task',
                 construct='swallow' if bad else 'no-swallow')


def _handler_always_raises(ctx: Ctx, fn: FuncInfo, h: ast.ExceptHandler) -> bool:
    """All normal paths through the handler body end in raise."""
    g = ctx.cfg(fn)
    he = g.nodes_of(h)
    if not he:
        return False
    start = he[0]
    # nodes of the handler body
    body_ids = set()
    for s in h.body:
        for sub in ast.walk(s):
            for n in g.nodes_of(sub) if isinstance(sub, ast.stmt) else []:
                body_ids.add(n)
    # can we leave the handler body through a non-exc edge?
    seen = set()
    work = [start]
    while work:
        n = work.pop()
        if n in seen:
            continue
        seen.add(n)
        for (t, lab) in g.succ[n]:
            if lab == 'exc':
                continue
            if t in body_ids:
                work.append(t)
            else:
                return False
    return True


@rule('C14.DEQUEUE-BEFORE-DELIVER', ['C14', 'C11'], min_instances=2)
def dequeue_before_deliver(ctx: Ctx):
    """In a generator implementing Runner.wait the bookkeeping that prevents re-delivery (removal from
    the structure counted by pending_task_count) dominates every yield - a generator suspended at a
    yield is abandoned when the consumer is interrupted.  Cancelled / done futures are forgotten too."""
    for wi in wait_infos(ctx):
        fn = wi.fn
        sn = fn.self_name
        g = ctx.cfg(fn)
        rems = [w for w in field_writes(fn) if w.field == wi.pfield and
                w.kind in ('mutcall:pop', 'mutcall:popleft', 'item_delete', 'mutcall:remove')]
        rn = [g.primary(w.node) for w in rems]
        for y in wi.yields:
            yn = g.primary(y[0])
            ok = any(g.dominates(r, yn) for r in rn)
            # same iteration: the removal must be inside the loop that contains the yield, if any
            lp = roles.enclosing_loop_of(fn.node, y[0])
            if ok and lp is not None:
                ok = any(g.dominates(g.primary(w.node), yn) and any(x is w.node for x in ast.walk(lp)) for w in rems)
            yield ctx.ob('C14.DEQUEUE-BEFORE-DELIVER', ok, fn, y[0], f'removal from {wi.pfield} precedes the yield',
                         '' if ok else f'the delivered outcome is removed from {sn}.{wi.pfield} only after the yield (or never): if the '
                         'consumer is interrupted the generator is abandoned and the same outcome is delivered again')
        # every element of the done loop is forgotten (cancelled ones included)
        for lp in [n for n in walk_local(fn.node) if isinstance(n, ast.For) and any(isinstance(x, ast.Yield) for x in ast.walk(n))]:
            inl = [w for w in rems if any(x is w.node for x in ast.walk(lp))]
            ok = bool(inl) and cond_in_loop(ctx, fn, lp, inl[0].node) == TRUE
            key = None
            if inl:
                w = inl[0]
                key = w.node.args[0] if isinstance(w.node, ast.Call) and w.node.args else (w.target.slice if w.kind == 'item_delete' else None)
            ok = ok and isinstance(key, ast.Name) and isinstance(lp.target, ast.Name) and key.id == lp.target.id
            yield ctx.ob('C11.PRUNE-DONE', bool(ok), fn, inl[0].node if inl else lp, 'every done future is forgotten (cancelled included)',
                         '' if ok else f'a done future can stay in {sn}.{wi.pfield}: pending_task_count() never reaches zero')


@rule('C14.KI-TRANSPARENT', ['C14'], min_instances=2)
def ki_transparent(ctx: Ctx):
    """In code executed by the calling thread, a handler for BaseException (or a bare except) that
    does not re-raise must be preceded by `except KeyboardInterrupt: raise`."""
    run = ctx.P.func('lab.TaskCoordinator.run')
    calling = ctx.P.closure([run], include_nested=False)
    # nested closures called by name are included by resolve_call; add the public entry
    n = 0
    for fn in calling:
        for t in [t for t in walk_local(fn.node) if isinstance(t, ast.Try)]:
            ki_seen = False
            for h in t.handlers:
                names = []
                if h.type is not None:
                    elts = h.type.elts if isinstance(h.type, ast.Tuple) else [h.type]
                    names = [(dotted(e) or '').split('.')[-1] for e in elts]
                if 'KeyboardInterrupt' in names and _handler_always_raises(ctx, fn, h):
                    ki_seen = True
                    continue
                if handler_is_catch_all(h):
                    n += 1
                    # re-raising means re-raising *the interrupt*: `raise` or `raise <the caught name>`, not `raise Other(...) from ex`
                    raises = [r for r in walk_local(h) if isinstance(r, ast.Raise)]
                    same = all(r.exc is None or (isinstance(r.exc, ast.Name) and r.exc.id == h.name and r.cause is None) for r in raises)
                    ok = ki_seen or (_handler_always_raises(ctx, fn, h) and same)
                    why = 'swallows' if not _handler_always_raises(ctx, fn, h) else 'converts into another exception type'
                    yield ctx.ob('C14.KI-TRANSPARENT', ok, fn, h, f'catch-all handler in calling-thread code ({fn.short})',
                                 '' if ok else f'`except {src(h.type) if h.type else ""}` {why} a KeyboardInterrupt delivered to the '
                                 'calling thread inside this try (it is turned into something else or lost)',
                                 construct=f'except {src(h.type) if h.type else ""}')
    yield ctx.ob('C14.KI-TRANSPARENT', True, run, run.node, f'{len(calling)} calling-thread functions scanned, {n} catch-all handlers',
                 construct='scan')


def _comp_complete(ctx: Ctx, f: FuncInfo, comp: ast.AST, tp: str) -> bool:
    """`[d for field in fields(tp) for d in find_tasks_in_param(getattr(tp, field.name))]`, unfiltered."""
    ftp = ctx.P.func('tasks.find_tasks_in_param')
    gens, elt = comp.generators, comp.elt
    if len(gens) != 2 or any(g.ifs for g in gens):
        return False
    g1, g2 = gens
    if not (isinstance(g1.iter, ast.Call) and (dotted(g1.iter.func) or '').split('.')[-1] == 'fields' and g1.iter.args
            and isinstance(g1.iter.args[0], ast.Name) and g1.iter.args[0].id == tp and isinstance(g1.target, ast.Name)):
        return False
    it2 = g2.iter
    if not (isinstance(it2, ast.Call) and ftp.qualname in ctx.P.resolve_call(it2, f) and it2.args):
        return False
    want = ast.parse(f'getattr({tp}, {g1.target.id}.name)', mode='eval').body
    return same_expr(it2.args[0], want) and isinstance(g2.target, ast.Name) and isinstance(elt, ast.Name) and elt.id == g2.target.id


def _instance_complete(ctx: Ctx, f: FuncInfo) -> tuple[bool, str]:
    """Does f(task) enumerate *every task instance* directly held in the task's fields?  True for a list built from
    `for field in fields(task)` x `for d in find_tasks_in_param(getattr(task, field.name))` without a condition; False
    (with the reason) when the result is a set-like collection that merges equal instances."""
    ftp = ctx.P.func('tasks.find_tasks_in_param')
    params = [a.arg for a in f.params]
    if not params:
        return False, 'no task parameter'
    tp = params[0]
    rets = [r for r in walk_local(f.node) if isinstance(r, ast.Return) and r.value is not None]
    if len(rets) != 1:
        return False, 'not a single return'
    v = rets[0].value
    merged_ctor = None
    if isinstance(v, ast.Call) and (dotted(v.func) or '').split('.')[-1] in ('list', 'tuple') and len(v.args) == 1:
        v = v.args[0]
    elif isinstance(v, ast.Call) and (dotted(v.func) or '').split('.')[-1] in ('OrderedSet', 'set', 'frozenset'):
        merged_ctor = (dotted(v.func) or '').split('.')[-1]

    def gens_ok(gens, elt) -> bool:
        if len(gens) != 2 or any(g.ifs for g in gens):
            return False
        g1, g2 = gens
        if not (isinstance(g1.iter, ast.Call) and (dotted(g1.iter.func) or '').split('.')[-1] == 'fields' and g1.iter.args
                and isinstance(g1.iter.args[0], ast.Name) and g1.iter.args[0].id == tp and isinstance(g1.target, ast.Name)):
            return False
        it2 = g2.iter
        if not (isinstance(it2, ast.Call) and ftp.qualname in ctx.P.resolve_call(it2, f) and it2.args):
            return False
        a = it2.args[0]
        want = ast.parse(f'getattr({tp}, {g1.target.id}.name)', mode='eval').body
        return same_expr(a, want) and isinstance(g2.target, ast.Name) and isinstance(elt, ast.Name) and elt.id == g2.target.id

    if isinstance(v, (ast.ListComp, ast.GeneratorExp)) and merged_ctor is None:
        return (True, '') if gens_ok(v.generators, v.elt) else (False, 'the comprehension does not cover fields(task) x find_tasks_in_param(getattr(task, field.name))')
    if isinstance(v, ast.Name):
        # accumulator form: out = [] ; for field in fields(task): for d in find_tasks_in_param(...): out.append(d)
        inits = [n for n in walk_local(f.node) if isinstance(n, (ast.Assign, ast.AnnAssign)) and getattr(n, 'value', None) is not None
                 and any(isinstance(t, ast.Name) and t.id == v.id for t in (n.targets if isinstance(n, ast.Assign) else [n.target]))]
        if len(inits) == 1:
            iv = inits[0].value
            if isinstance(iv, ast.Call) and (dotted(iv.func) or '').split('.')[-1] in ('OrderedSet', 'set'):
                return False, f'the result is an {(dotted(iv.func) or "").split(".")[-1]}: equal instances are merged and only the first of them is returned'
            if isinstance(iv, (ast.ListComp, ast.GeneratorExp)):
                return (True, '') if gens_ok(iv.generators, iv.elt) else (False, 'the comprehension does not cover fields(task) x find_tasks_in_param(getattr(task, field.name))')
            if isinstance(iv, ast.List) and not iv.elts:
                for outer in [n for n in walk_local(f.node) if isinstance(n, ast.For)]:
                    for inner in [n for n in outer.body if isinstance(n, ast.For)]:
                        adds = [c for c in calls_in(inner) if isinstance(c.func, ast.Attribute) and c.func.attr == 'append'
                                and isinstance(c.func.value, ast.Name) and c.func.value.id == v.id]
                        if adds and len(inner.body) == 1 and len(outer.body) <= 2:
                            g1 = ast.comprehension(target=outer.target, iter=outer.iter, ifs=[], is_async=0)
                            g2 = ast.comprehension(target=inner.target, iter=inner.iter, ifs=[], is_async=0)
                            if gens_ok([g1, g2], adds[0].args[0] if adds[0].args else None):
                                return True, ''
                        exts = [c for c in calls_in(outer) if isinstance(c.func, ast.Attribute) and c.func.attr == 'extend'
                                and isinstance(c.func.value, ast.Name) and c.func.value.id == v.id]
                        del exts
        return False, 'the returned collection is not a plain list of every instance found'
    if merged_ctor:
        return False, f'the result is wrapped in {merged_ctor}(...): equal instances are merged'
    return False, 'unrecognised enumeration'


@rule('C01.DEP-MAP-ATTACH', ['C01', 'C02', 'C10'], min_instances=2)
def dep_map_attach(ctx: Ctx):
    """On every runner's execution path _set_results_map(M) is called for every direct dependency *instance* before
    run_or_load_task, with M derived from the runner's own results_map.  The enumeration must not merge equal
    instances (P(a=C(1), b=C(1)) holds two objects, and `self.b.result` needs the map on the second one too)."""
    sites = []
    for fn in ctx.P.all_functions():
        if not fn.module.name.startswith(f'{PKG}.runners'):
            continue
        for call in calls_in(fn.node):
            if rolt(ctx).qualname in ctx.P.resolve_call(call, fn):
                sites.append((fn, call))
    for (fn, call) in sites:
        g = ctx.cfg(fn)
        ta = kwarg(call, 'task', 0)
        loops = []
        why = ''
        for lp in [n for n in walk_local(fn.node) if isinstance(n, ast.For) and isinstance(n.target, ast.Name)]:
            it = strip_order_preserving(lp.iter)
            if not (isinstance(it, ast.Call) and it.args and same_expr(it.args[0], ta)):
                continue
            sets = [c for c in calls_in(lp) if isinstance(c.func, ast.Attribute) and c.func.attr == '_set_results_map'
                    and isinstance(c.func.value, ast.Name) and c.func.value.id == lp.target.id]
            if not sets:
                continue
            enum = [ctx.P.funcs[q] for q in ctx.P.resolve_call(it, fn, by_name=False) if q in ctx.P.funcs]
            if not enum:
                continue
            okc, why = _instance_complete(ctx, enum[0])
            if okc:
                loops.append((lp, sets[0]))
            else:
                why = f'`{src(it)[:60]}` does not enumerate every dependency instance: {why}'
        if not loops:
            yield ctx.ob('C01.DEP-MAP-ATTACH', False, fn, call, 'results map attached to every direct dependency instance',
                         why or f'no loop `for d in <every dependency instance of {src(ta)}>: d._set_results_map(...)` before run_or_load_task',
                         construct='no-attach-loop')
            continue
        lp, sc = loops[0]
        ok = g.dominates(g.primary(lp), g.primary(call)) and cond_in_loop(ctx, fn, lp, sc) == TRUE \
            and not early_exits(lp, allow_raise=True, allow_continue=False) \
            and g.must_pass(g.primary(lp), [g.primary(call)], [], exc=False) is not None
        # the loop must finish before the call: call not inside loop
        ok = ok and not any(x is call for x in ast.walk(lp))
        yield ctx.ob('C01.DEP-MAP-ATTACH', ok, fn, sc, 'every dependency gets the map before execution',
                     '' if ok else 'the results map is not attached to every direct dependency before run_or_load_task')
        # provenance of M
        m_arg = sc.args[0] if sc.args else None
        okm = _derives_from_results_map(ctx, fn, m_arg, g.primary(sc))
        yield ctx.ob('C01.DEP-MAP-ATTACH', okm, fn, sc, 'attached map derives from the runner\'s results_map',
                     '' if okm else f'`{src(m_arg) if m_arg else "?"}` does not derive from the runner\'s own results_map')


def _derives_from_results_map(ctx: Ctx, fn: FuncInfo, e, at: int, depth: int = 0) -> bool:
    if e is None or depth > 3:
        return False
    sn = fn.self_name
    if isinstance(e, ast.Attribute) and e.attr == 'results_map':
        return True
    if isinstance(e, ast.Name):
        # parameter of the worker entry: check what callers pass
        if e.id in [a.arg for a in fn.params]:
            ok_any = False
            all_ok = True
            for g2 in ctx.P.all_functions():
                if not g2.module.name.startswith(f'{PKG}.runners'):
                    continue
                for call in calls_in(g2.node):
                    passes = kwarg(call, e.id)
                    if passes is None:
                        continue
                    refs = [dotted(a) or '' for a in call.args[:1]] + [dotted(call.func) or '']
                    if not any(r.endswith(fn.name) or r.endswith('_subprocess_func') for r in refs):
                        continue
                    ok_any = True
                    gg = ctx.cfg(g2)
                    if not _derives_from_results_map(ctx, g2, passes, gg.primary(call), depth + 1):
                        all_ok = False
            return ok_any and all_ok
        g = ctx.cfg(fn)
        rd = ctx.rd(fn)
        defs = rd.reaching(at, e.id)
        oks = []
        for d in defs:
            dv = rd.def_value(d, e.id)
            if dv and dv[0] == 'value':
                v = dv[1]
                if isinstance(v, ast.DictComp):
                    oks.append(isinstance(v.value, ast.Subscript) and isinstance(v.value.value, ast.Attribute)
                               and v.value.value.attr == 'results_map' and same_expr(v.value.slice, v.key))
                elif isinstance(v, ast.Dict) and not v.keys:
                    oks.append(True)   # empty map on the load path
                else:
                    oks.append(_derives_from_results_map(ctx, fn, v, d, depth + 1))
            else:
                oks.append(False)
        return bool(oks) and all(oks) and any(True for _ in oks)
    return False


class _HasattrForm(ast.NodeTransformer):
    """`getattr(X, 'n', None) is None` -> `not hasattr(X, 'n')` (and `is not None` -> `hasattr`)."""

    def visit_Compare(self, node: ast.Compare):
        self.generic_visit(node)
        if len(node.ops) == 1 and isinstance(node.ops[0], (ast.Is, ast.IsNot)) and isinstance(node.comparators[0], ast.Constant) \
                and node.comparators[0].value is None and isinstance(node.left, ast.Call) and dotted(node.left.func) == 'getattr' \
                and len(node.left.args) == 3 and isinstance(node.left.args[2], ast.Constant) and node.left.args[2].value is None:
            h = ast.Call(func=ast.Name(id='hasattr', ctx=ast.Load()), args=node.left.args[:2], keywords=[])
            return ast.UnaryOp(op=ast.Not(), operand=h) if isinstance(node.ops[0], ast.Is) else h
        return node


@rule('C16.FILTER-DEFAULT', ['C16'])
def filter_default(ctx: Ctx):
    """The decorator installs the identity filter exactly when the class has no filter_context at all - `hasattr`, which sees a
    filter inherited from a parent task type or a mix-in; a test on the class's own namespace (`cls.__dict__` / `vars(cls)`)
    replaces an inherited filter by the identity, and run() then sees the whole Lab context.  The default itself returns
    its context argument unchanged."""
    deco = ctx.P.func('tasks.task.<locals>.decorator')
    cparam = deco.params[0].arg
    ws = [n for n in walk_local(deco.node) if isinstance(n, ast.Assign) and len(n.targets) == 1 and isinstance(n.targets[0], ast.Attribute)
          and n.targets[0].attr == 'filter_context' and isinstance(n.targets[0].value, ast.Name) and n.targets[0].value.id == cparam]
    ws += [n.value for n in walk_local(deco.node) if isinstance(n, ast.Expr) and isinstance(n.value, ast.Call) and dotted(n.value.func) == 'setattr'
           and len(n.value.args) == 3 and isinstance(n.value.args[1], ast.Constant) and n.value.args[1].value == 'filter_context']
    if not ws:
        raise AnalysisError('the decorator never installs a default filter_context')
    import copy
    need = formula_of(ctx, deco, f"not hasattr({cparam}, 'filter_context')")
    for w in ws:
        stmt = w if isinstance(w, ast.stmt) else next(n for n in walk_local(deco.node) if isinstance(n, ast.Expr) and n.value is w)
        # the guard, with getattr-None tests read as hasattr tests
        tests = []
        cur = stmt
        have = None
        for n in walk_local(deco.node):
            if isinstance(n, ast.If) and any(x is stmt for b in n.body for x in ast.walk(b)):
                t = ast.fix_missing_locations(_HasattrForm().visit(copy.deepcopy(n.test)))
                tests.append(formula_of(ctx, deco, t))
            elif isinstance(n, ast.If) and any(x is stmt for b in n.orelse for x in ast.walk(b)):
                t = ast.fix_missing_locations(_HasattrForm().visit(copy.deepcopy(n.test)))
                tests.append(f_not(formula_of(ctx, deco, t)))
        from ..formula import f_and
        have = f_and(*tests) if tests else TRUE
        ok = equivalent(have, need)
        yield ctx.ob('C16.FILTER-DEFAULT', ok, deco, stmt, "default installed iff not hasattr(cls, 'filter_context')", '' if ok else
                     f'the identity filter is installed when {show(have)}: a filter_context inherited from a parent task type or a mix-in is '
                     'overwritten (or a missing one is never supplied)')
        val = w.value if isinstance(w, ast.Assign) else w.args[2]
        d = None
        if isinstance(val, ast.Name):
            d = ctx.P.func(f'tasks.{val.id}') if ctx.P.has_func(f'tasks.{val.id}') else None
        okd = False
        if d is not None:
            body = [x for x in d.node.body if not (isinstance(x, ast.Expr) and isinstance(x.value, ast.Constant))]
            ps = [a.arg for a in d.params]
            okd = len(body) == 1 and isinstance(body[0], ast.Return) and isinstance(body[0].value, ast.Name) and len(ps) == 2 and body[0].value.id == ps[1]
        elif isinstance(val, ast.Lambda):
            ps = [a.arg for a in val.args.args]
            okd = len(ps) == 2 and isinstance(val.body, ast.Name) and val.body.id == ps[1]
        yield ctx.ob('C16.FILTER-DEFAULT', okd, deco, stmt, 'the default filter returns its context unchanged', '' if okd else
                     f'the default filter `{src(val)}` is not the identity on the context', construct='default-identity')


@rule('C16.FILTER-PROV', ['C16', 'C01'], min_instances=3)
def filter_prov(ctx: Ctx):
    """The filtered_context that reaches run_or_load_task is task.filter_context(<the Lab's context>) for
    the same task - exactly once - on every backend; run_or_load_task sets it before run()."""
    sites = []
    for fn in ctx.P.all_functions():
        if not fn.module.name.startswith(f'{PKG}.runners'):
            continue
        for call in calls_in(fn.node):
            if rolt(ctx).qualname in ctx.P.resolve_call(call, fn):
                sites.append((fn, call))
    n = 0
    for (fn, call) in sites:
        fc = kwarg(call, 'filtered_context', 3)
        ta = kwarg(call, 'task', 0)
        for (desc, ok, msg, node, holder) in _filter_chain(ctx, fn, fc, ta, ctx.cfg(fn).primary(call), 0):
            n += 1
            yield ctx.ob('C16.FILTER-PROV', ok, holder, node, desc, '' if ok else msg)
    # set_context(filtered_context) dominates run()
    fn = rolt(ctx)
    g = ctx.cfg(fn)
    runs = [c for c in calls_in(fn.node) if 'USER.run' in ctx.P.resolve_call(c, fn)]
    sets = [c for c in calls_in(fn.node) if isinstance(c.func, ast.Attribute) and c.func.attr == 'set_context']
    for r in runs:
        ok = any(g.dominates(g.primary(s), g.primary(r)) and s.args and isinstance(s.args[0], ast.Name)
                 and s.args[0].id == 'filtered_context' and same_expr(s.func.value, r.func.value) for s in sets)
        yield ctx.ob('C16.FILTER-PROV', ok, fn, r, 'task.set_context(filtered_context) before task.run()',
                     '' if ok else 'run() can start without the filtered context having been set on the task')
    # no other filter_context application inside run_or_load_task / worker entry (double filtering)
    extra = [c for c in calls_in(fn.node) if isinstance(c.func, ast.Attribute) and c.func.attr == 'filter_context']
    yield ctx.ob('C16.FILTER-PROV', not extra, fn, extra[0] if extra else fn.node, 'run_or_load_task does not filter again',
                 '' if not extra else 'run_or_load_task applies filter_context itself although its callers already pass a filtered context',
                 construct='double-filter' if extra else 'single-filter')


def _is_lab_context(ctx: Ctx, fn: FuncInfo, e) -> bool:
    """self.context of a runner (set from the constructor's context), or runner_memory.context."""
    if isinstance(e, ast.Attribute) and e.attr == 'context':
        return True
    return False


def _filter_chain(ctx: Ctx, fn: FuncInfo, fc, ta, at: int, depth: int):
    """Yields (description, ok, message, node, holder function) for the provenance of the filtered
    context argument."""
    g = ctx.cfg(fn)
    rd = ctx.rd(fn)
    if fc is None or depth > 3:
        yield ('filtered_context argument', False, 'run_or_load_task is called without a filtered_context', fn.node, fn)
        return
    if isinstance(fc, ast.Call) and isinstance(fc.func, ast.Attribute) and fc.func.attr == 'filter_context':
        ok = same_expr(fc.func.value, ta) and fc.args and _is_lab_context(ctx, fn, fc.args[0])
        yield (f'filtered_context = {src(fc)}', bool(ok),
               f'`{src(fc)}` is not <the executed task>.filter_context(<the Lab context>)', fc, fn)
        return
    if isinstance(fc, ast.Name):
        if fc.id in [a.arg for a in fn.params]:
            # follow to the callers that bind this parameter by keyword
            found = False
            for g2 in ctx.P.all_functions():
                if not g2.module.name.startswith(f'{PKG}.runners'):
                    continue
                for call in calls_in(g2.node):
                    passes = kwarg(call, fc.id)
                    if passes is None:
                        continue
                    refs = [dotted(a) or '' for a in call.args[:1]] + [dotted(call.func) or '']
                    if not any(r.split('.')[-1] in (fn.name, '_subprocess_func') for r in refs):
                        continue
                    found = True
                    ta2 = kwarg(call, 'task')
                    yield from _filter_chain(ctx, g2, passes, ta2, ctx.cfg(g2).primary(call), depth + 1)
            if not found:
                yield (f'parameter {fc.id}', False, f'no caller binds `{fc.id}` for {fn.short}', fn.node, fn)
            return
        defs = rd.reaching(at, fc.id)
        for d in sorted(defs):
            dv = rd.def_value(d, fc.id)
            node = g.node(d).ast or fn.node
            if dv and dv[0] == 'value':
                v = dv[1]
                if isinstance(v, ast.Dict) and not v.keys:
                    # empty context is only acceptable when the task is loaded, not run
                    c = cond_from_entry(ctx, fn, node)
                    later = [x for x in defs if x != d]
                    yield ('empty context placeholder on the load path', True, '', node, fn)
                    continue
                if isinstance(v, ast.Call):
                    for r in _filter_chain(ctx, fn, v, ta, d, depth + 1):
                        # the filtered definition must be reached exactly when the task will run
                        yield r
                    c = cond_from_entry(ctx, fn, node)
                    if c != TRUE:
                        need = formula_of(ctx, fn, 'not use_cache')
                        ok = equivalent(c, need)
                        if not ok and g.node(at).ast is not None:
                            # ... or simply wherever the filtered value is used (the definition dominates the use)
                            ok = implies(cond_from_entry(ctx, fn, g.node(at).ast), c) and g.dominates(d, at)
                        yield ('context filtered whenever the task will execute', ok,
                               f'the context is filtered only when {show(c)}; a task that runs with use_cache False must get it', node, fn)
                    continue
            yield (f'definition of {fc.id}', False, f'`{src(node)[:60]}` is not a filter_context application', node, fn)
        return
    yield (f'filtered_context = {src(fc)}', False, f'`{src(fc)}` is not derived from task.filter_context(context)', fc, fn)


@rule('SERIAL-ONE', ['C04', 'C16', 'C05', 'C14', 'C11'])
def serial_one(ctx: Ctx):
    """SerialRunner.wait runs at most one task per invocation (the oldest submission, unconditionally),
    in the caller's thread: no process/thread creation in serial.py or base.py."""
    from .executor import creations
    sr = ctx.P.cls('runners.serial.SerialRunner')
    w = ctx.P.find_method(sr, 'wait')
    g = ctx.cfg(w)
    calls = [c for c in calls_in(w.node) if rolt(ctx).qualname in ctx.P.resolve_call(c, w)]
    ok = len(calls) == 1 and roles.enclosing_loop_of(w.node, calls[0]) is None
    yield ctx.ob('SERIAL-ONE', ok, w, calls[0] if calls else w.node, 'one run_or_load_task call per wait(), not in a loop',
                 '' if ok else 'the serial runner executes more than one task per wait() or none')
    bad = [c for c in creations(ctx) if c.fn.module.name in (f'{PKG}.runners.serial', f'{PKG}.runners.base')]
    yield ctx.ob('SERIAL-ONE', not bad, bad[0].fn if bad else w, bad[0].call if bad else w.node,
                 'no process/thread creation in serial.py / base.py',
                 '' if not bad else 'the serial backend creates a process or thread', construct='serial-creation')
    # the popped oldest submission flows unconditionally into the execution
    pf = pending_field(ctx, sr)
    pops = [wr for wr in field_writes(w) if wr.field == pf and wr.kind in ('mutcall:popleft', 'mutcall:pop')]
    okp = False
    if pops and calls:
        pn = g.primary(pops[0].node)
        cn = g.primary(calls[0])
        oldest = pops[0].kind == 'mutcall:popleft' or (pops[0].node.args and isinstance(pops[0].node.args[0], ast.Constant)
                                                       and pops[0].node.args[0].value == 0)
        okp = oldest and g.dominates(pn, cn) and g.must_pass(pn, [cn], [g.exit], exc=False)
    yield ctx.ob('SERIAL-ONE', okp, w, pops[0].node if pops else w.node, 'oldest submission popped and always executed',
                 '' if okp else 'the serial runner does not take the oldest submission or can return without executing it',
                 construct='serial-pop')
    subm = ctx.P.find_method(sr, 'submit_task')
    app = [wr for wr in field_writes(subm) if wr.field == pf and wr.kind == 'mutcall:append']
    yield ctx.ob('SERIAL-ONE', bool(app), subm, app[0].node if app else subm.node, 'submissions appended in order',
                 '' if app else 'submit_task does not append to the submission queue', construct='serial-append')
    canc = ctx.P.find_method(sr, 'cancel')
    cl = [wr for wr in field_writes(canc) if wr.field == pf and wr.kind in ('mutcall:clear', 'rebind')]
    yield ctx.ob('SERIAL-ONE', bool(cl), canc, cl[0].node if cl else canc.node, 'cancel() empties the submission queue',
                 '' if cl else 'SerialRunner.cancel leaves queued submissions: tasks start after an interrupt', construct='serial-cancel')


@rule('C03.LOAD-XOR-EXEC', ['C03', 'C06', 'C01', 'C08', 'C10', 'C02', 'C16'])
def load_xor_exec(ctx: Ctx):
    """run_or_load_task: with use_cache one load and no run/save; otherwise exactly one run() followed
    by exactly one save(storage, task, <the returned TaskResult>) on every normal path."""
    fn = rolt(ctx)
    g = ctx.cfg(fn)
    rd = ctx.rd(fn)
    fb = ctx.fb(fn)
    facts = ctx.facts(fn, exc=True)
    uc = formula_of(ctx, fn, 'use_cache')
    loads = [c for c in calls_in(fn.node) if any(q.endswith('.load_result_with_meta') for q in ctx.P.resolve_call(c, fn))]
    runs = [c for c in calls_in(fn.node) if 'USER.run' in ctx.P.resolve_call(c, fn)]
    saves = [c for c in calls_in(fn.node) if any(q.endswith('Cache.save') for q in ctx.P.resolve_call(c, fn))]
    for (what, lst) in (('load_result_with_meta', loads), ('task.run()', runs), ('Cache.save', saves)):
        if len(lst) != 1:
            yield ctx.ob('C03.LOAD-XOR-EXEC', False, fn, lst[1] if len(lst) > 1 else fn.node, f'exactly one {what} call',
                         f'run_or_load_task contains {len(lst)} calls to {what}, expected exactly one', construct=f'count:{what}')
    if len(loads) != 1 or len(runs) != 1 or len(saves) != 1:
        return
    ld, rn, sv = loads[0], runs[0], saves[0]
    for c in (ld, rn, sv):
        if roles.enclosing_loop_of(fn.node, c) is not None:
            yield ctx.ob('C03.LOAD-XOR-EXEC', False, fn, c, 'not in a loop', f'`{src(c)[:50]}` is inside a loop')
    f_ld = facts.formula_at(g.primary(ld), fb)
    f_rn = facts.formula_at(g.primary(rn), fb)
    f_sv = facts.formula_at(g.primary(sv), fb)
    ok = implies(f_ld, uc) and implies(f_rn, f_not(uc)) and implies(f_sv, f_not(uc))
    yield ctx.ob('C03.LOAD-XOR-EXEC', ok, fn, ld, 'load only under use_cache; run and save only without',
                 '' if ok else f'load when {show(f_ld)}, run when {show(f_rn)}, save when {show(f_sv)}: a cached task can be executed '
                 '(or an executed task loaded) - including through an exception path')
    # normal-path structure on the execute side
    tests = [n.id for n in g.nodes if n.kind == 'test' and equivalent(fb.build(n.ast), uc)]
    ntests = [n.id for n in g.nodes if n.kind == 'test' and equivalent(fb.build(n.ast), f_not(uc))]
    starts = [t for n in tests for (t, lab) in g.succ[n] if lab == 'false'] + \
             [t for n in ntests for (t, lab) in g.succ[n] if lab == 'true']
    lstarts = [t for n in tests for (t, lab) in g.succ[n] if lab == 'true'] + \
              [t for n in ntests for (t, lab) in g.succ[n] if lab == 'false']
    if not starts or not lstarts:
        yield ctx.ob('C03.LOAD-XOR-EXEC', False, fn, fn.node, 'branch on use_cache', 'no branch on the use_cache parameter found',
                     construct='no-branch')
        return
    rnn, svn, ldn = g.primary(rn), g.primary(sv), g.primary(ld)
    ok1 = all(not (g.reachable([s], avoid=[rnn], exc=False) & {g.exit}) for s in starts)
    ok2 = not (g.reachable([rnn], avoid=[svn], exc=False, include_starts=False) & {g.exit})
    ok3 = g.dominates(rnn, svn)
    yield ctx.ob('C03.LOAD-XOR-EXEC', ok1 and ok2 and ok3, fn, rn, 'execute side: run then save on every normal path',
                 '' if ok1 and ok2 and ok3 else 'on the execute side a normal return is possible without run() followed by save()')
    ok4 = all(not (g.reachable([s], avoid=[ldn], exc=False) & {g.exit}) for s in lstarts)
    yield ctx.ob('C03.LOAD-XOR-EXEC', ok4, fn, ld, 'load side: the load is on every normal path',
                 '' if ok4 else 'on the load side a normal return is possible without loading')
    # arguments: save(storage, task, TR) and return TR
    args_ok = len(sv.args) >= 3 and all(isinstance(a, ast.Name) for a in sv.args[:3]) \
        and sv.args[0].id == 'storage' and sv.args[1].id == 'task' \
        and same_expr(sv.func.value, ast.parse('task._lt.cache', mode='eval').body)
    rets = [n for n in walk_local(fn.node) if isinstance(n, ast.Return) and n.value is not None]
    ret_ok = False
    val_ok = False
    if args_ok:
        trn = sv.args[2].id
        for r in rets:
            if g.primary(r) in g.reachable([svn], exc=False) and isinstance(r.value, ast.Name) and r.value.id == trn \
                    and rd.same_binding(svn, g.primary(r), trn):
                ret_ok = True
        d = rd.single_def(svn, trn)
        dv = rd.def_value(d, trn) if d is not None else None
        if dv and dv[0] == 'value' and isinstance(dv[1], ast.Call) and any(q.endswith('TaskResult') for q in ctx.P.resolve_call(dv[1], fn)):
            v = kwarg(dv[1], 'value', 0)
            if isinstance(v, ast.Name):
                vd = rd.single_def(d, v.id)
                vv = rd.def_value(vd, v.id) if vd is not None else None
                val_ok = bool(vv and vv[0] == 'value' and vv[1] is rn)
            meta = kwarg(dv[1], 'meta', 1)
            if isinstance(meta, ast.Name):
                # `result_meta = ResultMeta(...)` named first
                md = rd.single_def(d, meta.id)
                mv = rd.def_value(md, meta.id) if md is not None else None
                meta = mv[1] if (mv and mv[0] == 'value') else meta
            val_ok = val_ok and isinstance(meta, ast.Call) and any(q.endswith('ResultMeta') for q in ctx.P.resolve_call(meta, fn))
    yield ctx.ob('C03.LOAD-XOR-EXEC', args_ok and ret_ok and val_ok, fn, sv, 'save(storage, task, TaskResult(value=run())) and the same TaskResult is returned',
                 '' if args_ok and ret_ok and val_ok else 'the saved TaskResult is not the one built from run()\'s return value, or is not what is returned')
    # load side returns the loaded value for the same task
    ldargs = len(ld.args) >= 2 and isinstance(ld.args[0], ast.Name) and ld.args[0].id == 'storage' \
        and isinstance(ld.args[1], ast.Name) and ld.args[1].id == 'task' \
        and same_expr(ld.func.value, ast.parse('task._lt.cache', mode='eval').body)
    lret = False
    for r in rets:
        rn_ = g.primary(r)
        if rn_ in g.reachable([ldn], exc=False):
            if r.value is ld:
                lret = True
            elif isinstance(r.value, ast.Name):
                d = rd.single_def(rn_, r.value.id)
                dv = rd.def_value(d, r.value.id) if d is not None else None
                lret = lret or bool(dv and dv[0] == 'value' and dv[1] is ld)
    yield ctx.ob('C03.LOAD-XOR-EXEC', ldargs and lret, fn, ld, 'load_result_with_meta(storage, task) of the task\'s own cache is returned',
                 '' if ldargs and lret else 'the load branch does not return task._lt.cache.load_result_with_meta(storage, task)')
    # timing brackets the run
    nows = [c for c in calls_in(fn.node) if (dotted(c.func) or '').endswith('datetime.now') or dotted(c.func) == 'datetime.now']
    before = [c for c in nows if g.dominates(g.primary(c), rnn) and g.primary(c) != rnn]
    after = [c for c in nows if g.dominates(rnn, g.primary(c)) and g.primary(c) != rnn]
    yield ctx.ob('C03.LOAD-XOR-EXEC', bool(before) and bool(after), fn, rn, 'start/end timestamps bracket run()',
                 '' if before and after else 'the recorded start/duration do not bracket the run() call', construct='timing')


@rule('C14.FINALLY-CLEANUP', ['C14'])
def finally_cleanup(ctx: Ctx):
    """runner.close() is in the finally of the coordinator's run; run_or_load_task restores the process
    name in a finally."""
    run = ctx.P.func('lab.TaskCoordinator.run')
    closes = {f.qualname for f in roles.impls(ctx, roles.RUNNER, 'close')}
    ok = False
    for t in [t for t in walk_local(run.node) if isinstance(t, ast.Try) and t.finalbody]:
        for s in t.finalbody:
            for c in calls_in(ast.Module(body=[s], type_ignores=[])):
                if set(ctx.P.resolve_call(c, run)) & closes:
                    # unconditional within the finally
                    ok = True
    yield ctx.ob('C14.FINALLY-CLEANUP', ok, run, run.node, 'runner.close() in finally', '' if ok else
                 'runner.close() is not called from a finally block of TaskCoordinator.run', construct='close-in-finally')
    fn = rolt(ctx)
    ok2 = False
    for t in [t for t in walk_local(fn.node) if isinstance(t, ast.Try) and t.finalbody]:
        for s in t.finalbody:
            if isinstance(s, ast.Assign) and isinstance(s.targets[0], ast.Attribute) and s.targets[0].attr == 'name':
                ok2 = True
    yield ctx.ob('C14.FINALLY-CLEANUP', ok2, fn, fn.node, 'process name restored in finally', '' if ok2 else
                 'run_or_load_task does not restore the process name in a finally block', construct='name-in-finally')


@rule('C10.MLFLOW-IN-RUN', ['C10', 'C16'])
def mlflow_in_run(ctx: Ctx):
    """Every call of the mlflow fluent API made for a task lies inside that task's `with mlflow.start_run():` block (directly,
    or in a local helper that is only called from inside it).  A fluent call outside an active run - in a handler after the
    block has ended, say - silently starts a new run that nobody ends; on the serial backend every later mlflow task then fails
    with "run already active", i.e. one task's failure takes unrelated tasks with it."""
    fn = ctx.P.func('runners.base.optional_mlflow')
    withs = [w for w in walk_local(fn.node) if isinstance(w, ast.With) and any(
        isinstance(it.context_expr, ast.Call) and (dotted(it.context_expr.func) or '') == 'mlflow.start_run' for it in w.items)]
    if not withs:
        raise AnalysisError('optional_mlflow has no `with mlflow.start_run():` block')
    inside = {id(x) for w in withs for b in w.body for x in ast.walk(b)}
    # local helpers: fine if every call to them is inside the block
    helper_ok: dict[str, bool] = {}
    for h in fn.nested.values():
        calls = [c for c in ast.walk(fn.node) if isinstance(c, ast.Call) and isinstance(c.func, ast.Name) and c.func.id == h.name
                 and not any(x is c for x in ast.walk(h.node))]
        helper_ok[h.name] = bool(calls) and all(id(c) in inside for c in calls)
    n = 0
    for f in [fn] + list(fn.nested.values()):
        for c in calls_in(f.node):
            d = dotted(c.func) or ''
            if not d.startswith('mlflow.') or d == 'mlflow.start_run':
                continue
            n += 1
            ok = id(c) in inside or (f is not fn and helper_ok.get(f.name, False))
            yield ctx.ob('C10.MLFLOW-IN-RUN', ok, f, c, f'{d}() inside the task\'s mlflow run', '' if ok else
                         f'`{src(c)[:50]}` is called outside `with mlflow.start_run()`: the fluent API starts an implicit run that is never ended, and '
                         'every later mlflow task in the same process fails')
    if n == 0:
        raise AnalysisError('no mlflow fluent-API calls found in optional_mlflow')
