"""C18 - LocalStorage never reads, writes or deletes outside its directory.

Taint analysis with a recognised sanitiser: every filesystem sink in LocalStorage must have
its path operand in one of five provenance classes (DESIGN.md C18.SINKS)."""
from __future__ import annotations

import ast
from typing import Optional

from .. import roles
from ..dataflow import expand_locals
from ..engine import Ctx, calls_in, early_exits, kwarg, rule, strip_order_preserving
from ..formula import FALSE, TRUE, canon, equivalent, f_not, implies, opaque, show
from ..model import PKG, AnalysisError, FuncInfo, dotted, src, walk_local

WRITE_METHODS = {'mkdir', 'open', 'touch', 'unlink', 'rmdir', 'rename', 'replace', 'write_text', 'write_bytes',
                 'symlink_to', 'hardlink_to', 'link_to', 'chmod', 'lchmod'}
READ_METHODS = {'exists', 'is_dir', 'is_file', 'is_symlink', 'iterdir', 'glob', 'rglob', 'stat', 'lstat',
                'read_text', 'read_bytes', 'samefile', 'walk'}
PATH_ALGEBRA = {'resolve', 'absolute', 'with_name', 'with_suffix', 'relative_to', 'joinpath', 'expanduser',
                'as_posix', 'is_absolute', 'is_relative_to', 'match'}
FS_FUNCS_PREFIX = ('shutil.', 'os.remove', 'os.unlink', 'os.rmdir', 'os.mkdir', 'os.makedirs', 'os.rename',
                   'os.replace', 'os.removedirs', 'os.symlink', 'os.link', 'os.chmod', 'os.truncate',
                   'os.open', 'os.listdir', 'os.scandir', 'os.walk', 'os.stat', 'os.path.exists',
                   'os.path.isdir', 'os.path.isfile', 'tempfile.')


def local_storage(ctx: Ctx):
    return ctx.P.cls('storage.LocalStorage')


def root_field(ctx: Ctx) -> str:
    """The field holding the storage directory: the self attribute passed as storage_path= to the
    validator inside the key-to-path helper."""
    c = local_storage(ctx)
    v = ctx.P.func('storage.validate_file_path_key')
    for m in c.methods.values():
        for call in calls_in(m.node):
            if v.qualname in ctx.P.resolve_call(call, m):
                sp = kwarg(call, 'storage_path', 1)
                if isinstance(sp, ast.Attribute) and isinstance(sp.value, ast.Name) and sp.value.id == m.self_name:
                    return sp.attr
    raise AnalysisError('LocalStorage never calls validate_file_path_key(key, storage_path=self.<root>)')


def key_to_path_fn(ctx: Ctx) -> FuncInfo:
    c = local_storage(ctx)
    v = ctx.P.func('storage.validate_file_path_key')
    cands = [m for m in c.methods.values()
             if any(v.qualname in ctx.P.resolve_call(call, m) for call in calls_in(m.node))]
    if len(cands) != 1:
        raise AnalysisError(f'expected one LocalStorage method calling the key validator, found {[m.name for m in cands]}')
    return cands[0]


class Prov:
    ROOT = 'ROOT'
    CONST_CHILD = 'ROOT-CONST-CHILD'
    LISTED_CHILD = 'ROOT-LISTED-CHILD'
    VALIDATED = 'VALIDATED-KEY'
    KEY_FILE = 'KEY-FILE'          # (VALIDATED / filename).resolve() - needs the parent guard
    KEY_FILE_UNRESOLVED = 'KEY-FILE-UNRESOLVED'
    PRE_ROOT = 'PRE-ROOT'          # the constructor's own storage_dir argument
    RAW = 'RAW'


def provenance(ctx: Ctx, fn: FuncInfo, e: ast.AST, at: int, root: str, k2p: FuncInfo, depth: int = 0) -> str:
    g = ctx.cfg(fn)
    rd = ctx.rd(fn)
    sn = fn.self_name
    if depth > 8:
        return Prov.RAW
    if isinstance(e, ast.Attribute) and isinstance(e.value, ast.Name) and e.value.id == sn and e.attr == root:
        return Prov.ROOT
    if isinstance(e, ast.Call) and isinstance(e.func, ast.Attribute) and e.func.attr in ('resolve', 'absolute') \
            and not e.args:
        inner = provenance(ctx, fn, e.func.value, at, root, k2p, depth + 1)
        if inner == Prov.KEY_FILE_UNRESOLVED and e.func.attr == 'resolve':
            return Prov.KEY_FILE
        return inner
    if isinstance(e, ast.Call):
        cs = ctx.P.resolve_call(e, fn, by_name=False)
        if k2p.qualname in cs and len(cs) == 1:
            return Prov.VALIDATED
        if dotted(e.func) in ('Path', 'pathlib.Path', 'PosixPath', 'str') and len(e.args) == 1:
            return provenance(ctx, fn, e.args[0], at, root, k2p, depth + 1)
        return Prov.RAW
    if isinstance(e, ast.BinOp) and isinstance(e.op, ast.Div):
        left = provenance(ctx, fn, e.left, at, root, k2p, depth + 1)
        if left == Prov.ROOT and isinstance(e.right, ast.Constant) and isinstance(e.right.value, str):
            s = e.right.value
            if s and s not in ('.', '..') and not any(ch in s for ch in '/\\\0'):
                return Prov.CONST_CHILD
            return Prov.RAW
        if left == Prov.VALIDATED:
            return Prov.KEY_FILE_UNRESOLVED
        return Prov.RAW
    if isinstance(e, ast.Name):
        dn = rd.single_def(at, e.id)
        if dn is None:
            return Prov.RAW
        if dn == g.entry:
            if fn.name == '__init__':
                ps = [a.arg for a in fn.params if a.arg != sn]
                if ps and e.id == ps[0]:
                    return Prov.PRE_ROOT
            return Prov.RAW
        dv = rd.def_value(dn, e.id)
        if dv is None:
            return Prov.RAW
        if dv[0] == 'value':
            return provenance(ctx, fn, dv[1], dn, root, k2p, depth + 1)
        if dv[0] == 'element':
            it = strip_order_preserving(dv[1])
            if isinstance(it, ast.Call) and isinstance(it.func, ast.Attribute) and it.func.attr == 'iterdir' \
                    and provenance(ctx, fn, it.func.value, dn, root, k2p, depth + 1) == Prov.ROOT:
                return Prov.LISTED_CHILD
        if dv[0] == 'with':
            return Prov.RAW
        return Prov.RAW
    return Prov.RAW


def _comprehension_prov(ctx: Ctx, fn: FuncInfo, name: str, call: ast.Call, root: str, k2p: FuncInfo, at: int) -> Optional[str]:
    """Provenance of a comprehension variable: element of ROOT.iterdir()."""
    for n in walk_local(fn.node):
        if isinstance(n, (ast.ListComp, ast.SetComp, ast.GeneratorExp, ast.DictComp)):
            if any(x is call for x in ast.walk(n)):
                for gen in n.generators:
                    if isinstance(gen.target, ast.Name) and gen.target.id == name:
                        it = strip_order_preserving(gen.iter)
                        if isinstance(it, ast.Call) and isinstance(it.func, ast.Attribute) and it.func.attr == 'iterdir' \
                                and provenance(ctx, fn, it.func.value, at, root, k2p) == Prov.ROOT:
                            return Prov.LISTED_CHILD
                        return Prov.RAW
    return None


def sinks(ctx: Ctx, fn: FuncInfo):
    """(call, operand expression, effect name, is_write) for every filesystem effect in fn."""
    out = []
    for call in calls_in(fn.node):
        d = dotted(call.func)
        r = ctx.P.resolve_dotted(fn.module, d) if d and not ctx.P._is_local_name(d.split('.')[0], fn) else None
        if r == 'open' or d == 'open':
            if call.args:
                out.append((call, call.args[0], 'open()', True))
            continue
        if r and r.startswith(FS_FUNCS_PREFIX):
            if call.args:
                ro = r in ('os.listdir', 'os.scandir', 'os.walk', 'os.stat', 'os.path.exists', 'os.path.isdir', 'os.path.isfile')
                out.append((call, call.args[0], r, not ro))
                # two-path functions
                if r in ('shutil.move', 'shutil.copy', 'shutil.copy2', 'shutil.copytree', 'shutil.copyfile',
                         'os.rename', 'os.replace', 'os.symlink', 'os.link') and len(call.args) > 1:
                    out.append((call, call.args[1], r, True))
            continue
        if isinstance(call.func, ast.Attribute):
            a = call.func.attr
            if a in WRITE_METHODS or a in READ_METHODS:
                out.append((call, call.func.value, f'.{a}()', a in WRITE_METHODS))
    return out


@rule('C18.SINKS', ['C18'], min_instances=8)
def c18_sinks(ctx: Ctx):
    """Every filesystem effect in LocalStorage has a path operand of sanctioned provenance."""
    c = local_storage(ctx)
    root = root_field(ctx)
    k2p = key_to_path_fn(ctx)
    allowed = {
        Prov.ROOT: lambda eff, w, fn: (not w) or (eff == '.mkdir()' and fn.name == '__init__'),
        Prov.PRE_ROOT: lambda eff, w, fn: not w,
        Prov.CONST_CHILD: lambda eff, w, fn: fn.name == '__init__',
        Prov.LISTED_CHILD: lambda eff, w, fn: not w,
        Prov.VALIDATED: lambda eff, w, fn: eff in ('.exists()', '.mkdir()', '.is_dir()', '.iterdir()', 'shutil.rmtree',
                                                    '.stat()', '.is_file()', '.is_symlink()'),
        Prov.KEY_FILE: lambda eff, w, fn: True,   # subject to C18.GUARDED-FILE
    }
    for m in sorted(c.methods.values(), key=lambda f: f.node.lineno):
        g = ctx.cfg(m)
        for (call, operand, eff, is_write) in sinks(ctx, m):
            # file-object methods (gitignore_file.write) are not path sinks: skip receivers bound by `with ... as f`
            at = g.primary(call)
            pv = provenance(ctx, m, operand, at, root, k2p)
            if pv == Prov.RAW and isinstance(operand, ast.Name):
                cp = _comprehension_prov(ctx, m, operand.id, call, root, k2p, at)
                if cp is not None:
                    pv = cp
            ok = pv in allowed and allowed[pv](eff, is_write, m)
            yield ctx.ob('C18.SINKS', ok, m, call, f'{eff} on {src(operand)} [{pv}]',
                         '' if ok else (f'filesystem effect {eff} on `{src(operand)}` whose provenance is {pv}: '
                                        'the path is not confined by the key validator / filename guard'
                                        if pv not in allowed else
                                        f'effect {eff} is not allowed on a {pv} path in {m.name}'))


@rule('C18.WRITES-STAY-HOME', ['C18'])
def c18_writes_stay_home(ctx: Ctx):
    """Only LocalStorage's own methods (whose path operands C18.SINKS vets) and the standard library change the
    filesystem: a package helper reached from LocalStorage that creates, writes or removes files itself - a hand-rolled
    recursive delete, say - works on paths this analysis has not confined (and shutil.rmtree's refusal to follow
    symbolic links is lost)."""
    c = local_storage(ctx)
    n = 0
    for m in sorted(c.methods.values(), key=lambda f: f.node.lineno):
        for call in calls_in(m.node):
            for q in ctx.P.resolve_call(call, m, by_name=False):
                f0 = ctx.P.funcs.get(q)
                roots = [f0] if f0 is not None else []
                if f0 is None and q in ctx.P.classes and ctx.P.classes[q] is not c and ctx.P.classes[q] not in ctx.P.mro(c):
                    # a package class constructed here (a file wrapper, a writer object): all of its methods count
                    roots = list(ctx.P.classes[q].methods.values())
                    f0 = roots[0] if roots else None
                if f0 is None or f0.cls is c or (f0.cls is not None and f0.cls in ctx.P.mro(c)):
                    continue
                n += 1
                bad = []
                for f in ctx.P.closure(roots, include_nested=True):
                    if f.cls is c:
                        continue
                    for (scall, operand, eff, is_write) in sinks(ctx, f):
                        if is_write:
                            bad.append((f, scall, eff))
                ok = not bad
                yield ctx.ob('C18.WRITES-STAY-HOME', ok, m, call, f'{f0.short} reached from {m.name} changes no files itself',
                             '' if ok else f'{bad[0][0].short} performs {bad[0][2]} (`{src(bad[0][1])[:50]}`) on a path handed to it by LocalStorage.{m.name}: '
                             'filesystem changes outside LocalStorage are not confined to the storage directory by the validator / do not refuse symbolic links')
    yield ctx.ob('C18.WRITES-STAY-HOME', True, None, None, f'{n} package helpers reached from LocalStorage scanned', construct='scan', path='labtech/storage.py')


@rule('C18.KEY-TO-PATH', ['C18'])
def c18_key_to_path(ctx: Ctx):
    """_key_to_path validates the very key it converts, against the storage root, before returning
    root / key."""
    k2p = key_to_path_fn(ctx)
    root = root_field(ctx)
    v = ctx.P.func('storage.validate_file_path_key')
    g = ctx.cfg(k2p)
    sn = k2p.self_name
    kparam = [a.arg for a in k2p.params if a.arg != sn][0]
    vcalls = [c for c in calls_in(k2p.node) if v.qualname in ctx.P.resolve_call(c, k2p)]
    for vc in vcalls:
        karg = kwarg(vc, 'key', 0)
        sp = kwarg(vc, 'storage_path', 1)
        ok = isinstance(karg, ast.Name) and karg.id == kparam and ctx.rd(k2p).single_def(g.primary(vc), kparam) == g.entry \
            and isinstance(sp, ast.Attribute) and sp.attr == root
        yield ctx.ob('C18.KEY-TO-PATH', ok, k2p, vc, 'validator called on the key parameter against the root',
                     '' if ok else f'validator call `{src(vc)}` does not validate parameter `{kparam}` against self.{root}')
    from ..engine import memo_decorators
    for f in (k2p, v):
        md = memo_decorators(f)
        yield ctx.ob('C18.KEY-TO-PATH', not md, f, f.node, f'{f.name} runs on every call (not memoised)',
                     '' if not md else f'{f.name} is wrapped by {md}: a key accepted once is not re-validated when the '
                     'directory layout changes (e.g. the key directory is replaced by a symlink)', construct=f'memo:{f.name}')
    rets = [n for n in walk_local(k2p.node) if isinstance(n, ast.Return)]
    vnodes = [g.primary(vc) for vc in vcalls]
    for r in rets:
        rn = g.primary(r)
        dom = any(g.dominates(vn, rn) for vn in vnodes)
        val = expand_locals(g, ctx.rd(k2p), r.value, rn) if r.value is not None else None
        shape = False
        if val is not None:
            core = val
            if isinstance(core, ast.Call) and isinstance(core.func, ast.Attribute) and core.func.attr == 'resolve' and not core.args:
                core = core.func.value
            shape = isinstance(core, ast.BinOp) and isinstance(core.op, ast.Div) \
                and isinstance(core.left, ast.Attribute) and core.left.attr == root \
                and isinstance(core.left.value, ast.Name) and core.left.value.id == sn \
                and isinstance(core.right, ast.Name) and core.right.id == kparam
        ok = dom and shape
        yield ctx.ob('C18.KEY-TO-PATH', ok, k2p, r, 'return of root / key dominated by validation',
                     '' if ok else ('the returned path is not `self.%s / %s`' % (root, kparam) if not shape else
                                    'a path is returned without the validator having run'))


def _char_exprs_required():
    return {"Constant('.')": "'.'", "Constant('/')": "'/'", "Constant('\\\\')": "'\\\\'",
            'os.path.sep': 'os.path.sep', 'os.path.altsep': 'os.path.altsep'}


@rule('C18.VALIDATOR-SHAPE', ['C18', 'C07'], min_instances=3)
def c18_validator_shape(ctx: Ctx):
    """validate_file_path_key rejects the empty key, every separator / dot character, and any key
    whose resolved location is not a direct child of the resolved storage directory."""
    v = ctx.P.func('storage.validate_file_path_key')
    g = ctx.cfg(v)
    rd = ctx.rd(v)
    fb = ctx.fb(v)
    ps = [a.arg for a in v.params]
    kparam = ps[0]
    sparam = 'storage_path' if 'storage_path' in ps else (ps[1] if len(ps) > 1 else None)
    if sparam is None:
        raise AnalysisError('validator has no storage_path parameter')
    facts = ctx.facts(v, exc=True)

    def exp(e, at):
        return expand_locals(g, rd, e, at)
    at_exit = facts.formula_at(g.exit, fb, expand=exp)
    # (i) empty key
    from ..formula import truthy_atom
    need = truthy_atom(ast.Name(id=kparam, ctx=ast.Load()))
    ok = implies(at_exit, need)
    yield ctx.ob('C18.VALIDATOR-SHAPE', ok, v, v.node, 'empty key rejected',
                 '' if ok else f'a normal return is possible with an empty key (exit facts: {show(at_exit)})',
                 construct='empty-key')
    # (iii) resolved parent equality
    expect_l = ast.parse(f'({sparam} / {kparam}).resolve().parent', mode='eval').body
    expect_r = ast.parse(f'{sparam}.resolve()', mode='eval').body
    ks = sorted([canon(expect_l), canon(expect_r)])
    need_eq = opaque('eq', *ks)
    ok = implies(at_exit, need_eq)
    yield ctx.ob('C18.VALIDATOR-SHAPE', ok, v, v.node, 'resolved parent of the key equals the resolved storage directory',
                 '' if ok else (f'no guard establishes ({sparam} / {kparam}).resolve().parent == {sparam}.resolve() on the normal exit '
                                f'(exit facts: {show(at_exit)}); symlinked or nested keys are not rejected'),
                 construct='resolved-parent')
    # (ii) forbidden characters
    required = {"'.'": False, "'/'": False, "'\\\\'": False, 'os.path.sep': False, 'os.path.altsep': False}
    found_loop = False
    def elements(e: ast.AST, at: int, depth: int = 0):
        """The element expressions of the forbidden-character collection `e` denotes at node `at`: a literal display,
        a `[c for c in <collection> if c is not None]` filter of one, or a local list literal extended by
        `name.append(X)` statements that are unconditional or guarded by exactly `X is not None`."""
        from ..engine import cond_from_entry, formula_of
        e = strip_order_preserving(e)
        if depth > 4:
            return None
        if isinstance(e, (ast.List, ast.Tuple, ast.Set)):
            return list(e.elts)
        if isinstance(e, ast.Call) and dotted(e.func) in ('tuple', 'list', 'frozenset', 'set') and len(e.args) == 1 and not e.keywords:
            return elements(e.args[0], at, depth + 1)
        if isinstance(e, ast.Name) and rd.single_def(at, e.id) in (None, g.entry) and e.id in v.module.consts \
                and not ctx.P._is_local_name(e.id, v):
            return elements(v.module.consts[e.id], at, depth + 1)      # a module-level constant
        if isinstance(e, (ast.ListComp, ast.GeneratorExp)) and len(e.generators) == 1 and isinstance(e.elt, ast.Name) \
                and isinstance(e.generators[0].target, ast.Name) and e.elt.id == e.generators[0].target.id:
            gen = e.generators[0]
            okf = all(isinstance(c, ast.Compare) and isinstance(c.left, ast.Name) and c.left.id == e.elt.id and len(c.ops) == 1
                      and isinstance(c.ops[0], ast.IsNot) and isinstance(c.comparators[0], ast.Constant) and c.comparators[0].value is None
                      for c in gen.ifs)
            return elements(gen.iter, at, depth + 1) if okf else None
        if isinstance(e, ast.Name):
            d = rd.single_def(at, e.id)
            dv = rd.def_value(d, e.id) if d is not None else None
            if not dv or dv[0] != 'value':
                return None
            base = elements(dv[1], d, depth + 1)
            if base is None:
                return None
            out = list(base)
            for c in calls_in(v.node):
                if isinstance(c.func, ast.Attribute) and c.func.attr == 'append' and isinstance(c.func.value, ast.Name) \
                        and c.func.value.id == e.id and len(c.args) == 1:
                    cnode = g.primary(c)
                    if not g.dominates(d, cnode) or at not in g.reachable([cnode], exc=False):
                        continue
                    cond = cond_from_entry(ctx, v, c)
                    # relative to the definition: only the append's own guard may differ
                    base_cond = facts.formula_at(d, fb, expand=exp)
                    own = formula_of(ctx, v, f'{src(c.args[0])} is not None')
                    if equivalent(cond, base_cond) or equivalent(cond, f_and_(base_cond, own)):
                        out.append(c.args[0])
            return out
        return None

    from ..formula import f_and as f_and_
    for lp in [n for n in walk_local(v.node) if isinstance(n, ast.For) and isinstance(n.target, ast.Name)]:
        elts = elements(lp.iter, g.primary(lp))
        if elts is None:
            continue
        it = ast.List(elts=elts, ctx=ast.Load())
        cv = lp.target.id
        # body must raise whenever cv in key (and cv is not None)
        raises = [n for n in walk_local(lp) if isinstance(n, ast.Raise)]
        if not raises:
            continue
        found_loop = True
        from ..engine import cond_in_loop, formula_of
        from ..formula import f_and, f_or
        cond = f_or(*[cond_in_loop(ctx, v, lp, r) for r in raises])
        need_c = formula_of(ctx, v, f'({cv} is not None) and ({cv} in {kparam})')
        okc = implies(need_c, cond)
        exits = early_exits(lp, allow_raise=True, allow_continue=True)
        yield ctx.ob('C18.VALIDATOR-SHAPE', okc and not exits, v, lp, 'every listed character found in the key raises',
                     '' if okc and not exits else (f'the loop raises only when {show(cond)}' if not okc else
                                                  f'`{src(exits[0])}` cuts the character scan short'))
        for el in it.elts:
            t = src(el)
            for k in required:
                if t == k or (k.startswith("'") and isinstance(el, ast.Constant) and repr(el.value) == k):
                    required[k] = True
    if not found_loop:
        # equivalent form: `c = next((ch for ch in <list> if ch is not None and ch in key), None)` followed by a
        # raise whenever c is not None (the raise dominates the normal exit through the exit facts)
        for n in walk_local(v.node):
            if isinstance(n, ast.Assign) and isinstance(n.targets[0], ast.Name) and isinstance(n.value, ast.Call) \
                    and dotted(n.value.func) == 'next' and len(n.value.args) == 2 and isinstance(n.value.args[0], ast.GeneratorExp) \
                    and isinstance(n.value.args[1], ast.Constant) and n.value.args[1].value is None:
                ge = n.value.args[0]
                gen = ge.generators[0]
                it = expand_locals(g, rd, gen.iter, g.primary(n))
                if not isinstance(it, (ast.List, ast.Tuple, ast.Set)) or not isinstance(gen.target, ast.Name) or len(ge.generators) != 1:
                    continue
                cv = gen.target.id
                from ..engine import formula_of
                from ..formula import f_and
                have_c = f_and(*[fb.build(i) for i in gen.ifs]) if gen.ifs else TRUE
                need_c = formula_of(ctx, v, f'({cv} is not None) and ({cv} in {kparam})')
                elt_ok = isinstance(ge.elt, ast.Name) and ge.elt.id == cv
                # the found character being not None must raise: exit facts imply `found is None`
                found = n.targets[0].id
                exit_ok = implies(facts.formula_at(g.exit, fb), formula_of(ctx, v, f'{found} is None'))
                okn = implies(need_c, have_c) and elt_ok and exit_ok
                found_loop = True
                yield ctx.ob('C18.VALIDATOR-SHAPE', okn, v, n, 'every listed character found in the key raises',
                             '' if okn else 'the first-match search does not cover every listed character, or a match does not raise')
                for el in it.elts:
                    t = src(el)
                    for k in required:
                        if t == k or (k.startswith("'") and isinstance(el, ast.Constant) and repr(el.value) == k):
                            required[k] = True
    if not found_loop:
        # third form: `found = [c for c in <list> if c in key]` followed by a raise whenever found is non-empty
        for n in walk_local(v.node):
            if isinstance(n, ast.Assign) and isinstance(n.targets[0], ast.Name) and isinstance(n.value, ast.ListComp) and len(n.value.generators) == 1:
                lc = n.value
                gen = lc.generators[0]
                if not (isinstance(gen.target, ast.Name) and isinstance(lc.elt, ast.Name) and lc.elt.id == gen.target.id):
                    continue
                els = elements(gen.iter, g.primary(n))
                if els is None:
                    continue
                cv = gen.target.id
                from ..engine import formula_of
                from ..formula import f_and
                have_c = f_and(*[fb.build(i) for i in gen.ifs]) if gen.ifs else TRUE
                ok_c = any(equivalent(have_c, formula_of(ctx, v, t.format(c=cv, k=kparam)))
                           for t in ('{c} in {k}', '({c} is not None) and ({c} in {k})'))
                found = n.targets[0].id
                exit_ok = any(implies(facts.formula_at(g.exit, fb), formula_of(ctx, v, t.format(f=found))) for t in ('not {f}', 'len({f}) == 0'))
                found_loop = True
                yield ctx.ob('C18.VALIDATOR-SHAPE', ok_c and exit_ok, v, n, 'every listed character found in the key raises',
                             '' if ok_c and exit_ok else 'the filter does not select exactly the listed characters that occur in the key, or a match does not raise')
                for el in els:
                    t = src(el)
                    for k in required:
                        if t == k or (k.startswith("'") and isinstance(el, ast.Constant) and repr(el.value) == k):
                            required[k] = True
    if not found_loop:
        yield ctx.ob('C18.VALIDATOR-SHAPE', False, v, v.node, 'forbidden-character scan',
                     'no loop over a literal list of forbidden characters that raises was found', construct='no-char-loop')
    else:
        missing = [k for k, seen in required.items() if not seen]
        yield ctx.ob('C18.VALIDATOR-SHAPE', not missing, v, v.node, 'forbidden character list',
                     '' if not missing else f'the forbidden-character list lacks {missing}', construct='char-list')


@rule('C18.GUARDED-FILE', ['C18'])
def c18_guarded_file(ctx: Ctx):
    """Every effect on (key_path / filename).resolve() is dominated by a guard that raises unless
    its parent is the validated key directory."""
    c = local_storage(ctx)
    root = root_field(ctx)
    k2p = key_to_path_fn(ctx)
    n = 0
    for m in sorted(c.methods.values(), key=lambda f: f.node.lineno):
        g = ctx.cfg(m)
        rd = ctx.rd(m)
        fb = ctx.fb(m)
        facts = ctx.facts(m, exc=True)
        for (call, operand, eff, _w) in sinks(ctx, m):
            at = g.primary(call)
            pv = provenance(ctx, m, operand, at, root, k2p)
            if pv not in (Prov.KEY_FILE, Prov.KEY_FILE_UNRESOLVED):
                continue
            n += 1
            if pv == Prov.KEY_FILE_UNRESOLVED:
                yield ctx.ob('C18.GUARDED-FILE', False, m, call, f'{eff} on unresolved {src(operand)}',
                             'the file path is used without .resolve(); a symlinked file name escapes the key directory')
                continue

            def exp(e, t):
                return expand_locals(g, rd, e, t)
            have = facts.formula_at(at, fb, expand=exp)
            full = expand_locals(g, rd, operand, at)
            # full == (KEY / filename).resolve(); KEY == self._key_to_path(key)
            keyexpr = full.func.value.left if isinstance(full, ast.Call) and isinstance(full.func, ast.Attribute) \
                and isinstance(full.func.value, ast.BinOp) else None
            if keyexpr is None:
                yield ctx.ob('C18.GUARDED-FILE', False, m, call, f'{eff} on {src(operand)}',
                             f'cannot relate `{src(full)}` to the validated key directory')
                continue
            parent = ast.Attribute(value=full, attr='parent', ctx=ast.Load())
            need = opaque('eq', *sorted([canon(parent), canon(keyexpr)]))
            ok = implies(have, need)
            yield ctx.ob('C18.GUARDED-FILE', ok, m, call, f'{eff} guarded by parent == key directory',
                         '' if ok else f'`{src(call)}` is reachable without a guard establishing '
                         f'`{src(parent)} == {src(keyexpr)}` (facts: {show(have)})')
    if n == 0:
        raise AnalysisError('no effect on a key-directory file found in LocalStorage (file_handle anchor lost)')


@rule('C18.ROOT-RESOLVED', ['C18', 'C08', 'C06', 'C03'])
def root_resolved(ctx: Ctx):
    """LocalStorage pins its directory at construction: the root field is <storage_dir>.resolve() (an absolute,
    symlink-free path), so a later chdir cannot re-anchor the storage."""
    c = local_storage(ctx)
    root = root_field(ctx)
    init = c.methods.get('__init__')
    g = ctx.cfg(init)
    rd = ctx.rd(init)
    ws = [n for n in walk_local(init.node) if isinstance(n, ast.Assign) and isinstance(n.targets[0], ast.Attribute)
          and n.targets[0].attr == root]
    ok = False
    if len(ws) == 1:
        v = ws[0].value
        ok = isinstance(v, ast.Call) and isinstance(v.func, ast.Attribute) and v.func.attr in ('resolve', 'absolute') and not v.args
        if ok:
            base = v.func.value
            p0 = [a.arg for a in init.params if a.arg != init.self_name][0]
            ok = isinstance(base, ast.Name) and base.id == p0
    yield ctx.ob('C18.ROOT-RESOLVED', ok, init, ws[0] if ws else init.node, f'self.{root} = storage_dir.resolve()',
                 '' if ok else f'the storage directory is not resolved to an absolute path at construction: after a change of working '
                 'directory every later resolve() re-anchors the storage somewhere else (entries vanish, or another directory is written and deleted)')
