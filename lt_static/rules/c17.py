"""C17 - intermediate results live exactly as long as a dependent needs them."""
from __future__ import annotations

import ast

from .. import roles
from ..engine import (Ctx, calls_in, cond_from_entry, cond_in_loop, early_exits, field_writes, formula_of,
                      loop_region, rule, same_expr, strip_order_preserving)
from ..formula import TRUE, counterexample, equivalent, implies, show
from ..model import AnalysisError, dotted, src, walk_local
from .runners import _handler_always_raises


def _results_field(ctx: Ctx, fn) -> str:
    """The runner's results map: the self field subscripted by get_result() of the same class."""
    c = fn.cls
    gr = ctx.P.find_method(c, 'get_result')
    if gr is None:
        raise AnalysisError(f'{c.name} has no get_result')
    for n in walk_local(gr.node):
        if isinstance(n, ast.Return) and isinstance(n.value, ast.Subscript):
            v = n.value.value
            if isinstance(v, ast.Attribute) and isinstance(v.value, ast.Name) and v.value.id == gr.self_name:
                return v.attr
    raise AnalysisError(f'{gr.where()}: get_result does not return self.<map>[task]')


@rule('C17.BATCH-ALL', ['C17'], min_instances=2)
def batch_all(ctx: Ctx):
    """Every Runner.remove_results implementation processes its whole batch."""
    for fn in roles.impls(ctx, roles.RUNNER, 'remove_results', minimum=2):
        params = [a.arg for a in fn.params if a.arg != fn.self_name]
        if not params:
            raise AnalysisError(f'{fn.where()}: remove_results has no batch parameter')
        batch = params[0]
        loops = [n for n in walk_local(fn.node) if isinstance(n, ast.For)
                 and isinstance(strip_order_preserving(n.iter), ast.Name)
                 and strip_order_preserving(n.iter).id == batch]
        sliced = [n for n in walk_local(fn.node) if isinstance(n, ast.For) and n not in loops
                  and any(isinstance(x, ast.Name) and x.id == batch for x in ast.walk(n.iter))]
        for lp in sliced:
            yield ctx.ob('C17.BATCH-ALL', False, fn, lp, f'loop over {src(lp.iter)}',
                         f'the release loop iterates {src(lp.iter)}, not the whole batch `{batch}`')
        if not loops and not sliced:
            yield ctx.ob('C17.BATCH-ALL', False, fn, fn.node, 'no loop over the batch',
                         f'remove_results has no loop over its batch parameter `{batch}`', construct='no-batch-loop')
        for lp in loops:
            exits = early_exits(lp, allow_raise=False)
            if exits:
                for e in exits:
                    yield ctx.ob('C17.BATCH-ALL', False, fn, e, f'loop over `{batch}`',
                                 f'`{src(e)}` inside the release loop abandons the rest of the batch '
                                 f'(an absent entry must be skipped, not terminal)')
            else:
                yield ctx.ob('C17.BATCH-ALL', True, fn, lp, f'loop over `{batch}` has no early exit')
            # an exception swallowed *outside* the loop is an early exit too: `try: for t in batch: del m[t]  except KeyError: pass`
            # stops at the first absent entry
            for t in [n for n in walk_local(fn.node) if isinstance(n, ast.Try)]:
                if not any(x is lp for b in t.body for x in ast.walk(b)):
                    continue
                swallowing = [h for h in t.handlers if not _handler_always_raises(ctx, fn, h)]
                if not swallowing:
                    continue
                field = _results_field(ctx, fn)
                risky = []
                for w in field_writes(fn):
                    if w.field != field or not any(x is w.node for x in ast.walk(lp)):
                        continue
                    if w.kind not in ('item_delete', 'mutcall:pop'):
                        continue
                    if w.kind == 'mutcall:pop' and len(w.node.args) > 1:
                        continue
                    key = w.target.slice if (w.kind == 'item_delete' and isinstance(w.target, ast.Subscript)) else (w.node.args[0] if getattr(w.node, 'args', None) else None)
                    if key is None:
                        continue
                    cond = cond_in_loop(ctx, fn, lp, w.node)
                    present = formula_of(ctx, fn, f'{src(key)} in {fn.self_name}.{field}')
                    inner = [t2 for t2 in walk_local(lp) if isinstance(t2, ast.Try) and any(x is w.node for b in t2.body for x in ast.walk(b))]
                    if not implies(cond, present) and not inner:
                        risky.append(w.node)
                yield ctx.ob('C17.BATCH-ALL', not risky, fn, risky[0] if risky else t, f'no handler outside the loop over `{batch}` ends it',
                             '' if not risky else f'`{src(risky[0])}` raises for an absent entry and the exception is swallowed outside the loop: '
                             'the rest of the batch is never released', construct='swallow-outside-loop')


@rule('C17.RELEASE-DELETES', ['C17', 'C02', 'C01'], min_instances=2)
def release_deletes(ctx: Ctx):
    """remove_results deletes results_map[task] for each present task of the batch."""
    for fn in roles.impls(ctx, roles.RUNNER, 'remove_results', minimum=2):
        field = _results_field(ctx, fn)
        sn = fn.self_name
        params = [a.arg for a in fn.params if a.arg != sn]
        batch = params[0]
        found = False
        for lp in [n for n in walk_local(fn.node) if isinstance(n, ast.For) and isinstance(n.target, ast.Name)]:
            tv = lp.target.id
            for w in field_writes(fn):
                if w.field != field or not any(x is w.node for x in ast.walk(lp)):
                    continue
                key = None
                if w.kind == 'item_delete' and isinstance(w.target, ast.Subscript):
                    key = w.target.slice
                elif w.kind in ('mutcall:pop',) and w.node.args:
                    key = w.node.args[0]
                if key is None or not (isinstance(key, ast.Name) and key.id == tv):
                    continue
                found = True
                cond = cond_in_loop(ctx, fn, lp, w.node)
                need = formula_of(ctx, fn, f'{tv} in {sn}.{field}')
                ok = implies(need, cond)
                yield ctx.ob('C17.RELEASE-DELETES', ok, fn, w.node, f'delete of {sn}.{field}[{tv}]',
                             '' if ok else f'the delete is reached only when {show(cond)}; a present entry may be kept '
                             f'(counterexample {counterexample(need, cond, "implies")})')
        if not found:
            yield ctx.ob('C17.RELEASE-DELETES', False, fn, fn.node, f'no delete of {sn}.{field}[<batch element>]',
                         f'remove_results never deletes an entry of {sn}.{field} for the loop element',
                         construct='no-delete')


def _capture_store(ctx: Ctx, cl: roles.ConsumerLoop):
    """`D[t] = <...get_result(t)...>` in the consumer loop."""
    gr = {f.qualname for f in roles.impls(ctx, roles.RUNNER, 'get_result')}
    out = []
    for n in walk_local(cl.loop):
        if isinstance(n, ast.Assign) and len(n.targets) == 1 and isinstance(n.targets[0], ast.Subscript):
            for call in calls_in(n.value) if isinstance(n.value, ast.AST) else []:
                if set(ctx.P.resolve_call(call, cl.fn)) & gr:
                    out.append((n, call))
    return out


def _release_calls(ctx: Ctx, cl: roles.ConsumerLoop):
    rr = {f.qualname for f in roles.impls(ctx, roles.RUNNER, 'remove_results')}
    return [c for c in calls_in(cl.loop) if set(ctx.P.resolve_call(c, cl.fn)) & rr]


@rule('C17.CAPTURE-BEFORE-RELEASE', ['C17', 'C01'])
def capture_before_release(ctx: Ctx):
    """In the consumer loop the capture of a requested task's result precedes the release call."""
    for cl in roles.consumer_loops(ctx):
        g = ctx.cfg(cl.fn)
        header, body = loop_region(ctx, cl.fn, cl.loop)
        caps = _capture_store(ctx, cl)
        rels = _release_calls(ctx, cl)
        if not caps:
            yield ctx.ob('C17.CAPTURE-BEFORE-RELEASE', False, cl.fn, cl.loop, 'capture store',
                         'no store of Runner.get_result(task) into the result dict in the consumer loop',
                         construct='no-capture')
            continue
        if not rels:
            yield ctx.ob('C17.CAPTURE-BEFORE-RELEASE', True, cl.fn, cl.loop,
                         'no release call inside the consumer loop (reported by C17.RELEASE-CALLED)')
        for (cap, _call) in caps:
            cn = g.primary(cap)
            for rel in rels:
                rn = g.primary(rel)
                after = g.reachable([rn], avoid=[header], include_starts=False) & body
                ok = cn not in after and cn != rn
                yield ctx.ob('C17.CAPTURE-BEFORE-RELEASE', ok, cl.fn, cap, f'capture vs release at line {rel.lineno}',
                             '' if ok else 'the result is read from the runner after remove_results() may already '
                             'have released it in the same iteration')


@rule('C17.RELEASE-CALLED', ['C17'])
def release_called(ctx: Ctx):
    """Every outcome reaches runner.remove_results(X), X being what the completion method returned."""
    st = roles.state(ctx)
    for cl in roles.consumer_loops(ctx):
        g = ctx.cfg(cl.fn)
        rd = ctx.rd(cl.fn)
        header, body = loop_region(ctx, cl.fn, cl.loop)
        rels = _release_calls(ctx, cl)
        if not rels:
            yield ctx.ob('C17.RELEASE-CALLED', False, cl.fn, cl.loop, 'release call',
                         'the consumer loop never calls Runner.remove_results', construct='no-release')
            continue
        rel_nodes = [g.primary(r) for r in rels]
        ok = g.must_pass(header, rel_nodes, [header], exc=False)
        yield ctx.ob('C17.RELEASE-CALLED', ok, cl.fn, rels[0], 'every normal iteration reaches remove_results',
                     '' if ok else 'an iteration of the consumer loop can complete without calling remove_results')
        for rel in rels:
            arg = rel.args[0] if rel.args else None
            rn = g.primary(rel)
            if not isinstance(arg, ast.Name):
                # direct nesting: remove_results(state.complete_task(...))
                ok2 = isinstance(arg, ast.Call) and st.complete_method.qualname in ctx.P.resolve_call(arg, cl.fn)
                yield ctx.ob('C17.RELEASE-CALLED', ok2, cl.fn, rel, 'argument provenance',
                             '' if ok2 else f'remove_results argument `{src(arg) if arg else ""}` is not the completion method\'s return value')
                continue
            defs = rd.reaching(rn, arg.id)
            bad = []
            for d in defs:
                dv = rd.def_value(d, arg.id)
                okd = False
                if dv and dv[0] == 'value' and isinstance(dv[1], ast.Call) \
                        and st.complete_method.qualname in ctx.P.resolve_call(dv[1], cl.fn):
                    a0 = dv[1].args[0] if dv[1].args else None
                    okd = isinstance(a0, ast.Name) and a0.id == cl.task_var and d in body
                if not okd:
                    bad.append(d)
            yield ctx.ob('C17.RELEASE-CALLED', not bad, cl.fn, rel, f'`{arg.id}` derives from {st.complete_method.name}({cl.task_var}, ...) of this iteration',
                         '' if not bad else f'`{arg.id}` may hold something other than the completion method\'s return value for this task '
                         f'(definitions at lines {[g.node(d).lineno for d in bad]})')
            # ... and is handed over as returned: nothing is added to (or taken from) the batch in between
            muts = [c for c in calls_in(cl.loop) if isinstance(c.func, ast.Attribute) and isinstance(c.func.value, ast.Name) and c.func.value.id == arg.id
                    and c.func.attr in ('add', 'update', 'append', 'extend', 'insert', 'remove', 'discard', 'pop', 'clear', 'difference_update',
                                        'intersection_update', 'symmetric_difference_update')]
            augs = [n for n in walk_local(cl.loop) if isinstance(n, ast.AugAssign) and isinstance(n.target, ast.Name) and n.target.id == arg.id]
            okm = not muts and not augs
            first = (muts + augs)[0] if not okm else rel
            yield ctx.ob('C17.RELEASE-CALLED', okm, cl.fn, first, f'`{arg.id}` released exactly as the completion method returned it',
                         '' if okm else f'`{src(first)[:60]}` changes the batch between {st.complete_method.name}() and remove_results(): a result is released '
                         'although a dependent still needs it (or kept although nobody does)')


def _completion_parts(ctx: Ctx):
    st = roles.state(ctx)
    sf = roles.state_fields(ctx)
    fn = st.complete_method
    sn = fn.self_name
    tparam = [a.arg for a in fn.params if a.arg != sn][0]
    return st, sf, fn, sn, tparam


@rule('C17.RELEASABLE-SET', ['C17', 'C02', 'C01'])
def releasable_set(ctx: Ctx):
    """The completion method returns exactly the dependencies (and the task itself) that no
    unfinished task depends on any more - independent of success."""
    st, sf, fn, sn, tparam = _completion_parts(ctx)
    if sf.pending_dependents is None:
        raise AnalysisError('pending-dependents field not identified')
    PT, DD = sf.pending_dependents, sf.direct_deps
    # returned set
    rets = [n for n in walk_local(fn.node) if isinstance(n, ast.Return)]
    rnames = {n.value.id for n in rets if isinstance(n.value, ast.Name)}
    if len(rets) != 1 or len(rnames) != 1:
        yield ctx.ob('C17.RELEASABLE-SET', False, fn, rets[0] if rets else fn.node, 'single returned set',
                     'the completion method must return one releasable collection on its single normal exit',
                     construct='returns')
        return
    R = next(iter(rnames))
    # loop over all direct dependencies of the finished task
    loops = []
    for lp in [n for n in walk_local(fn.node) if isinstance(n, ast.For) and isinstance(n.target, ast.Name)]:
        it = strip_order_preserving(lp.iter)
        if same_expr(it, ast.parse(f'{sn}.{DD}[{tparam}]', mode='eval').body):
            loops.append(lp)
    if not loops:
        yield ctx.ob('C17.RELEASABLE-SET', False, fn, fn.node, f'loop over {sn}.{DD}[{tparam}]',
                     'the completion method does not loop over all direct dependencies of the finished task',
                     construct='no-dependency-loop')
        return
    lp = loops[0]
    dv = lp.target.id
    g = ctx.cfg(fn)
    ok = cond_from_entry(ctx, fn, lp) == TRUE and not early_exits(lp, allow_raise=False, allow_continue=False)
    yield ctx.ob('C17.RELEASABLE-SET', ok, fn, lp, 'dependency loop unconditional and complete',
                 '' if ok else f'the loop over the finished task\'s dependencies is conditional ({show(cond_from_entry(ctx, fn, lp))}) '
                 'or can be cut short; release must not depend on success')
    # removal of the task from each dependency's dependents, unconditional, before the emptiness test
    removal = None
    for call in calls_in(lp):
        if isinstance(call.func, ast.Attribute) and call.func.attr in ('remove', 'discard') and len(call.args) == 1 \
                and isinstance(call.args[0], ast.Name) and call.args[0].id == tparam \
                and same_expr(call.func.value, ast.parse(f'{sn}.{PT}[{dv}]', mode='eval').body):
            removal = call
    if removal is None:
        yield ctx.ob('C17.RELEASABLE-SET', False, fn, lp, f'{sn}.{PT}[{dv}].remove({tparam})',
                     'the finished task is not removed from its dependency\'s pending dependents', construct='no-removal')
    else:
        c = cond_in_loop(ctx, fn, lp, removal)
        yield ctx.ob('C17.RELEASABLE-SET', c == TRUE, fn, removal, 'removal unconditional in the loop body',
                     '' if c == TRUE else f'removal only when {show(c)}')
    adds = [call for call in calls_in(lp) if isinstance(call.func, ast.Attribute) and call.func.attr in ('add', 'append')
            and isinstance(call.func.value, ast.Name) and call.func.value.id == R]
    good_add = False
    for a in adds:
        a0 = a.args[0] if a.args else None
        if not (isinstance(a0, ast.Name) and a0.id == dv):
            yield ctx.ob('C17.RELEASABLE-SET', False, fn, a, 'element added in the dependency loop',
                         f'`{src(a)}` adds something other than the loop dependency `{dv}`')
            continue
        c = cond_in_loop(ctx, fn, lp, a)
        need = formula_of(ctx, fn, f'len({sn}.{PT}[{dv}]) == 0')
        okc = equivalent(c, need)
        ordered = removal is not None and g.primary(removal) in g.dominators()[g.primary(a)]
        good_add = good_add or (okc and ordered)
        yield ctx.ob('C17.RELEASABLE-SET', okc and ordered, fn, a, f'{dv} released iff its dependents are exhausted',
                     '' if okc and ordered else (f'condition is {show(c)}, expected {show(need)}' if not okc else
                                                'the emptiness test is not preceded by the removal of the finished task'))
    if not adds:
        yield ctx.ob('C17.RELEASABLE-SET', False, fn, lp, f'{R}.add({dv})',
                     'no dependency is ever added to the releasable set', construct='no-dep-add')
    # the finished task itself
    self_adds = [call for call in calls_in(fn.node) if isinstance(call.func, ast.Attribute)
                 and call.func.attr in ('add', 'append') and isinstance(call.func.value, ast.Name)
                 and call.func.value.id == R and call.args and isinstance(call.args[0], ast.Name)
                 and call.args[0].id == tparam and not any(x is call for x in ast.walk(lp))]
    if not self_adds:
        yield ctx.ob('C17.RELEASABLE-SET', False, fn, fn.node, f'{R}.add({tparam})',
                     'the finished task itself is never released when nothing depends on it', construct='no-self-add')
    for a in self_adds:
        c = cond_from_entry(ctx, fn, a)
        need = formula_of(ctx, fn, f'len({sn}.{PT}[{tparam}]) == 0')
        okc = equivalent(c, need)
        yield ctx.ob('C17.RELEASABLE-SET', okc, fn, a, 'finished task released iff it has no pending dependents',
                     '' if okc else f'condition is {show(c)}, expected {show(need)}')


@rule('C10.NO-EARLY-RELEASE', ['C10'])
def no_early_release(ctx: Ctx):
    """One direction of C17.RELEASABLE-SET, the one C10 relies on: a dependency's result is handed out for
    release only when no unfinished task depends on it any more - whatever the outcome of the finished task.
    (Releasing *late* keeps memory, it disturbs no other task; releasing *early* makes a healthy dependent of the
    same dependency fail with 'result not available'.)"""
    st, sf, fn, sn, tparam = _completion_parts(ctx)
    if sf.pending_dependents is None:
        raise AnalysisError('pending-dependents field not identified')
    PT, DD = sf.pending_dependents, sf.direct_deps
    n = 0
    for lp in [x for x in walk_local(fn.node) if isinstance(x, ast.For) and isinstance(x.target, ast.Name)]:
        if not same_expr(strip_order_preserving(lp.iter), ast.parse(f'{sn}.{DD}[{tparam}]', mode='eval').body):
            continue
        dv = lp.target.id
        for a in [c for c in calls_in(lp) if isinstance(c.func, ast.Attribute) and c.func.attr in ('add', 'append')
                  and isinstance(c.func.value, ast.Name) and c.args and isinstance(c.args[0], ast.Name) and c.args[0].id == dv]:
            c = cond_in_loop(ctx, fn, lp, a)
            need = formula_of(ctx, fn, f'len({sn}.{PT}[{dv}]) == 0')
            ok = implies(c, need)
            n += 1
            yield ctx.ob('C10.NO-EARLY-RELEASE', ok, fn, a, f'{dv} handed out for release only when its dependents are exhausted',
                         '' if ok else f'released when {show(c)}, which does not imply {show(need)}: a task that still needs '
                         f'the result of `{dv}` (and has nothing to do with the finished task) fails')
    if n == 0:
        raise AnalysisError('no release of a dependency found in the completion method (loop over the direct dependencies)')


@rule('C17.DEPENDENTS-BOOK', ['C17'])
def dependents_book(ctx: Ctx):
    """Pending-dependents bookkeeping: additions only in the construction phase, removals only
    in the completion phase."""
    st = roles.state(ctx)
    sf = roles.state_fields(ctx)
    PT = sf.pending_dependents
    n = 0
    for fn in st.cls.methods.values():
        for f2 in [fn] + list(fn.nested.values()):
            for w in field_writes(f2):
                if w.field != PT:
                    continue
                phase = st.phase_of(fn)
                if w.kind in ('mutcall:add', 'item_store', 'mutcall:update', 'mutcall:setdefault'):
                    ok = phase == 'construction'
                elif w.kind in ('mutcall:remove', 'mutcall:discard', 'item_delete', 'mutcall:pop', 'mutcall:clear'):
                    ok = phase == 'completion'
                elif w.kind == 'rebind':
                    ok = fn.name == '__init__'
                else:
                    ok = False
                n += 1
                yield ctx.ob('C17.DEPENDENTS-BOOK', ok, f2, w.node, f'{w.kind} on {PT} in {phase} phase',
                             '' if ok else f'{w.kind} of {PT} happens in the {phase} phase; additions belong to '
                             'construction and removals to completion only')
    if n < 2:
        raise AnalysisError(f'fewer than two writers of {PT} found')


@rule('C17.RELEASE-COVERS-ALL-STORES', ['C17'])
def release_covers_all_stores(ctx: Ctx):
    """Everything a runner keeps per task is given up again by the runner itself: each attribute of a Runner that receives
    keyed entries (`self.<f>[k] = v`) or queued items outside __init__ loses them again in wait() or remove_results() - not
    only in close().  A side table of results (pickled copies, pre-computed hand-overs) that remove_results() does not know
    about keeps every intermediate result alive until the end of the run."""
    n = 0
    for c in ctx.P.subclasses(roles.RUNNER):
        stored: dict[str, list] = {}
        for m in c.methods.values():
            if m.name == '__init__':
                continue
            for f in [m] + list(m.nested.values()):
                for w in field_writes(f):
                    if w.kind in ('item_store', 'mutcall:append', 'mutcall:add', 'mutcall:setdefault', 'mutcall:update', 'mutcall:extend'):
                        stored.setdefault(w.field, []).append(w)
        for fld, ws in stored.items():
            n += 1
            removed = []
            for x in ctx.P.mro(c):
                for mname in ('wait', 'remove_results'):
                    m = x.methods.get(mname)
                    if m is None:
                        continue
                    for f in [m] + list(m.nested.values()):
                        removed += [w for w in field_writes(f) if w.field == fld and w.kind in ('item_delete', 'mutcall:pop', 'mutcall:popleft', 'mutcall:remove',
                                                                                                 'mutcall:discard', 'mutcall:clear')]
            ok = bool(removed)
            yield ctx.ob('C17.RELEASE-COVERS-ALL-STORES', ok, ws[0].fn, ws[0].node, f'{c.name}.{fld}: entries stored are removed again in wait() / remove_results()',
                         '' if ok else f'`{src(ws[0].node)[:60]}` keeps entries in {c.name}.{fld} that neither wait() nor remove_results() ever removes: '
                         'what is stored there outlives the last dependent', construct=f'{c.name}.{fld}')
    if n == 0:
        raise AnalysisError('no keyed stores found in the runners')


@rule('C17.DEPS-OWNED', ['C17', 'C02', 'C01', 'C11'])
def deps_owned(ctx: Ctx):
    """The state's task -> direct-dependencies map owns its collections.  Where it is filled by one whole assignment
    (`self.<map>[task] = dependencies`) instead of per-element adds, the stored object is a copy, or no caller changes the
    collection it passed afterwards: a caller that prunes / extends its own collection after the call edits the recorded edges."""
    sf = roles.state_fields(ctx)
    wa = sf.direct_deps_whole_assign
    if wa is None:
        yield ctx.ob('C17.DEPS-OWNED', True, sf.insert_fn, sf.insert_fn.node, f'{sf.direct_deps} is filled element by element',
                     construct='per-element')
        return
    copied = isinstance(wa.value, ast.Call)
    if copied:
        yield ctx.ob('C17.DEPS-OWNED', True, sf.insert_fn, wa, f'{sf.direct_deps}[task] is a copy of the caller\'s collection')
        return
    pname = wa.value.id
    params = [a.arg for a in sf.insert_fn.params if a.arg != sf.insert_fn.self_name]
    if pname not in params:
        yield ctx.ob('C17.DEPS-OWNED', True, sf.insert_fn, wa, f'{sf.direct_deps}[task] is a local collection')
        return
    idx = params.index(pname)
    MUT = ('remove', 'discard', 'add', 'clear', 'pop', 'update', 'append', 'extend', 'difference_update', 'intersection_update', 'insert')
    bad = []
    for caller in ctx.P.all_functions():
        for call in calls_in(caller.node):
            if sf.insert_fn.qualname not in ctx.P.resolve_call(call, caller):
                continue
            arg = call.args[idx] if len(call.args) > idx else next((k.value for k in call.keywords if k.arg == pname), None)
            if not isinstance(arg, ast.Name):
                continue
            g = ctx.cfg(caller)
            after = g.reachable([g.primary(call)], include_starts=False)
            for n in walk_local(caller.node):
                mut = None
                if isinstance(n, ast.Call) and isinstance(n.func, ast.Attribute) and n.func.attr in MUT \
                        and isinstance(n.func.value, ast.Name) and n.func.value.id == arg.id:
                    mut = n
                elif isinstance(n, ast.AugAssign) and isinstance(n.target, ast.Name) and n.target.id == arg.id:
                    mut = n
                elif isinstance(n, ast.Delete) and any(isinstance(t, ast.Subscript) and isinstance(t.value, ast.Name) and t.value.id == arg.id for t in n.targets):
                    mut = n
                if mut is not None and g.primary(mut) in after:
                    bad.append((caller, mut))
    ok = not bad
    yield ctx.ob('C17.DEPS-OWNED', ok, bad[0][0] if bad else sf.insert_fn, bad[0][1] if bad else wa,
                 f'{sf.direct_deps}[task] is not changed through the caller\'s reference', '' if ok else
                 f'`{src(wa)}` stores the caller\'s collection by reference and `{src(bad[0][1])[:60]}` in {bad[0][0].short} changes it afterwards: '
                 'recorded dependency edges disappear (the dependency is never released, or a dependent starts early)')
