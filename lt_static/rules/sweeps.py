"""Package-wide dataflow sweeps (rules that are not tied to one anchor function)."""
from __future__ import annotations

import ast

from ..cfg import header_parts
from ..dataflow import node_defs, target_names
from ..engine import Ctx, cond_from_entry, formula_of, rule
from ..formula import implies
from ..model import dotted as dotted_name, src


# Which properties a function's loops belong to (prefix of the package-relative qualified name).  A stale per-element
# value in one of these loops mixes up the data of two tasks / entries / parameters of exactly these properties.
SCOPES: list[tuple[str, list[str]]] = [
    ('lab.TaskState.process_tasks', ['C01', 'C02', 'C03', 'C05', 'C08', 'C11', 'C17']),
    ('lab.TaskState.insert_task', ['C01', 'C02', 'C03', 'C05', 'C11', 'C17']),
    ('lab.TaskState.complete_task', ['C01', 'C02', 'C03', 'C05', 'C06', 'C10', 'C11', 'C17']),
    ('lab.TaskState.start_task', ['C02', 'C03', 'C04', 'C05', 'C11', 'C14', 'C17']),
    ('lab.TaskState.get_ready_tasks', ['C02', 'C04', 'C05', 'C11', 'C17']),
    ('lab.TaskState.', ['C03', 'C11']),
    ('lab.TaskCoordinator.', ['C01', 'C02', 'C03', 'C04', 'C05', 'C10', 'C11', 'C14', 'C17']),
    ('lab.Lab.cached_tasks', ['C08', 'C09']),
    ('lab.Lab.uncache_tasks', ['C08']),
    ('lab.Lab.', ['C01', 'C08']),
    ('runners.process.ProcessExecutor.', ['C01', 'C03', 'C04', 'C05', 'C10', 'C11', 'C14']),
    ('runners.process.ProcessRunner._subprocess_func', ['C16', 'C02', 'C19', 'C13']),
    ('runners.process.ProcessRunner.remove_results', ['C17']),
    ('runners.serial.SerialRunner.remove_results', ['C17']),
    ('runners.process.ProcessRunner.', ['C01', 'C02', 'C10', 'C11', 'C14', 'C16', 'C17', 'C19']),
    ('runners.process.split_done_futures', ['C01', 'C10', 'C11']),
    ('runners.serial.SerialRunner.', ['C01', 'C02', 'C05', 'C10', 'C11', 'C14', 'C17']),
    ('runners.process.ForkProcessRunner.', ['C01', 'C02', 'C16', 'C17']),
    ('runners.process.SpawnProcessRunner.', ['C01', 'C02', 'C16', 'C17']),
    ('runners.base.run_or_load_task', ['C01', 'C02', 'C03', 'C06', 'C08', 'C10', 'C12', 'C16']),
    ('runners.', ['C01', 'C10', 'C11', 'C16']),
    ('serialization.Serializer.', ['C06', 'C07', 'C09']),
    ('cache.', ['C06', 'C08', 'C09', 'C12', 'C13']),
    ('storage.validate_file_path_key', ['C07', 'C18']),
    ('storage.', ['C06', 'C08', 'C12', 'C13', 'C18']),
    ('tasks.get_direct_dependencies', ['C02', 'C03', 'C20']),
    ('tasks.find_tasks', ['C02', 'C03', 'C20']),
    ('tasks._task__setstate__', ['C15']),
    ('tasks._task_post_init', ['C07', 'C15']),
    ('tasks.', ['C15']),
    ('diagram.', ['C20']),
    ('utils.OrderedSet.', ['C03', 'C15', 'C17']),
    ('utils.', ['C19']),
    # the monitor is driven from inside the run loop, in the calling thread: what it raises, run_tasks raises
    ('monitor.', ['C01', 'C10']),
]


def scope_of(fn) -> list[str]:
    for prefix, props in SCOPES:
        if fn.short.startswith(prefix):
            return props
    return []


def _node_reads(g, nid) -> set[str]:
    """Plain local names read (Load) by the expressions evaluated at a CFG node."""
    n = g.node(nid)
    a = n.ast
    if a is None or n.kind in ('for', 'except_entry', 'entry', 'exit', 'raise_exit', 'pass_join'):
        return set()
    if n.kind == 'iter_eval':
        parts = [a.iter] if isinstance(a, (ast.For, ast.AsyncFor)) else [a]
    elif isinstance(a, ast.stmt):
        parts = header_parts(a)
        if isinstance(a, (ast.For, ast.AsyncFor)):
            parts = [a.iter]
    else:
        parts = [a]
    out: set[str] = set()
    for p in parts:
        if p is None:
            continue
        bound: set[str] = set()
        for x in ast.walk(p):
            if isinstance(x, ast.comprehension):
                bound.update(target_names(x.target))
            elif isinstance(x, ast.Lambda):
                bound.update(arg.arg for arg in x.args.args + x.args.kwonlyargs)
        for x in ast.walk(p):
            if isinstance(x, ast.Name) and isinstance(x.ctx, ast.Load) and x.id not in bound:
                out.add(x.id)
    return out


def _def_value(g, nid, name):
    a = g.node(nid).ast
    if isinstance(a, ast.Assign) and any(name in target_names(t) for t in a.targets):
        return a.value
    if isinstance(a, ast.AnnAssign) and a.value is not None and name in target_names(a.target):
        return a.value
    return None


def stale_loop_reads(ctx: Ctx, fn):
    """(loop, name, read node, defining node) for every read, inside a `for` loop, of a local that is derived from
    the current element on some path of the iteration but still holds the value computed for an *earlier* element
    on another path (a definition hoisted out of / made conditional in the loop body)."""
    g = ctx.cfg(fn)
    out = []
    for loop in [n for n in ast.walk(fn.node) if isinstance(n, (ast.For, ast.AsyncFor))]:
        try:
            header = g.primary(loop)
        except Exception:
            continue
        if g.node(header).kind != 'for':
            cands = [i for i in g.nodes_of(loop) if g.node(i).kind == 'for']
            if not cands:
                continue
            header = cands[0]
        body = g.loop_body_nodes(header)
        if not body:
            continue
        defs: dict[str, set[int]] = {}
        accum: set[str] = set()
        for nid in body:
            a = g.node(nid).ast
            for name in node_defs(g, nid):
                v = _def_value(g, nid, name)
                if v is None:
                    if isinstance(a, ast.AugAssign):
                        accum.add(name)
                    continue
                if any(isinstance(x, ast.Name) and x.id == name for x in ast.walk(v)):
                    accum.add(name)
                defs.setdefault(name, set()).add(nid)
        derived = set(target_names(loop.target))
        elem = set(derived)
        changed = True
        while changed:
            changed = False
            for name, ds in defs.items():
                if name in derived or name in accum:
                    continue
                for d in ds:
                    v = _def_value(g, d, name)
                    if any(isinstance(x, ast.Name) and x.id in derived for x in ast.walk(v)):
                        derived.add(name)
                        changed = True
                        break
        starts = [t for (t, lab) in g.succ.get(header, []) if lab in ('loop', 'true')]
        for name in sorted(derived - elem):
            ds = defs[name]
            carried = [d for d in ds if header in g.reachable([d], avoid=ds - {d}, exc=False, include_starts=False)]
            if not carried:
                continue
            stale = g.reachable([s for s in starts if s not in ds], avoid=ds | {header}, exc=False) & body
            fresh: set[int] = set()
            for d in ds:
                fresh |= g.reachable([d], avoid=(ds - {d}) | {header}, exc=False, include_starts=False)
            for r in sorted(stale & fresh):
                if r in ds and name not in _node_reads(g, r):
                    continue
                if name in _node_reads(g, r):
                    out.append((loop, name, r, carried[0]))
                    break
    return out


@rule('SWEEP.LOOP-FRESH', ['C01', 'C02', 'C03', 'C04', 'C05', 'C06', 'C07', 'C08', 'C09', 'C10', 'C11', 'C12', 'C13', 'C14', 'C15', 'C16', 'C17', 'C18', 'C19', 'C20'])
def loop_fresh(ctx: Ctx):
    """No per-element value is carried over to the next element of a `for` loop: a local computed from the loop
    variable that is read in the body is (re)defined on every path of the iteration before that read.  Otherwise one
    element's data (dependencies, key, outcome) is silently attributed to the next element."""
    n = 0
    loops = 0
    for fn in ctx.P.all_functions():
        if ctx.pid is not None and ctx.pid not in scope_of(fn):
            continue
        if not any(isinstance(x, (ast.For, ast.AsyncFor)) for x in ast.walk(fn.node)):
            continue
        loops += 1
        for (loop, name, r, d) in stale_loop_reads(ctx, fn):
            g = ctx.cfg(fn)
            n += 1
            a = g.node(r).ast
            yield ctx.ob('SWEEP.LOOP-FRESH', False, fn, a if isinstance(a, ast.AST) else loop,
                         f'`{name}` is fresh for every `{src(loop.target)}`',
                         f'`{name}` is computed from the loop element at line {getattr(g.node(d).ast, "lineno", "?")} on some paths only; '
                         f'on the others the read at line {getattr(a, "lineno", "?")} sees the value left by an earlier iteration',
                         construct=f'{name}@for {src(loop.target)}')
    yield ctx.ob('SWEEP.LOOP-FRESH', True, None, None, f'{loops} functions with for-loops scanned, {n} stale reads', construct='scan', path='labtech/')


CLASS_SCOPES: list[tuple[str, list[str]]] = [
    ('runners.', ['C04', 'C05', 'C16', 'C01']),
    ('storage.', ['C18', 'C08', 'C06']),
    ('cache.', ['C06', 'C08']),
    ('lab.', ['C01', 'C04', 'C05']),
]


@rule('SWEEP.SUPER-FORWARD', ['C01', 'C04', 'C05', 'C06', 'C08', 'C16', 'C18'])
def super_forward(ctx: Ctx):
    """A subclass constructor hands every parameter it shares with its parent's constructor on to it, under the same
    name (a parameter that silently stops at the subclass - `max_workers`, `storage`, `context` - leaves the parent
    running on its default)."""
    n = 0
    for c in ctx.P.classes.values():
        short = c.qualname.split('.', 1)[1] if '.' in c.qualname else c.qualname
        props = next((ps for pre, ps in CLASS_SCOPES if short.startswith(pre)), [])
        if ctx.pid is not None and ctx.pid not in props:
            continue
        init = c.methods.get('__init__')
        if init is None:
            continue
        parent = None
        for x in ctx.P.mro(c)[1:]:
            if '__init__' in x.methods:
                parent = x.methods['__init__']
                break
        if parent is None:
            continue
        sup = [call for call in ast.walk(init.node) if isinstance(call, ast.Call) and isinstance(call.func, ast.Attribute)
               and call.func.attr == '__init__' and isinstance(call.func.value, ast.Call) and isinstance(call.func.value.func, ast.Name)
               and call.func.value.func.id == 'super']
        if not sup:
            continue
        own = [a.arg for a in init.node.args.posonlyargs + init.node.args.args + init.node.args.kwonlyargs][1:]
        ppos = [a.arg for a in parent.node.args.posonlyargs + parent.node.args.args][1:]
        pall = ppos + [a.arg for a in parent.node.args.kwonlyargs]
        for call in sup:
            if any(isinstance(a, ast.Starred) for a in call.args) or any(k.arg is None for k in call.keywords):
                continue
            bound = {}
            for i, a in enumerate(call.args):
                if i < len(ppos):
                    bound[ppos[i]] = a
            for k in call.keywords:
                bound[k.arg] = k.value
            for p in own:
                if p not in pall:
                    continue
                n += 1
                v = bound.get(p)
                ok = isinstance(v, ast.Name) and v.id == p
                yield ctx.ob('SWEEP.SUPER-FORWARD', ok, init, call, f'{c.name}.__init__ forwards `{p}` to {parent.short}',
                             '' if ok else (f'`{p}` is accepted by {c.name}.__init__ but ' + ('not passed on' if v is None else f'passed on as `{src(v)}`')
                                            + f' to the parent constructor: the parent falls back to its default for `{p}`'),
                             construct=f'{c.name}.super.{p}')
    yield ctx.ob('SWEEP.SUPER-FORWARD', True, None, None, f'{n} shared constructor parameters checked', construct='scan', path='labtech/')


SIZE_MUTATORS = {'pop', 'popitem', 'clear', 'add', 'remove', 'discard', 'append', 'extend', 'insert', 'update', 'popleft', 'appendleft'}


def _size_mutations(node: ast.AST, xsrc: str):
    for n in ast.walk(node):
        if isinstance(n, ast.Call) and isinstance(n.func, ast.Attribute) and n.func.attr in SIZE_MUTATORS and src(n.func.value) == xsrc:
            yield n
        elif isinstance(n, ast.Delete):
            for t in n.targets:
                if isinstance(t, ast.Subscript) and src(t.value) == xsrc:
                    yield n


def _iterated_container(it: ast.AST):
    """The container a `for` iterates directly (no snapshot): X, X.items(), X.keys(), X.values()."""
    if isinstance(it, ast.Call) and isinstance(it.func, ast.Attribute) and it.func.attr in ('items', 'keys', 'values') and not it.args:
        it = it.func.value
    if isinstance(it, ast.Name):
        return it
    if isinstance(it, ast.Attribute) and isinstance(it.value, ast.Name):
        return it
    return None


@rule('SWEEP.NO-MUTATE-WHILE-ITERATING', ['C01', 'C03', 'C04', 'C05', 'C10', 'C11', 'C14', 'C17', 'C19', 'C08', 'C09', 'C20'])
def no_mutate_while_iterating(ctx: Ctx):
    """No `for` loop iterates a container live while its body (directly, or through a method of the same object called
    from the body) adds to or removes from that container and then carries on iterating: that raises RuntimeError
    (dict / set / deque) or skips elements (list) at run time, on exactly the inputs where the mutation branch is taken."""
    from ..engine import calls_in
    n = 0
    loops = 0
    for fn in ctx.P.all_functions():
        props = scope_of(fn) or (['C10', 'C11'] if fn.short.startswith('runners.process.ProcessMonitor.') or fn.short.startswith('monitor.') else [])
        if ctx.pid is not None and ctx.pid not in props:
            continue
        sites = []
        for node in ast.walk(fn.node):
            if isinstance(node, ast.For):
                sites.append((node, node.iter, list(node.body)))
            elif isinstance(node, (ast.ListComp, ast.SetComp, ast.GeneratorExp, ast.DictComp)):
                body = ([node.key, node.value] if isinstance(node, ast.DictComp) else [node.elt])
                for gen in node.generators:
                    sites.append((node, gen.iter, body + list(gen.ifs)))
        for (loop, it, body) in sites:
            x = _iterated_container(it)
            if x is None:
                continue
            loops += 1
            xsrc = src(x)
            g = ctx.cfg(fn)
            header = None
            if isinstance(loop, ast.For):
                hs = [i for i in g.nodes_of(loop) if g.node(i).kind == 'for']
                if not hs:
                    continue
                header = hs[0]
            hits = []
            for st in body:
                for m in _size_mutations(st, xsrc):
                    hits.append((m, m, 'directly'))
            # through methods of the same object
            if isinstance(x, ast.Attribute) and x.value.id == (fn.self_name or 'self') and fn.cls is not None:
                seen: set[str] = set()
                work = [(c, c, 0) for st in body for c in calls_in(st)]
                while work:
                    call, origin, depth = work.pop()
                    if not (isinstance(call.func, ast.Attribute) and isinstance(call.func.value, ast.Name) and call.func.value.id in ('self', fn.self_name)):
                        continue
                    m = ctx.P.find_method(fn.cls, call.func.attr)
                    if m is None or m.qualname in seen or depth > 3:
                        continue
                    seen.add(m.qualname)
                    msrc = f'{m.self_name or "self"}.{x.attr}'
                    for mu in _size_mutations(m.node, msrc):
                        hits.append((origin, mu, f'through {m.short}'))
                    work.extend((c2, origin, depth + 1) for c2 in calls_in(m.node))
            for (at, mu, how) in hits:
                if header is not None:
                    try:
                        nid = g.primary(at)
                    except Exception:
                        continue
                    if header not in g.reachable([nid], exc=False, include_starts=False):
                        continue          # the loop is left right after the mutation
                n += 1
                yield ctx.ob('SWEEP.NO-MUTATE-WHILE-ITERATING', False, fn, at, f'`{xsrc}` not resized while iterated',
                             f'the iteration over `{src(it)[:50]}` continues after `{src(mu)[:60]}` ({how}) changed the size of the container it is iterating',
                             construct=f'{xsrc}@{src(mu)[:40]}')
    yield ctx.ob('SWEEP.NO-MUTATE-WHILE-ITERATING', True, None, None, f'{loops} live iterations scanned, {n} resized while iterated', construct='scan', path='labtech/')


_PURE_DEFAULT_CALLS = {'frozenset', 'tuple', 'frozendict', 'Path', 'timedelta', 'object'}


@rule('SWEEP.DEFAULTS-PER-CALL', sorted({q for _p, ps in SCOPES for q in ps}))
def defaults_per_call(ctx: Ctx):
    """No parameter default is a mutable container or a call whose value should differ per call (`uuid4()`, `time()`,
    `Queue()`, `[]`, `{}`): defaults are evaluated once, at import, and then shared by every call and every instance."""
    n = 0
    for fn in ctx.P.all_functions():
        if ctx.pid is not None and ctx.pid not in scope_of(fn):
            continue
        a = fn.node.args
        for d in list(a.defaults) + [x for x in a.kw_defaults if x is not None]:
            n += 1
            bad = isinstance(d, (ast.List, ast.Dict, ast.Set, ast.ListComp, ast.DictComp, ast.SetComp)) or \
                (isinstance(d, ast.Call) and (dotted_name(d.func) or '').split('.')[-1] not in _PURE_DEFAULT_CALLS)
            if bad:
                yield ctx.ob('SWEEP.DEFAULTS-PER-CALL', False, fn, d, f'default `{src(d)[:40]}` of {fn.name}()',
                             f'the default `{src(d)[:50]}` is evaluated once at import and shared by all calls of {fn.short}: per-run identities / '
                             'containers collide between instances')
    yield ctx.ob('SWEEP.DEFAULTS-PER-CALL', True, None, None, f'{n} parameter defaults scanned', construct='scan', path='labtech/')


FALSY_VALUE_TYPES = {'int', 'float', 'timedelta', 'str', 'bytes', 'Decimal', 'Fraction', 'complex'}


def _optional_inner(ann):
    """T for Optional[T] / Union[T, None] / T | None annotations, else None."""
    if isinstance(ann, ast.Constant) and isinstance(ann.value, str):
        try:
            ann = ast.parse(ann.value, mode='eval').body
        except SyntaxError:
            return None
    if isinstance(ann, ast.Subscript):
        head = (dotted_name(ann.value) or '').split('.')[-1]
        if head == 'Optional':
            return ann.slice
        if head == 'Union':
            elts = ann.slice.elts if isinstance(ann.slice, ast.Tuple) else [ann.slice]
            rest = [e for e in elts if not (isinstance(e, ast.Constant) and e.value is None)]
            if len(rest) == 1 and len(elts) == 2:
                return rest[0]
    if isinstance(ann, ast.BinOp) and isinstance(ann.op, ast.BitOr):
        sides = [ann.left, ann.right]
        rest = [e for e in sides if not (isinstance(e, ast.Constant) and e.value is None)]
        if len(rest) == 1:
            return rest[0]
    return None


def _declared_annotation(ctx: Ctx, e: ast.AST, fn):
    if isinstance(e, ast.Attribute):
        bt = ctx.P.type_of(e.value, fn)
        if bt and bt in ctx.P.classes:
            for x in ctx.P.mro(ctx.P.classes[bt]):
                if e.attr in x.annotations:
                    return x.annotations[e.attr]
        return None
    if isinstance(e, ast.Name):
        f = fn
        while f is not None:
            for a in f.node.args.posonlyargs + f.node.args.args + f.node.args.kwonlyargs:
                if a.arg == e.id:
                    return a.annotation
            f = f.parent
    return None


def _truthy_positions(t: ast.AST):
    if isinstance(t, ast.BoolOp):
        for v in t.values:
            yield from _truthy_positions(v)
    elif isinstance(t, ast.UnaryOp) and isinstance(t.op, ast.Not):
        yield from _truthy_positions(t.operand)
    else:
        yield t


@rule('SWEEP.OPTIONAL-BY-IDENTITY', sorted({q for _p, ps in SCOPES for q in ps}))
def optional_by_identity(ctx: Ctx):
    """Presence of an Optional[number / duration / string] is decided with `is None`, never by truthiness: 0, 0.0,
    timedelta(0) and '' are present values, and a truthiness guard silently treats them as absent (a zero duration stored
    as null, max_workers=0 read as `not given`)."""
    n = 0
    for fn in ctx.P.all_functions():
        if ctx.pid is not None and ctx.pid not in scope_of(fn):
            continue
        tests = []
        for node in ast.walk(fn.node):
            if isinstance(node, (ast.If, ast.While, ast.IfExp)):
                tests.append(node.test)
            elif isinstance(node, ast.Assert):
                tests.append(node.test)
            elif isinstance(node, ast.comprehension):
                tests.extend(node.ifs)
            elif isinstance(node, ast.BoolOp):
                tests.append(node)
        seen = set()
        for t in tests:
            for e in _truthy_positions(t):
                if id(e) in seen or not isinstance(e, (ast.Name, ast.Attribute)):
                    continue
                seen.add(id(e))
                inner = _optional_inner(_declared_annotation(ctx, e, fn))
                if inner is None:
                    continue
                tn = (dotted_name(inner) or '').split('.')[-1]
                if tn not in FALSY_VALUE_TYPES:
                    continue
                n += 1
                yield ctx.ob('SWEEP.OPTIONAL-BY-IDENTITY', False, fn, e, f'`{src(e)}` (Optional[{tn}]) tested with `is None`',
                             f'`{src(e)}` is declared Optional[{tn}] and tested by truthiness: a present but falsy value ({tn}() ) is treated as absent')
    yield ctx.ob('SWEEP.OPTIONAL-BY-IDENTITY', True, None, None, f'truthiness tests scanned, {n} on Optional values with falsy members', construct='scan', path='labtech/')


def _stores(nodes) -> set[str]:
    out: set[str] = set()
    for st in nodes:
        for n in ast.walk(st):
            if isinstance(n, ast.Name) and isinstance(n.ctx, ast.Store):
                out.add(n.id)
            elif isinstance(n, (ast.FunctionDef, ast.AsyncFunctionDef, ast.ClassDef)):
                out.add(n.name)
    return out


def _bound_before_any_raise(ctx: Ctx, fn, t: ast.Try, name: str) -> bool:
    """The try body binds `name` in a leading run of statements none of which can raise."""
    from ..engine import cannot_raise
    for st in t.body:
        if not cannot_raise(ctx, fn, st):
            return False
        targets = st.targets if isinstance(st, ast.Assign) else ([st.target] if isinstance(st, ast.AnnAssign) else [])
        if any(isinstance(x, ast.Name) and x.id == name for x in targets):
            return True
    return False


@rule('SWEEP.HANDLER-READS-BOUND', sorted({q for _p, ps in SCOPES for q in ps}))
def handler_reads_bound(ctx: Ctx):
    """An `except` / `finally` block reads no local that is first bound inside its own `try` body: the exception may have
    been raised by (or before) the binding statement, and the UnboundLocalError then replaces the cleanup the handler was
    there to do (a rollback that never runs, a lock that is never released)."""
    n = 0
    for fn in ctx.P.all_functions():
        if ctx.pid is not None and ctx.pid not in scope_of(fn):
            continue
        tries = [t for t in ast.walk(fn.node) if isinstance(t, ast.Try)]
        if not tries:
            continue
        g = ctx.cfg(fn)
        rd = ctx.rd(fn)
        params = {a.arg for a in fn.node.args.posonlyargs + fn.node.args.args + fn.node.args.kwonlyargs}
        if fn.node.args.vararg:
            params.add(fn.node.args.vararg.arg)
        if fn.node.args.kwarg:
            params.add(fn.node.args.kwarg.arg)
        declared = {nm for x in ast.walk(fn.node) if isinstance(x, (ast.Global, ast.Nonlocal)) for nm in x.names}
        for t in tries:
            if not t.body:
                continue
            bound = _stores(t.body) - params - declared
            if not bound:
                continue
            try:
                first = g.primary(t.body[0])
            except Exception:
                continue
            blocks = [(h.body, 'except') for h in t.handlers] + ([(t.finalbody, 'finally')] if t.finalbody else [])
            for body, kind in blocks:
                assigned_here: set[str] = set()
                for st in body:
                    for x in ast.walk(st):
                        if isinstance(x, ast.Name) and isinstance(x.ctx, ast.Load) and x.id in bound and x.id not in assigned_here:
                            if g.entry not in rd.reaching(first, x.id):
                                continue      # definitely bound before the try statement
                            if _bound_before_any_raise(ctx, fn, t, x.id):
                                continue
                            n += 1
                            yield ctx.ob('SWEEP.HANDLER-READS-BOUND', False, fn, st, f'`{x.id}` bound before the {kind} block reads it',
                                         f'`{x.id}` is first bound inside the try body; if the exception is raised before that binding completes, '
                                         f'`{src(st)[:60]}` raises UnboundLocalError and the rest of the {kind} block (the cleanup) never runs',
                                         construct=f'{x.id}@{kind}')
                            assigned_here.add(x.id)
                    assigned_here |= _stores([st])
    yield ctx.ob('SWEEP.HANDLER-READS-BOUND', True, None, None, f'handlers scanned, {n} possibly-unbound reads', construct='scan', path='labtech/')


@rule('SWEEP.NO-JUMP-IN-FINALLY', sorted({q for _p, ps in SCOPES for q in ps}))
def no_jump_in_finally(ctx: Ctx):
    """No `return`, `break` or `continue` leaves a `finally` block: it discards the exception in flight (a failed save or a
    failed task is then reported as a success)."""
    n = 0
    for fn in ctx.P.all_functions():
        if ctx.pid is not None and ctx.pid not in scope_of(fn):
            continue
        for t in [t for t in ast.walk(fn.node) if isinstance(t, ast.Try) and t.finalbody]:
            def jumps(nodes, in_loop):
                for st in nodes:
                    if isinstance(st, (ast.FunctionDef, ast.AsyncFunctionDef, ast.ClassDef)):
                        continue
                    if isinstance(st, ast.Return) or (isinstance(st, (ast.Break, ast.Continue)) and not in_loop):
                        yield st
                    for fld in ('body', 'orelse', 'finalbody'):
                        sub = getattr(st, fld, None)
                        if isinstance(sub, list):
                            yield from jumps(sub, in_loop or (isinstance(st, (ast.For, ast.While)) and fld == 'body'))
                    for h in getattr(st, 'handlers', []) or []:
                        yield from jumps(h.body, in_loop)
            for j in jumps(t.finalbody, False):
                n += 1
                yield ctx.ob('SWEEP.NO-JUMP-IN-FINALLY', False, fn, j, f'`{src(j)[:30]}` does not leave a finally block',
                             f'`{src(j)[:40]}` inside `finally` swallows any exception raised in the try body: the failure is reported as a normal completion')
    yield ctx.ob('SWEEP.NO-JUMP-IN-FINALLY', True, None, None, f'finally blocks scanned, {n} jumps', construct='scan', path='labtech/')


_ALL_SCOPED = sorted({q for _p, ps in SCOPES for q in ps})
IMMEDIATE_CONSUMERS = {'sorted', 'min', 'max', 'sum', 'any', 'all', 'next', 'list', 'tuple', 'set', 'dict', 'frozenset', 'OrderedSet'}


def _free_names(f: ast.AST) -> set[str]:
    """Names a lambda / nested def reads that are neither its parameters nor assigned inside it."""
    args = f.args
    bound = {a.arg for a in args.posonlyargs + args.args + args.kwonlyargs}
    if args.vararg:
        bound.add(args.vararg.arg)
    if args.kwarg:
        bound.add(args.kwarg.arg)
    body = f.body if isinstance(f.body, list) else [f.body]
    for st in body:
        for x in ast.walk(st):
            if isinstance(x, ast.Name) and isinstance(x.ctx, ast.Store):
                bound.add(x.id)
            elif isinstance(x, ast.comprehension):
                bound.update(target_names(x.target))
    out = set()
    for st in body:
        for x in ast.walk(st):
            if isinstance(x, ast.Name) and isinstance(x.ctx, ast.Load) and x.id not in bound:
                out.add(x.id)
    return out


@rule('SWEEP.LOOP-CLOSURE-BINDING', _ALL_SCOPED)
def loop_closure_binding(ctx: Ctx):
    """A lambda / nested function created inside a `for` loop that outlives the iteration (stored, appended, passed to
    something that keeps it - a thunk handed to an executor, a callback) does not read the loop variable or a per-iteration
    local by name: closures bind late, so every such function would see the values of the *last* iteration."""
    n = 0
    for fn in ctx.P.all_functions():
        if ctx.pid is not None and ctx.pid not in scope_of(fn):
            continue
        for loop in [x for x in walk_local_nodes(fn.node) if isinstance(x, (ast.For, ast.AsyncFor))]:
            per_iter = set(target_names(loop.target)) | _stores(loop.body)
            parents = {}
            for x in ast.walk(loop):
                for ch in ast.iter_child_nodes(x):
                    parents[id(ch)] = x
            for f in [x for st in loop.body for x in ast.walk(st) if isinstance(x, (ast.Lambda, ast.FunctionDef))]:
                captured = _free_names(f) & per_iter
                if isinstance(f, ast.FunctionDef):
                    captured.discard(f.name)
                if not captured:
                    continue
                # consumed on the spot?  sorted(xs, key=lambda ...), any(f(x) for ...), next(...)
                par = parents.get(id(f))
                if isinstance(par, ast.keyword):
                    par = parents.get(id(par))
                if isinstance(f, ast.Lambda) and isinstance(par, ast.Call) and (dotted_name(par.func) or '').split('.')[-1] in IMMEDIATE_CONSUMERS:
                    continue
                if isinstance(f, ast.FunctionDef):
                    # a local helper that is only *called* inside the same iteration is fine
                    uses = [x for st in loop.body for x in ast.walk(st) if isinstance(x, ast.Name) and x.id == f.name and isinstance(x.ctx, ast.Load)]
                    if uses and all(isinstance(parents.get(id(u)), ast.Call) and parents[id(u)].func is u for u in uses):
                        continue
                n += 1
                yield ctx.ob('SWEEP.LOOP-CLOSURE-BINDING', False, fn, f, f'closure created per `{src(loop.target)}` binds its values now',
                             f'the function created in the loop reads {sorted(captured)} by name after the iteration that created it: all such '
                             "functions see the last iteration's values (bind with functools.partial or a default argument)",
                             construct=f'closure@{src(loop.target)}:{",".join(sorted(captured))}')
        # the same trap in a comprehension: `[lambda k: f(t, k) for t in types]` - every lambda sees the last `t`
        for comp in [x for x in walk_local_nodes(fn.node) if isinstance(x, (ast.ListComp, ast.SetComp, ast.DictComp, ast.GeneratorExp))]:
            cvars = set()
            for gen in comp.generators:
                cvars.update(target_names(gen.target))
            elts = [comp.key, comp.value] if isinstance(comp, ast.DictComp) else [comp.elt]
            for e in elts:
                for f in [x for x in ast.walk(e) if isinstance(x, ast.Lambda)]:
                    captured = _free_names(f) & cvars
                    if not captured:
                        continue
                    # called on the spot inside the element expression: `(lambda: g(t))()`
                    if any(isinstance(c, ast.Call) and c.func is f for c in ast.walk(e)):
                        continue
                    n += 1
                    yield ctx.ob('SWEEP.LOOP-CLOSURE-BINDING', False, fn, f, f'closure created per `{", ".join(sorted(cvars))}` binds its values now',
                                 f'each lambda built by the comprehension reads {sorted(captured)} by name when it is called, i.e. the value of the '
                                 "last element: all of them behave like the last one (bind with functools.partial or a default argument)",
                                 construct=f'closure@comp:{",".join(sorted(captured))}')
    yield ctx.ob('SWEEP.LOOP-CLOSURE-BINDING', True, None, None, f'closures in loops scanned, {n} late bindings', construct='scan', path='labtech/')


def walk_local_nodes(node: ast.AST):
    """ast.walk that does not descend into nested function definitions (the node itself excepted)."""
    todo = list(ast.iter_child_nodes(node))
    while todo:
        x = todo.pop()
        yield x
        if isinstance(x, (ast.FunctionDef, ast.AsyncFunctionDef, ast.Lambda, ast.ClassDef)):
            continue
        todo.extend(ast.iter_child_nodes(x))


ONE_SHOT_MAKERS = {'map', 'filter', 'zip', 'iter', 'reversed', 'enumerate'}


@rule('SWEEP.ITERATOR-REUSE', _ALL_SCOPED)
def iterator_reuse(ctx: Ctx):
    """A local bound to a one-shot iterator (generator expression, map / filter / zip / iter / reversed / enumerate object, the
    result of a generator function of the package) is consumed at most once: the second consumer silently sees it empty."""
    n = 0
    gens = {f.qualname for f in ctx.P.all_functions() if any(isinstance(x, (ast.Yield, ast.YieldFrom)) for x in walk_local_nodes(f.node))}
    for fn in ctx.P.all_functions():
        if ctx.pid is not None and ctx.pid not in scope_of(fn):
            continue
        for st in walk_local_nodes(fn.node):
            if not (isinstance(st, ast.Assign) and len(st.targets) == 1 and isinstance(st.targets[0], ast.Name)):
                continue
            v = st.value
            one_shot = isinstance(v, ast.GeneratorExp) or \
                (isinstance(v, ast.Call) and isinstance(v.func, ast.Name) and v.func.id in ONE_SHOT_MAKERS) or \
                (isinstance(v, ast.Call) and any(q in gens for q in ctx.P.resolve_call(v, fn, by_name=False)))
            if not one_shot:
                continue
            name = st.targets[0].id
            stores = [x for x in walk_local_nodes(fn.node) if isinstance(x, ast.Name) and x.id == name and isinstance(x.ctx, ast.Store)]
            if len(stores) != 1:
                continue
            loads = [x for x in walk_local_nodes(fn.node) if isinstance(x, ast.Name) and x.id == name and isinstance(x.ctx, ast.Load)]
            # `next(it)` / `next(it, d)` pulls one element and is meant to be repeated
            parents = {}
            for x in ast.walk(fn.node):
                for ch in ast.iter_child_nodes(x):
                    parents[id(ch)] = x
            consumers = [x for x in loads if not (isinstance(parents.get(id(x)), ast.Call) and (dotted_name(parents[id(x)].func) or '') == 'next')]
            def _in_body(p, node):
                return any(c is node for b in (p.body + p.orelse) for c in ast.walk(b))
            in_loop = any(isinstance(p, (ast.For, ast.While)) and _in_body(p, consumers[0]) and not any(s is st for s in ast.walk(p))
                          for p in walk_local_nodes(fn.node)) if consumers else False
            if len(consumers) >= 2 or (len(consumers) == 1 and in_loop):
                n += 1
                yield ctx.ob('SWEEP.ITERATOR-REUSE', False, fn, consumers[-1], f'one-shot iterator `{name}` consumed once',
                             f'`{name}` is a one-shot iterator (`{src(v)[:40]}`) but is consumed more than once (or inside a loop it was created outside of): '
                             'every consumer after the first sees it exhausted', construct=f'{name}')
    yield ctx.ob('SWEEP.ITERATOR-REUSE', True, None, None, f'one-shot iterators scanned, {n} reused', construct='scan', path='labtech/')


@rule('SWEEP.COMPARISON-TRAPS', _ALL_SCOPED)
def comparison_traps(ctx: Ctx):
    """`except A or B` (catches only A), identity comparison with a str / number / tuple literal (`x is 'w'`, implementation
    defined), and `x == None`-free: these read like the intended test and are not."""
    n = 0
    for fn in ctx.P.all_functions():
        if ctx.pid is not None and ctx.pid not in scope_of(fn):
            continue
        for x in walk_local_nodes(fn.node):
            if isinstance(x, ast.ExceptHandler) and isinstance(x.type, ast.BoolOp):
                n += 1
                yield ctx.ob('SWEEP.COMPARISON-TRAPS', False, fn, x.type, 'except clause names a class or a tuple of classes',
                             f'`except {src(x.type)}` evaluates the boolean expression first and catches only its value (the first class): '
                             'the other exception types escape the handler')
            elif isinstance(x, ast.Compare):
                operands = [x.left] + list(x.comparators)
                for op, a, b in zip(x.ops, operands, operands[1:]):
                    if isinstance(op, (ast.In, ast.NotIn)):
                        # membership in what is (or names) a string literal: a substring test - `('_is_task' '__class__')`
                        # is one string, not a pair
                        rb = b
                        if isinstance(rb, ast.Name) and rb.id in fn.module.consts and not ctx.P._is_local_name(rb.id, fn):
                            rb = fn.module.consts[rb.id]
                        if isinstance(rb, ast.Constant) and isinstance(rb.value, str) and len(rb.value) > 1 \
                                and not (isinstance(a, ast.Constant) and isinstance(a.value, str)):
                            n += 1
                            yield ctx.ob('SWEEP.COMPARISON-TRAPS', False, fn, x, 'membership test against a collection, not a string',
                                         f'`{src(x)[:60]}` tests membership in the string {rb.value!r}: that is a substring test (a tuple that lost '
                                         'its comma, adjacent literals that were concatenated), so unrelated values match')
                    if isinstance(op, (ast.Is, ast.IsNot)):
                        for side in (a, b):
                            if (isinstance(side, ast.Constant) and side.value is not None and not isinstance(side.value, bool)
                                    and side.value is not Ellipsis) or isinstance(side, (ast.Tuple, ast.List, ast.Dict, ast.Set, ast.JoinedStr)):
                                n += 1
                                yield ctx.ob('SWEEP.COMPARISON-TRAPS', False, fn, x, 'identity test only against singletons',
                                             f'`{src(x)[:60]}` compares identity with a literal: whether equal values are the same object is an '
                                             'implementation detail (interning, pickling, another process)')
    yield ctx.ob('SWEEP.COMPARISON-TRAPS', True, None, None, f'comparisons and except clauses scanned, {n} traps', construct='scan', path='labtech/')


@rule('SWEEP.SLICE-BOUND-SIGN', _ALL_SCOPED)
def slice_bound_sign(ctx: Ctx):
    """`seq[-n:]` ("the last n") and `seq[:-n]` ("all but the last n") with a computed n: for n == 0 the first is the *whole*
    sequence and the second is *empty*, because -0 is 0.  Accepted when n is a positive literal or the statement runs only
    under a condition that excludes n == 0."""
    n_seen = 0
    for fn in ctx.P.all_functions():
        if ctx.pid is not None and ctx.pid not in scope_of(fn):
            continue
        stmts = [x for x in walk_local_nodes(fn.node) if isinstance(x, ast.stmt)]
        for x in walk_local_nodes(fn.node):
            if not (isinstance(x, ast.Subscript) and isinstance(x.slice, ast.Slice)):
                continue
            for which, b, other in (('lower', x.slice.lower, x.slice.upper), ('upper', x.slice.upper, x.slice.lower)):
                if not (isinstance(b, ast.UnaryOp) and isinstance(b.op, ast.USub)) or other is not None:
                    continue
                e = b.operand
                if isinstance(e, ast.Constant) and isinstance(e.value, int) and e.value > 0:
                    continue
                n_seen += 1
                # innermost statement holding the subscript
                host = None
                for st in stmts:
                    if any(y is x for y in ast.walk(st)) and (host is None or any(y is st for y in ast.walk(host))):
                        host = st
                ok = False
                if host is not None:
                    c = cond_from_entry(ctx, fn, host)
                    ok = any(implies(c, formula_of(ctx, fn, t)) for t in (f'{src(e)} > 0', f'{src(e)} != 0', f'{src(e)} >= 1'))
                what = 'the whole sequence' if which == 'lower' else 'an empty sequence'
                yield ctx.ob('SWEEP.SLICE-BOUND-SIGN', ok, fn, x, f'`{src(x)[:50]}`: the count cannot be 0 here', '' if ok else
                             f'`{src(x)[:60]}` yields {what} when `{src(e)}` is 0 (-0 is 0), not {"no" if which == "lower" else "all"} elements')
    yield ctx.ob('SWEEP.SLICE-BOUND-SIGN', True, None, None, f'slices scanned, {n_seen} with a negated computed bound', construct='scan', path='labtech/')


@rule('SWEEP.PARAM-NOT-REBOUND-BY-LOOP', _ALL_SCOPED)
def param_not_rebound_by_loop(ctx: Ctx):
    """A `for` / `with … as` / `except … as` target does not reuse the name of a parameter that is read again afterwards:
    after the statement the name no longer holds the argument."""
    n = 0
    for fn in ctx.P.all_functions():
        if ctx.pid is not None and ctx.pid not in scope_of(fn):
            continue
        params = {a.arg for a in fn.node.args.posonlyargs + fn.node.args.args + fn.node.args.kwonlyargs}
        if not params:
            continue
        g = None
        for x in walk_local_nodes(fn.node):
            tg = None
            if isinstance(x, (ast.For, ast.AsyncFor)):
                tg = set(target_names(x.target))
            if not tg or not (tg & params):
                continue
            g = g or ctx.cfg(fn)
            try:
                header = [i for i in g.nodes_of(x) if g.node(i).kind == 'for'][0]
            except IndexError:
                continue
            body = g.loop_body_nodes(header)
            after = g.reachable([t for (t, lab) in g.succ.get(header, []) if lab not in ('loop', 'true', 'exc')], exc=False) - body - {header}
            for name in sorted(tg & params):
                redefs = {i for i in after if name in node_defs(g, i)}
                reads = [i for i in after if name in _node_reads(g, i) and i not in redefs]
                if reads:
                    n += 1
                    yield ctx.ob('SWEEP.PARAM-NOT-REBOUND-BY-LOOP', False, fn, x, f'loop target `{name}` does not shadow the parameter `{name}`',
                                 f'the loop re-binds the parameter `{name}`; the read at line {getattr(g.node(reads[0]).ast, "lineno", "?")} after the loop '
                                 'sees the last element (or the argument, if the loop did not run), not the argument')
    yield ctx.ob('SWEEP.PARAM-NOT-REBOUND-BY-LOOP', True, None, None, f'loops scanned, {n} parameters shadowed', construct='scan', path='labtech/')


@rule('SWEEP.SHARED-MUTABLE-FILL', _ALL_SCOPED)
def shared_mutable_fill(ctx: Ctx):
    """`dict.fromkeys(keys, {})`, `[[]] * n`, `[set()] * n`: every key / slot refers to the *same* container, so an entry
    recorded for one key shows up under all of them."""
    n = 0

    def mutable(e: ast.AST) -> bool:
        return isinstance(e, (ast.Dict, ast.List, ast.Set, ast.DictComp, ast.ListComp, ast.SetComp)) or \
            (isinstance(e, ast.Call) and (dotted_name(e.func) or '').split('.')[-1] in
             {'dict', 'list', 'set', 'defaultdict', 'deque', 'OrderedDict', 'Counter', 'OrderedSet', 'bytearray'})

    for fn in ctx.P.all_functions():
        if ctx.pid is not None and ctx.pid not in scope_of(fn):
            continue
        for x in walk_local_nodes(fn.node):
            bad = None
            if isinstance(x, ast.Call) and isinstance(x.func, ast.Attribute) and x.func.attr == 'fromkeys' and len(x.args) == 2 and mutable(x.args[1]):
                bad = x.args[1]
            elif isinstance(x, ast.BinOp) and isinstance(x.op, ast.Mult):
                for side in (x.left, x.right):
                    if isinstance(side, (ast.List, ast.Tuple)) and any(mutable(e) for e in side.elts):
                        bad = side
            if bad is not None:
                n += 1
                yield ctx.ob('SWEEP.SHARED-MUTABLE-FILL', False, fn, x, 'each key / slot gets its own container',
                             f'`{src(x)[:60]}` puts one and the same `{src(bad)[:20]}` object under every key / in every slot: what is added for one is seen for all')
    yield ctx.ob('SWEEP.SHARED-MUTABLE-FILL', True, None, None, f'fills scanned, {n} shared containers', construct='scan', path='labtech/')


_KEY_SINKS_OK = {'exists', 'file_handle', 'delete', 'load_metadata', 'load_task', 'load_result', 'startswith', 'endswith', 'debug', 'info',
                 'warning', 'error', 'find_keys', 'validate_file_path_key', '_key_to_path', 'format', 'join', 'print'}


@rule('SWEEP.CACHE-KEY-NOT-IDENTITY', ['C01', 'C02', 'C03', 'C04', 'C05', 'C09', 'C10', 'C11', 'C17', 'C20', 'C15'])
def cache_key_not_identity(ctx: Ctx):
    """`task.cache_key` names a storage entry; it is not an identity for tasks.  Every task of a `cache=None` type has the same
    key ('null'), and equal tasks can have different keys (dict insertion order, 1 vs 1.0).  Outside cache.py / storage.py the
    key is therefore never used to index, look up, compare or deduplicate tasks (dict / set keys, `in`, `==`, `.add(...)`): doing
    so merges unrelated uncached tasks or splits equal ones."""
    n = 0
    seen = 0
    for fn in ctx.P.all_functions():
        rel = fn.module.name.split('.', 1)[-1]
        if rel.startswith(('cache', 'storage', 'mypy_plugin')):
            continue
        parents = {}
        for x in ast.walk(fn.node):
            for ch in ast.iter_child_nodes(x):
                parents[id(ch)] = x
        # locals that hold a cache key (one step): k = task.cache_key / k = f(task) where f returns .cache_key
        key_fns = {f.qualname for f in ctx.P.all_functions()
                   if any(isinstance(r, ast.Return) and r.value is not None and any(isinstance(a, ast.Attribute) and a.attr == 'cache_key' for a in ast.walk(r.value))
                          for r in walk_local_nodes(f.node)) and not f.module.name.split('.', 1)[-1].startswith(('cache', 'storage'))}
        holders = set()
        for st in walk_local_nodes(fn.node):
            if isinstance(st, ast.Assign) and len(st.targets) == 1 and isinstance(st.targets[0], ast.Name):
                v = st.value
                if (isinstance(v, ast.Attribute) and v.attr == 'cache_key') or \
                        (isinstance(v, ast.Call) and any(q in key_fns for q in ctx.P.resolve_call(v, fn, by_name=False))):
                    holders.add(st.targets[0].id)

        def is_key(e: ast.AST) -> bool:
            return (isinstance(e, ast.Attribute) and e.attr == 'cache_key' and isinstance(e.ctx, ast.Load)) or \
                (isinstance(e, ast.Name) and e.id in holders and isinstance(e.ctx, ast.Load)) or \
                (isinstance(e, ast.Call) and any(q in key_fns for q in ctx.P.resolve_call(e, fn, by_name=False)))

        for x in ast.walk(fn.node):
            if not is_key(x):
                continue
            seen += 1
            p = parents.get(id(x))
            how = None
            if isinstance(p, ast.Subscript) and p.slice is x:
                how = 'index'
            elif isinstance(p, ast.Compare) and any(isinstance(o, (ast.Eq, ast.NotEq, ast.In, ast.NotIn)) for o in p.ops):
                # comparing a stored key with the metadata's key inside the same task is a storage check, not identity
                other = [o for o in [p.left] + list(p.comparators) if o is not x]
                if not any(isinstance(o, ast.Subscript) and isinstance(o.slice, ast.Constant) and o.slice.value == 'cache_key' for o in other):
                    how = 'comparison / membership'
            elif isinstance(p, ast.Call) and isinstance(p.func, ast.Attribute) and x in p.args \
                    and p.func.attr in ('add', 'discard', 'remove', 'append', 'setdefault', 'get', 'pop', 'index', 'count', '__contains__') \
                    and p.func.attr not in _KEY_SINKS_OK:
                how = f'.{p.func.attr}(...)'
            elif isinstance(p, ast.Dict) and x in p.keys:
                how = 'dict key'
            elif isinstance(p, ast.Set):
                how = 'set element'
            elif isinstance(p, ast.DictComp) and p.key is x:
                how = 'dict key'
            elif isinstance(p, (ast.SetComp,)) and p.elt is x:
                how = 'set element'
            elif isinstance(p, ast.Tuple) and isinstance(parents.get(id(p)), (ast.Subscript, ast.Set)) :
                how = 'part of a key tuple'
            if how is None:
                continue
            if ctx.pid is not None and ctx.pid not in (scope_of(fn) or ['C01', 'C03', 'C09', 'C10']):
                continue
            n += 1
            yield ctx.ob('SWEEP.CACHE-KEY-NOT-IDENTITY', False, fn, p if isinstance(p, ast.AST) else x, 'cache_key not used as a task identity',
                         f'`{src(p)[:70]}` uses a cache key as {how}: all tasks of a cache=None type share the key \'null\' (they would be merged) and '
                         'equal tasks may have different keys (they would be split)', construct=f'cache_key:{how}')
    yield ctx.ob('SWEEP.CACHE-KEY-NOT-IDENTITY', True, None, None, f'{seen} cache-key reads outside cache/storage scanned, {n} identity uses', construct='scan', path='labtech/')


@rule('SWEEP.YIELD-OUTSIDE-CATCH-ALL', _ALL_SCOPED)
def yield_outside_catch_all(ctx: Ctx):
    """A generator never yields from inside a `try` whose handler catches everything without re-raising (bare `except`,
    `except BaseException`): closing the generator - which the consumer does implicitly when it is interrupted or leaves its
    loop early - raises GeneratorExit at that yield; a handler that swallows it and yields again turns the caller's
    KeyboardInterrupt into `RuntimeError: generator ignored GeneratorExit`."""
    from ..cfg import handler_is_catch_all
    n = 0
    for fn in ctx.P.all_functions():
        if ctx.pid is not None and ctx.pid not in scope_of(fn):
            continue
        ys = [y for y in walk_local_nodes(fn.node) if isinstance(y, (ast.Yield, ast.YieldFrom))]
        if not ys:
            continue
        for t in [t for t in walk_local_nodes(fn.node) if isinstance(t, ast.Try)]:
            inside = [y for y in ys if any(x is y for b in t.body for x in ast.walk(b))]
            if not inside:
                continue
            for h in t.handlers:
                if not handler_is_catch_all(h):
                    continue
                reraises = h.body and isinstance(h.body[-1], ast.Raise) and h.body[-1].exc is None
                first_guard = h.body and isinstance(h.body[0], ast.If) and any(isinstance(x, ast.Raise) for x in ast.walk(h.body[0])) \
                    and 'GeneratorExit' in src(h.body[0].test)
                # an earlier clause that lets GeneratorExit (or KeyboardInterrupt and GeneratorExit) through
                earlier = t.handlers[:t.handlers.index(h)]
                passes = any('GeneratorExit' in src(e.type) and e.body and isinstance(e.body[-1], ast.Raise) for e in earlier if e.type is not None)
                if reraises or first_guard or passes:
                    continue
                n += 1
                yield ctx.ob('SWEEP.YIELD-OUTSIDE-CATCH-ALL', False, fn, inside[0], f'yield in {fn.short} not covered by a swallowing catch-all',
                             f'`{src(inside[0])[:40]}` sits inside a try whose `except {src(h.type) if h.type else ""}` swallows GeneratorExit: when the consumer '
                             'is interrupted the generator cannot be closed and a RuntimeError replaces the KeyboardInterrupt')
    yield ctx.ob('SWEEP.YIELD-OUTSIDE-CATCH-ALL', True, None, None, f'generators scanned, {n} yields under a swallowing catch-all', construct='scan', path='labtech/')
