"""Rules over the public API in lab.py (run_tasks, cached_tasks, handle_failure) and the coordinator's
interrupt handling.  Serves C01, C09, C10, C14."""
from __future__ import annotations

import ast
from typing import Optional

from .. import roles
from ..cfg import handler_is_catch_all
from ..dataflow import expand_locals
from ..engine import (Ctx, calls_in, cond_from_entry, cond_in_loop, early_exits, field_writes, formula_of, kwarg,
                      loop_region, rule, same_expr, strip_order_preserving)
from ..formula import TRUE, atoms_of, canon, equivalent, ev, f_not, implies, show, valuations
from ..model import PKG, AnalysisError, FuncInfo, dotted, src, walk_local
from .runners import _handler_always_raises


@rule('C01.ORDERKEYS', ['C01'])
def orderkeys(ctx: Ctx):
    """Lab.run_tasks returns a dict keyed by iterating the `tasks` parameter itself, each key being the
    loop variable and each value that task's entry in the coordinator's results; an entry is left out
    only when the task has no result (membership test), never because of the value."""
    fn = ctx.P.func('lab.Lab.run_tasks')
    sn = fn.self_name
    tparam = [a.arg for a in fn.params if a.arg != sn][0]
    g = ctx.cfg(fn)
    rd = ctx.rd(fn)
    rets = [n for n in walk_local(fn.node) if isinstance(n, ast.Return) and n.value is not None]
    if len(rets) != 1:
        yield ctx.ob('C01.ORDERKEYS', False, fn, fn.node, 'single return', f'run_tasks has {len(rets)} returns with a value', construct='returns')
        return
    r = rets[0]
    v = r.value
    if isinstance(v, ast.Name):
        d0 = rd.single_def(g.primary(r), v.id)
        dv0 = rd.def_value(d0, v.id) if d0 is not None else None
        if dv0 and dv0[0] == 'value':
            v = dv0[1]
    if not isinstance(v, ast.DictComp):
        yield ctx.ob('C01.ORDERKEYS', False, fn, r, 'dict comprehension over tasks',
                     f'run_tasks returns `{src(v)[:60]}`, which is not a dict built by iterating the requested tasks in order')
        return
    gen = v.generators[0]
    it = gen.iter
    ok_iter = len(v.generators) == 1 and isinstance(it, ast.Name) and it.id == tparam \
        and rd.single_def(g.primary(r), tparam) == g.entry and isinstance(gen.target, ast.Name)
    yield ctx.ob('C01.ORDERKEYS', ok_iter, fn, r, f'keys produced by iterating `{tparam}` itself',
                 '' if ok_iter else f'the returned dict iterates `{src(it)}` instead of the `{tparam}` parameter: order or key set can differ from the request')
    if not isinstance(gen.target, ast.Name):
        return
    tv = gen.target.id
    ok_key = isinstance(v.key, ast.Name) and v.key.id == tv
    # value: results[task] where results is the coordinator's return value
    resname = None
    val_ok = False
    if isinstance(v.value, ast.Subscript) and isinstance(v.value.value, ast.Name) and isinstance(v.value.slice, ast.Name) \
            and v.value.slice.id == tv:
        resname = v.value.value.id
        d = rd.single_def(g.primary(r), resname)
        dv = rd.def_value(d, resname) if d is not None else None
        val_ok = bool(dv and dv[0] == 'value' and isinstance(dv[1], ast.Call)
                      and f'{PKG}.lab.TaskCoordinator.run' in ctx.P.resolve_call(dv[1], fn)
                      and dv[1].args and isinstance(dv[1].args[0], ast.Name) and dv[1].args[0].id == tparam)
    yield ctx.ob('C01.ORDERKEYS', ok_key and val_ok, fn, r, 'each key is the loop task, each value its own entry of coordinator.run(tasks)',
                 '' if ok_key and val_ok else f'`{src(v)[:80]}`: key/value are not (task, results[task]) of the coordinator\'s results for the same tasks')
    # filters: only membership of the task in the results
    if gen.ifs and resname:
        fb = ctx.fb(fn)
        from ..formula import f_and
        have = f_and(*[fb.build(i) for i in gen.ifs])
        need = formula_of(ctx, fn, f'{tv} in {resname}')
        ok_f = equivalent(have, need)
        yield ctx.ob('C01.ORDERKEYS', ok_f, fn, gen.ifs[0], 'a task is omitted only when it has no result',
                     '' if ok_f else f'tasks are filtered by `{" and ".join(src(i) for i in gen.ifs)}`: a successful task can be dropped from the '
                     'returned dict (e.g. because of its value)')
    elif gen.ifs:
        yield ctx.ob('C01.ORDERKEYS', False, fn, gen.ifs[0], 'filter', 'the returned dict is filtered by something other than membership in the results')


@rule('C01.CAPTURE', ['C01', 'C17'])
def capture(ctx: Ctx):
    """In the consumer loop the result of every requested task is captured as D[t] = get_result(t).value
    for the yielded task t, under a guard no narrower than `t in tasks`, and D is what run() returns."""
    from .c17 import _capture_store
    gr = {f.qualname for f in roles.impls(ctx, roles.RUNNER, 'get_result')}
    for cl in roles.consumer_loops(ctx):
        caps = _capture_store(ctx, cl)
        if not caps:
            yield ctx.ob('C01.CAPTURE', False, cl.fn, cl.loop, 'capture store', 'no capture of Runner.get_result(task).value in the consumer loop',
                         construct='no-capture')
            continue
        g = ctx.cfg(cl.fn)
        rd = ctx.rd(cl.fn)
        for (cap, call) in caps:
            t = cap.targets[0]
            key_ok = isinstance(t.slice, ast.Name) and t.slice.id == cl.task_var
            arg_ok = call.args and isinstance(call.args[0], ast.Name) and call.args[0].id == cl.task_var
            val_ok = isinstance(cap.value, ast.Attribute) and cap.value.attr == 'value' and cap.value.value is call
            bind_ok = rd.single_def(g.primary(cap), cl.task_var) == g.primary(cl.loop)
            ok = key_ok and arg_ok and val_ok and bind_ok
            yield ctx.ob('C01.CAPTURE', bool(ok), cl.fn, cap, 'D[t] = runner.get_result(t).value for the yielded t',
                         '' if ok else f'`{src(cap)}` does not store the yielded task\'s own result value under that task')
            # guard: implied by (t in tasks) on the success branch
            c = cond_in_loop(ctx, cl.fn, cl.loop, cap)
            outer = cl.fn.parent or cl.fn
            tp = [a.arg for a in outer.params if a.arg != outer.self_name][0]
            succ = formula_of(ctx, cl.fn, f'isinstance({cl.res_var}, ResultMeta) and not isinstance({cl.res_var}, BaseException)')
            req = formula_of(ctx, cl.fn, f'{cl.task_var} in {tp}')
            from ..formula import f_and
            okg = True
            for v in valuations(atoms_of(c) | atoms_of(succ) | atoms_of(req)):
                if ev(succ, v) and ev(req, v) and not ev(c, v):
                    okg = False
            yield ctx.ob('C01.CAPTURE', okg, cl.fn, cap, 'capture guard no narrower than `task in tasks` on success',
                         '' if okg else f'the capture happens only when {show(c)}: a requested, successful task can be left out of the results')
            # D is returned by the enclosing run()
            D = t.value.id if isinstance(t.value, ast.Name) else None
            rets = [n for n in walk_local(outer.node) if isinstance(n, ast.Return) and n.value is not None]
            okr = D is not None and bool(rets) and all(isinstance(r.value, ast.Name) and r.value.id == D for r in rets)
            # and never rebound
            rebinds = [n for n in walk_local(outer.node) if (isinstance(n, ast.Assign) and any(isinstance(x, ast.Name) and x.id == D for x in n.targets))
                       or (isinstance(n, ast.AnnAssign) and n.value is not None and isinstance(n.target, ast.Name) and n.target.id == D)]
            okr = okr and len(rebinds) == 1 and isinstance(rebinds[0].value, ast.Dict) and not rebinds[0].value.keys
            yield ctx.ob('C01.CAPTURE', okr, outer, rets[0] if rets else outer.node, 'the capture dict is what run() returns',
                         '' if okr else f'run() does not return the dict `{D}` the results are captured into (or rebinds it)')


@rule('C09.LOOP', ['C09', 'C08'])
def cached_tasks_loop(ctx: Ctx):
    """Lab.cached_tasks: all keys x all types, append-then-break on success (exactly once per key), and
    the only swallowed exception type is TaskNotFound."""
    fn = ctx.P.func('lab.Lab.cached_tasks')
    sn = fn.self_name
    g = ctx.cfg(fn)
    rd = ctx.rd(fn)
    tparam = [a.arg for a in fn.params if a.arg != sn][0]
    outer = None
    inner = None
    for lp in [n for n in walk_local(fn.node) if isinstance(n, ast.For)]:
        itn = [n for n in g.nodes_containing(lp.iter) if g.node(n).kind == 'iter_eval']
        it = expand_locals(g, rd, lp.iter, itn[0] if itn else g.primary(lp))
        it = strip_order_preserving(it)
        if isinstance(it, ast.Call) and isinstance(it.func, ast.Attribute) and it.func.attr == 'find_keys':
            outer = lp
        if isinstance(it, ast.Name) and it.id == tparam:
            inner = lp
    if outer is None or inner is None or not any(x is inner for x in ast.walk(outer)):
        yield ctx.ob('C09.LOOP', False, fn, fn.node, 'keys x types loops', 'cached_tasks does not iterate storage.find_keys() x task_types',
                     construct='no-loops')
        return
    exits_o = early_exits(outer, allow_raise=True, allow_continue=True)
    yield ctx.ob('C09.LOOP', not exits_o, fn, exits_o[0] if exits_o else outer, 'every key is examined',
                 '' if not exits_o else f'`{src(exits_o[0])}` stops examining keys early')
    loads = [c for c in calls_in(inner) if isinstance(c.func, ast.Attribute) and c.func.attr == 'load_task']
    if not loads:
        yield ctx.ob('C09.LOOP', False, fn, inner, 'load_task per (key, type)', 'no load_task call in the loop', construct='no-load')
        return
    ld = loads[0]
    args_ok = len(ld.args) == 3 and same_expr(ld.args[0], ast.parse(f'{sn}._storage', mode='eval').body) \
        and isinstance(ld.args[1], ast.Name) and isinstance(inner.target, ast.Name) and ld.args[1].id == inner.target.id \
        and isinstance(ld.args[2], ast.Name) and isinstance(outer.target, ast.Name) and ld.args[2].id == outer.target.id \
        and same_expr(ld.func.value, ast.parse(f'{inner.target.id}._lt.cache', mode='eval').body)
    yield ctx.ob('C09.LOOP', bool(args_ok), fn, ld, 'task_type._lt.cache.load_task(self._storage, task_type, key)',
                 '' if args_ok else f'`{src(ld)}` does not load (this type, this key) from the Lab storage with the type\'s own cache')
    tries = [t for t in walk_local(inner) if isinstance(t, ast.Try) and any(x is ld for b in t.body for x in ast.walk(b))]
    if not tries:
        yield ctx.ob('C09.LOOP', False, fn, ld, 'TaskNotFound handled', 'load_task is not inside a try: the first foreign entry aborts cached_tasks',
                     construct='no-try')
        return
    t = tries[0]
    for h in t.handlers:
        names = []
        if h.type is not None:
            names = [(dotted(e) or '').split('.')[-1] for e in (h.type.elts if isinstance(h.type, ast.Tuple) else [h.type])]
        ok = names == ['TaskNotFound'] or _handler_always_raises(ctx, fn, h)
        yield ctx.ob('C09.LOOP', ok, fn, h, f'handler for {names or "everything"}', '' if ok else
                     f'`except {src(h.type) if h.type else ""}` swallows more than TaskNotFound: corrupt or unreadable entries are silently skipped')
    has_tnf = any(h.type is not None and (dotted(h.type) or '').split('.')[-1] == 'TaskNotFound' for h in t.handlers)
    yield ctx.ob('C09.LOOP', has_tnf, fn, t, 'TaskNotFound is swallowed (entry of another type / cache)', '' if has_tnf else
                 'TaskNotFound is not handled: entries of other task types abort cached_tasks', construct='tnf')
    # append then break on success
    rets = [n for n in walk_local(fn.node) if isinstance(n, ast.Return) and isinstance(n.value, ast.Name)]
    L = rets[0].value.id if rets else None
    apps = [c for c in calls_in(inner) if isinstance(c.func, ast.Attribute) and c.func.attr == 'append'
            and isinstance(c.func.value, ast.Name) and c.func.value.id == L]
    header, body = loop_region(ctx, fn, inner)
    ok_ab = False
    if apps:
        an = g.primary(apps[0])
        # after the append the inner loop is left (no path back to the inner header)
        back = g.reachable([an], avoid=[g.primary(outer)], exc=False, include_starts=False) & {header}
        dom = g.dominates(g.primary(ld), an)
        # the appended value is the loaded task
        a0 = apps[0].args[0] if apps[0].args else None
        val = False
        if isinstance(a0, ast.Name):
            d = rd.single_def(an, a0.id)
            dv = rd.def_value(d, a0.id) if d is not None else None
            val = bool(dv and dv[0] == 'value' and dv[1] is ld)
        elif a0 is ld:
            val = True      # `tasks.append(<load>)`: the append cannot raise what the handler catches
        # success always appends: from the normal successor of load, every path to the loop header/exit passes the append
        ld_n = g.primary(ld)
        succs = [t2 for (t2, lab) in g.succ[ld_n] if lab != 'exc']
        always = an == ld_n or all(not (g.reachable([s], avoid=[an], exc=False) & ({header} | {g.primary(outer)})) or s == an for s in succs)
        ok_ab = (not back) and dom and val and always
    yield ctx.ob('C09.LOOP', ok_ab, fn, apps[0] if apps else inner, 'on success: append the loaded task once, then leave the type loop',
                 '' if ok_ab else 'a successfully loaded task is not appended exactly once (missing append, missing break, or another value appended)')


@rule('C10.FAIL-BRANCH', ['C10'])
def fail_branch(ctx: Ctx):
    """On the failure branch the task is completed with result_meta=None and then handle_failure is
    called with the task's exception; both on every path."""
    st = roles.state(ctx)
    hf = ctx.P.func('lab.TaskCoordinator.handle_failure')
    for cl in roles.consumer_loops(ctx):
        g = ctx.cfg(cl.fn)
        header, body = loop_region(ctx, cl.fn, cl.loop)
        fail = formula_of(ctx, cl.fn, f'isinstance({cl.res_var}, BaseException)')
        comps = [c for c in calls_in(cl.loop) if st.complete_method.qualname in ctx.P.resolve_call(c, cl.fn)]
        hfs = [c for c in calls_in(cl.loop) if hf.qualname in ctx.P.resolve_call(c, cl.fn)]
        fcomp = [c for c in comps if isinstance(kwarg(c, 'result_meta', 1), ast.Constant) and kwarg(c, 'result_meta', 1).value is None]
        ok1 = False
        if fcomp:
            c = cond_in_loop(ctx, cl.fn, cl.loop, fcomp[0])
            ok1 = equivalent(c, fail)
        yield ctx.ob('C10.FAIL-BRANCH', ok1, cl.fn, fcomp[0] if fcomp else cl.loop, 'failure outcome -> complete_task(task, result_meta=None)',
                     '' if ok1 else 'a failed outcome is not always completed with result_meta=None (or a success is)')
        ok2 = False
        if hfs and fcomp:
            c = cond_in_loop(ctx, cl.fn, cl.loop, hfs[0])
            exa = kwarg(hfs[0], 'ex', 0)
            ok2 = equivalent(c, fail) and isinstance(exa, ast.Name) and exa.id == cl.res_var \
                and (g.dominates(g.primary(fcomp[0]), g.primary(hfs[0]))
                     # or: some completion lies on every path to it, and (conditions being equal) on a failure path that is the one with None
                     or g.must_pass(header, [g.primary(x) for x in comps], [g.primary(hfs[0])], exc=False))
        yield ctx.ob('C10.FAIL-BRANCH', ok2, cl.fn, hfs[0] if hfs else cl.loop, 'then handle_failure(ex=<the outcome>)',
                     '' if ok2 else 'handle_failure is not called with the task\'s own exception after the task was completed')
        # success completion carries the outcome as result_meta
        scomp = [c for c in comps if c not in fcomp]
        ok3 = False
        if scomp:
            c = cond_in_loop(ctx, cl.fn, cl.loop, scomp[0])
            rm = kwarg(scomp[0], 'result_meta', 1)
            ok3 = implies(c, formula_of(ctx, cl.fn, f'isinstance({cl.res_var}, ResultMeta)')) and isinstance(rm, ast.Name) and rm.id == cl.res_var
        yield ctx.ob('C10.FAIL-BRANCH', ok3, cl.fn, scomp[0] if scomp else cl.loop, 'success outcome -> complete_task(task, result_meta=<outcome>)',
                     '' if ok3 else 'the success branch does not complete the task with its ResultMeta')


@rule('C10.OUTCOME-TABLE', ['C10'])
def outcome_table(ctx: Ctx):
    """Runners yield ResultMeta | BaseException; the consumer's case table must cover BaseException on the
    failure side, ResultMeta on the success side, and test failure first."""
    for cl in roles.consumer_loops(ctx):
        tests = []
        for n in walk_local(cl.loop):
            if isinstance(n, ast.If):
                for c in ast.walk(n.test):
                    if isinstance(c, ast.Call) and dotted(c.func) == 'isinstance' and isinstance(c.args[0], ast.Name) and c.args[0].id == cl.res_var:
                        tests.append((n, ctx.type_names(c.args[1], cl.fn) or []))
        kinds = [t for (_n, ts) in tests for t in ts]
        ok = 'BaseException' in kinds and 'ResultMeta' in kinds
        yield ctx.ob('C10.OUTCOME-TABLE', ok, cl.fn, tests[0][0] if tests else cl.loop, f'outcome cases {kinds} cover BaseException and ResultMeta',
                     '' if ok else f'the consumer tests the outcome against {kinds}: runners yield any BaseException (e.g. SystemExit from a task), '
                     'which would fall through to "Unexpected task res type" even with continue_on_failure')
    ann_ok = True
    for fn in roles.impls(ctx, roles.RUNNER, 'wait'):
        r = src(fn.node.returns) if fn.node.returns is not None else ''
        if 'BaseException' not in r or 'ResultMeta' not in r:
            ann_ok = False
    yield ctx.ob('C10.OUTCOME-TABLE', ann_ok, None, None, 'wait() implementations declare ResultMeta | BaseException', '' if ann_ok else
                 'a Runner.wait implementation no longer declares ResultMeta | BaseException outcomes', construct='annotations',
                 path='labtech/runners')


@rule('C10.HANDLE-FAILURE-TRUTH', ['C10'])
def handle_failure_truth(ctx: Ctx):
    """handle_failure raises LabError from the task's exception iff not continue_on_failure; the only
    unwrapping allowed is the subprocess _RemoteTraceback cause."""
    fn = ctx.P.func('lab.TaskCoordinator.handle_failure')
    sn = fn.self_name
    g = ctx.cfg(fn)
    raises = [n for n in walk_local(fn.node) if isinstance(n, ast.Raise)]
    if len(raises) != 1:
        yield ctx.ob('C10.HANDLE-FAILURE-TRUTH', False, fn, raises[0] if raises else fn.node, 'single raise', f'handle_failure has {len(raises)} raise statements',
                     construct='raises')
        return
    r = raises[0]
    fbn = ctx.fb(fn)
    c = ctx.facts(fn, exc=False).formula_at(g.primary(r), fbn)
    # project onto the continue_on_failure atom
    need = formula_of(ctx, fn, f'not {sn}.lab.continue_on_failure')
    ok = equivalent(c, need)
    yield ctx.ob('C10.HANDLE-FAILURE-TRUTH', ok, fn, r, 'raise iff not continue_on_failure', '' if ok else
                 f'handle_failure raises when {show(c)}, expected exactly {show(need)}')
    # raise LabError(...) from ex
    rd = ctx.rd(fn)
    exc = expand_locals(g, rd, r.exc, g.primary(r)) if r.exc is not None else None
    ok_t = isinstance(exc, ast.Call) and (dotted(exc.func) or '').endswith('LabError')
    ok_c = isinstance(r.cause, ast.Name) and r.cause.id == 'ex'
    yield ctx.ob('C10.HANDLE-FAILURE-TRUTH', ok_t and ok_c, fn, r, 'raise LabError(...) from ex', '' if ok_t and ok_c else
                 'the raised error is not a LabError chained `from` the task\'s exception')
    # every rebinding of ex is the sanctioned unwrapping of a _RemoteTraceback cause
    for n in walk_local(fn.node):
        if isinstance(n, ast.Assign) and any(isinstance(t, ast.Name) and t.id == 'ex' for t in n.targets):
            cnd = cond_from_entry(ctx, fn, n)
            okr = same_expr(n.value, ast.parse('ex.__cause__', mode='eval').body) and \
                any(a[0] == 'atom' and a[1] == 'inst' and a[2][1] == '_RemoteTraceback' for a in atoms_of(cnd)) and \
                implies(cnd, formula_of(ctx, fn, 'isinstance(ex.__cause__, concurrent.futures.process._RemoteTraceback)'))
            yield ctx.ob('C10.HANDLE-FAILURE-TRUTH', okr, fn, n, 'ex unwrapped only for a subprocess _RemoteTraceback cause',
                         '' if okr else f'`{src(n)}` replaces the task\'s exception by its cause when {show(cnd)}: the LabError is then caused by '
                         'something other than the task\'s own exception')


@rule('C10.GUARDED-SUBSCRIPT', ['C10'], min_instances=2)
def guarded_subscript(ctx: Ctx):
    """Partial maps (filled only on success: the coordinator's result dict and every runner's results_map)
    may be subscripted only under a membership guard, on the success path for the same task, or inside
    Runner.get_result (whose contract is KeyError)."""
    P = ctx.P
    from .runners import results_field
    sites = []
    # runner results maps
    for c in roles.runner_classes(ctx):
        pass
    rfields = {}
    for c in P.subclasses(roles.RUNNER):
        try:
            rfields[c.qualname] = results_field(ctx, c)
        except AnalysisError:
            continue
    for fn in P.all_functions():
        top = fn
        while top.parent is not None:
            top = top.parent
        if top.cls is None or top.cls.qualname not in rfields:
            continue
        fld = rfields[top.cls.qualname]
        sn = top.self_name
        for n in walk_local(fn.node):
            if isinstance(n, ast.Subscript) and isinstance(n.ctx, ast.Load) and isinstance(n.value, ast.Attribute) \
                    and n.value.attr == fld and isinstance(n.value.value, ast.Name) and n.value.value.id == sn:
                sites.append((fn, n, f'{sn}.{fld}', top.name == 'get_result'))
    # the results returned by coordinator.run in Lab.run_tasks
    rt = P.func('lab.Lab.run_tasks')
    g = ctx.cfg(rt)
    for n in walk_local(rt.node):
        if isinstance(n, ast.Assign) and isinstance(n.value, ast.Call) and f'{PKG}.lab.TaskCoordinator.run' in P.resolve_call(n.value, rt) \
                and isinstance(n.targets[0], ast.Name):
            nm = n.targets[0].id
            for s in walk_local(rt.node):
                if isinstance(s, ast.Subscript) and isinstance(s.ctx, ast.Load) and isinstance(s.value, ast.Name) and s.value.id == nm:
                    sites.append((rt, s, nm, False))
    for (fn, sub, mp, contract) in sites:
        if contract:
            yield ctx.ob('C10.GUARDED-SUBSCRIPT', True, fn, sub, f'{mp}[...] inside get_result (contract: KeyError)')
            continue
        key = sub.slice
        need = ctx.fb(fn).build(ast.Compare(left=key, ops=[ast.In()], comparators=[sub.value]))
        ok = False
        # (a) comprehension filter
        for comp in [n for n in walk_local(fn.node) if isinstance(n, (ast.DictComp, ast.ListComp, ast.SetComp, ast.GeneratorExp))]:
            if any(x is sub for x in ast.walk(comp)):
                from ..formula import f_and
                have = f_and(*[ctx.fb(fn).build(i) for gen in comp.generators for i in gen.ifs])
                ok = ok or implies(have, need)
        # (b) dominating guard
        if not ok:
            try:
                gg = ctx.cfg(fn)
                nodes = gg.nodes_containing(sub)
                if nodes:
                    have = ctx.facts(fn, exc=False).formula_at(nodes[0], ctx.fb(fn))
                    ok = implies(have, need)
            except AnalysisError:
                pass
        yield ctx.ob('C10.GUARDED-SUBSCRIPT', ok, fn, sub, f'{src(sub)} under a membership guard',
                     '' if ok else f'`{src(sub)}` subscripts a map that only holds successful tasks without checking `{src(key)} in {mp}`: '
                     'when that task (or dependency) failed this raises KeyError in the coordinator and aborts the whole run')


@rule('C10.NO-START-AFTER-RAISE', ['C10', 'C14'])
def no_start_after_raise(ctx: Ctx):
    """From the exceptional exit of the main loop nothing is submitted or started: the finally / close()
    path reaches neither submit_task nor the executor's top-up."""
    run = ctx.P.func('lab.TaskCoordinator.run')
    subs = {f.qualname for f in roles.impls(ctx, roles.RUNNER, 'submit_task')}
    from .executor import executor
    try:
        topup = executor(ctx).topup.qualname
    except AnalysisError:
        topup = None
    bad = []
    n = 0
    for t in [t for t in walk_local(run.node) if isinstance(t, ast.Try) and t.finalbody]:
        for s in t.finalbody:
            for call in calls_in(ast.Module(body=[s], type_ignores=[])):
                n += 1
                cs = ctx.P.resolve_call(call, run)
                fns = [ctx.P.funcs[q] for q in cs if q in ctx.P.funcs]
                clo = ctx.P.closure(fns, include_nested=False) if fns else []
                reach = {f.qualname for f in clo}
                if reach & subs or (topup and topup in reach):
                    bad.append(call)
    yield ctx.ob('C10.NO-START-AFTER-RAISE', not bad, run, bad[0] if bad else run.node, f'{n} calls in the finally of run(): none reaches submit/top-up',
                 '' if not bad else f'`{src(bad[0])}` in the cleanup path can start tasks after run_tasks has begun to raise', construct='finally-calls')


# ----------------------------------------------------------------------------------------
# C14: the interrupt handler


def _ki_handlers(ctx: Ctx, run: FuncInfo):
    """(outer try, outer KI handler, nested try, nested KI handler)"""
    for t in [t for t in walk_local(run.node) if isinstance(t, ast.Try)]:
        for h in t.handlers:
            if h.type is not None and (dotted(h.type) or '').split('.')[-1] == 'KeyboardInterrupt':
                inner = [t2 for t2 in walk_local(h) if isinstance(t2, ast.Try)]
                for t2 in inner:
                    for h2 in t2.handlers:
                        if h2.type is not None and (dotted(h2.type) or '').split('.')[-1] == 'KeyboardInterrupt':
                            return t, h, t2, h2
    return None


@rule('C14.HANDLER', ['C14', 'C11'], min_instances=5)
def ki_handler(ctx: Ctx):
    """First interrupt: cancel, then drain by waiting, never submitting, then re-raise it.  Second
    interrupt: stop, one final wait, re-raise.  The normal return is only in the else of the outer try."""
    run = ctx.P.func('lab.TaskCoordinator.run')
    g = ctx.cfg(run)
    found = _ki_handlers(ctx, run)
    if found is None:
        yield ctx.ob('C14.HANDLER', False, run, run.node, 'nested KeyboardInterrupt handlers',
                     'run() has no `except KeyboardInterrupt` handler containing a nested try/except KeyboardInterrupt', construct='no-handlers')
        return
    t1, h1, t2, h2 = found
    cancels = {f.qualname for f in roles.impls(ctx, roles.RUNNER, 'cancel')}
    stops = {f.qualname for f in roles.impls(ctx, roles.RUNNER, 'stop')}
    subs = {f.qualname for f in roles.impls(ctx, roles.RUNNER, 'submit_task')}
    cl = roles.consumer_loops(ctx)[0]

    def calls_matching(root, targets):
        return [c for c in calls_in(root) if set(ctx.P.resolve_call(c, run)) & targets]

    def waits(root):
        return [c for c in calls_in(root) if cl.fn.qualname in ctx.P.resolve_call(c, run)]
    # HANDLER-EXITS: every normal exit of the outer handler is a raise of a KeyboardInterrupt
    he = g.nodes_of(h1)[0]
    body_ids = set()
    for s in h1.body:
        for sub in ast.walk(s):
            if isinstance(sub, (ast.stmt, ast.ExceptHandler)):
                body_ids.update(g.nodes_of(sub))
    leaks = []
    seen = set()
    work = [he]
    while work:
        n = work.pop()
        if n in seen:
            continue
        seen.add(n)
        for (s, lab) in g.succ[n]:
            if lab == 'exc':
                continue
            if s in body_ids:
                work.append(s)
            else:
                leaks.append((n, s))
    yield ctx.ob('C14.HANDLER', not leaks, run, g.node(leaks[0][0]).ast if leaks else h1, 'every exit of the interrupt handler is a raise',
                 '' if not leaks else f'control can leave the `except KeyboardInterrupt` handler normally at `{src(g.node(leaks[0][0]).ast)[:60]}`: '
                 'run_tasks would return (or continue) after an interrupt instead of raising KeyboardInterrupt')
    raises = [n for n in walk_local(h1) if isinstance(n, ast.Raise)]
    for r in raises:
        inside_h2 = any(x is r for x in ast.walk(h2))
        if r.exc is None:
            ok = inside_h2
        else:
            ok = isinstance(r.exc, ast.Name) and r.exc.id in (h1.name, h2.name) and r.cause is None
        yield ctx.ob('C14.HANDLER', ok, run, r, 'the raised exception is the KeyboardInterrupt', '' if ok else
                     f'`{src(r)}` in the interrupt handler raises something other than the caught KeyboardInterrupt')
    # the normal return is in the else of the outer try only
    rets = [n for n in walk_local(run.node) if isinstance(n, ast.Return)]
    # a return is only reachable when no interrupt was caught: not inside a handler, and (since every exit of the
    # handler raises, checked above) not reachable from the handler at all
    reach_from_handler = g.reachable([he], exc=False)
    ok = bool(rets) and not any(any(x is r for x in ast.walk(h1)) for r in rets) \
        and not any(g.primary(r) in reach_from_handler for r in rets)
    yield ctx.ob('C14.HANDLER', ok, run, rets[0] if rets else run.node, 'the normal return is not reachable once an interrupt was caught', '' if ok else
                 'a return statement is reachable from the interrupt handler')
    # CANCEL-FIRST
    cs = calls_matching(h1, cancels)
    ws = [w for w in waits(h1) if not any(x is w for x in ast.walk(h2))]
    ok = bool(cs) and all(g.dominates(g.primary(cs[0]), g.primary(w)) for w in ws) and not any(x is cs[0] for x in ast.walk(h2))
    yield ctx.ob('C14.HANDLER', ok, run, cs[0] if cs else h1, 'runner.cancel() precedes every wait of the drain', '' if ok else
                 'the drain waits before (or without) cancelling queued tasks: tasks are started after the interrupt')
    # the drain loops while the runner still has pending tasks
    loops = [lp for lp in walk_local(h1) if isinstance(lp, ast.While) and not any(x is lp for x in ast.walk(h2))]
    okl = False
    if loops:
        pcs = [c for c in calls_in(ast.Expr(value=loops[0].test))
               if {f.qualname for f in roles.impls(ctx, roles.RUNNER, 'pending_task_count')} & set(ctx.P.resolve_call(c, run))]
        okl = bool(pcs) and equivalent(formula_of(ctx, run, loops[0].test), formula_of(ctx, run, f'{src(pcs[0])} > 0')) \
            and bool(waits(loops[0]))
    yield ctx.ob('C14.HANDLER', okl, run, loops[0] if loops else h1, 'drain: wait while runner.pending_task_count() > 0', '' if okl else
                 'after the first interrupt running tasks are not drained until the runner has nothing pending')
    # NO-SUBMIT-IN-HANDLER
    sb = calls_matching(h1, subs)
    reach_sub = []
    for c in calls_in(h1):
        fns = [ctx.P.funcs[q] for q in ctx.P.resolve_call(c, run) if q in ctx.P.funcs]
        # (the outcome consumer is the body of the drain: what it calls - directly or through local helpers - counts)
        clo = {f.qualname for f in ctx.P.closure(fns, include_nested=True)} if fns else set()
        if clo & subs:
            reach_sub.append(c)
    yield ctx.ob('C14.HANDLER', not sb and not reach_sub, run, (sb + reach_sub)[0] if (sb + reach_sub) else h1, 'nothing is submitted in the handler',
                 '' if not sb and not reach_sub else 'a task can be submitted after the interrupt')
    # STOP-ON-SECOND
    ss = calls_matching(h2, stops)
    w2 = waits(h2)
    r2 = [n for n in walk_local(h2) if isinstance(n, ast.Raise)]
    ok = bool(ss) and len(w2) == 1 and bool(r2) and g.dominates(g.primary(ss[0]), g.primary(w2[0])) \
        and g.dominates(g.primary(w2[0]), g.primary(r2[0])) and not [lp for lp in walk_local(h2) if isinstance(lp, (ast.While, ast.For))]
    yield ctx.ob('C14.HANDLER', ok, run, ss[0] if ss else h2, 'second interrupt: stop(), one final wait, re-raise', '' if ok else
                 'on the second interrupt running tasks are not stopped before the single final wait, or the handler loops / does not re-raise')
    # the consumer loop function itself does not swallow
    for f in [cl.fn]:
        bad = [h for t in walk_local(f.node) if isinstance(t, ast.Try) for h in t.handlers
               if handler_is_catch_all(h) and not _handler_always_raises(ctx, f, h)]
        yield ctx.ob('C14.HANDLER', not bad, f, bad[0] if bad else f.node, 'the consumer loop does not swallow interrupts', '' if not bad else
                     'a catch-all handler in the consumer loop swallows KeyboardInterrupt')


@rule('C14.SIGINT-IGNORED-FIRST', ['C14', 'C13'])
def sigint_ignored_first(ctx: Ctx):
    """signal.signal(SIGINT, SIG_IGN) dominates every other call in the worker entry function."""
    we = roles.worker_entry(ctx)
    g = ctx.cfg(we)
    sig = [c for c in calls_in(we.node) if dotted(c.func) == 'signal.signal' and len(c.args) == 2
           and dotted(c.args[0]) == 'signal.SIGINT' and dotted(c.args[1]) == 'signal.SIG_IGN']
    if not sig:
        yield ctx.ob('C14.SIGINT-IGNORED-FIRST', False, we, we.node, 'signal.signal(SIGINT, SIG_IGN)',
                     'the worker entry function does not ignore SIGINT: Ctrl-C in the terminal kills running tasks instead of letting them finish',
                     construct='no-sigign')
        return
    sn = g.primary(sig[0])
    others = [c for c in calls_in(we.node) if c is not sig[0] and not any(x is c for x in ast.walk(sig[0]))]
    late = [c for c in others if not g.dominates(sn, g.primary(c)) or g.primary(c) == sn]
    yield ctx.ob('C14.SIGINT-IGNORED-FIRST', not late, we, late[0] if late else sig[0], 'SIGINT ignored before anything else runs in the worker',
                 '' if not late else f'`{src(late[0])[:60]}` runs in the worker before SIGINT is ignored')


@rule('C14.QUEUE-IN-THREAD', ['C14'])
def queue_in_thread(ctx: Ctx):
    """The code that takes an item off the result queue and transitions its future runs only as the
    target of a Thread (so an interrupt cannot split a result)."""
    from .executor import executor, queue_consumer
    ex = executor(ctx)
    cons, host, thread = queue_consumer(ctx)
    gets = [c for c in calls_in(cons.node) if isinstance(c.func, ast.Attribute) and c.func.attr in ('get', 'get_nowait') and 'result_queue' in src(c.func.value)]
    ok = host is not None
    if ok:
        # never called directly, and the host waits for the thread
        direct = []
        for m in ex.cls.methods.values():
            for f in [m] + list(m.nested.values()):
                for d in calls_in(f.node):
                    if cons.qualname in ctx.P.resolve_call(d, f, by_name=False):
                        direct.append(d)
        joined = any(isinstance(j.func, ast.Attribute) and j.func.attr == 'join' for j in calls_in(host.node))
        ok = not direct and joined
    # the transition of the dequeued item's future happens in the same thread function as the dequeue (otherwise the
    # interrupt-safe thread only protects the dequeue, and a result taken off the queue can still be dropped)
    inside = [c for f in ctx.P.closure([cons], include_nested=True) for c in calls_in(f.node)
              if isinstance(c.func, ast.Attribute) and c.func.attr == 'set_result']
    yield ctx.ob('C14.QUEUE-IN-THREAD', bool(inside), cons, gets[0] if gets else None, 'dequeued result applied to its future inside the helper thread',
                 '' if inside else 'the helper thread only takes results off the queue; their futures are completed elsewhere, so an interrupt '
                 '(or an abandoned thread) between the two loses a finished task')
    yield ctx.ob('C14.QUEUE-IN-THREAD', ok, cons, gets[0], 'result queue consumed only inside a joined helper thread', '' if ok else
                 'the result queue is consumed on the calling thread: a KeyboardInterrupt between taking a result and completing its future loses it')


PSUTIL_INSPECT = {'oneshot', 'create_time', 'num_threads', 'cpu_percent', 'memory_percent', 'children', 'memory_info', 'status', 'cpu_times'}


@rule('C10.MONITOR-DEAD-SAFE', ['C10', 'C11'], min_instances=3)
def monitor_dead_safe(ctx: Ctx):
    """Inspecting a task process that may already be dead (psutil.Process(pid), process.cpu_percent(), ...)
    on the calling thread is always covered by a handler for psutil.NoSuchProcess: a task that dies must
    not make run_tasks raise."""
    run = ctx.P.func('lab.TaskCoordinator.run')
    calling = ctx.P.closure([run], include_nested=False)
    for fn in calling:
        for call in calls_in(fn.node):
            d = dotted(call.func)
            r = ctx.P.resolve_dotted(fn.module, d) if d and not ctx.P._is_local_name(d.split('.')[0], fn) else None
            is_ctor = r == 'psutil.Process' and (call.args or call.keywords)
            is_inspect = isinstance(call.func, ast.Attribute) and call.func.attr in PSUTIL_INSPECT \
                and isinstance(call.func.value, ast.Name) and call.func.value.id in ('process', 'child', 'proc', 'p')
            if not (is_ctor or is_inspect):
                continue
            covered = False
            for t in [t for t in walk_local(fn.node) if isinstance(t, ast.Try)]:
                if any(x is call for b in t.body for x in ast.walk(b)):
                    for h in t.handlers:
                        names = [] if h.type is None else [(dotted(e) or '').split('.')[-1]
                                                           for e in (h.type.elts if isinstance(h.type, ast.Tuple) else [h.type])]
                        if h.type is None or set(names) & {'NoSuchProcess', 'Error', 'Exception', 'BaseException'}:
                            covered = True
            yield ctx.ob('C10.MONITOR-DEAD-SAFE', covered, fn, call, f'{src(call.func)} covered by a NoSuchProcess handler',
                         '' if covered else f'`{src(call)[:60]}` inspects a task process that may already have died (and been reaped) without '
                         'handling psutil.NoSuchProcess: the exception escapes the monitor update and run_tasks raises although only a task died')


@rule('C11.WAIT-TIMEOUT', ['C11'])
def wait_timeout(ctx: Ctx):
    """The coordinator polls: runner.wait() is called with a finite positive timeout (dead worker processes are
    only noticed at the start of a poll, so an unbounded wait never notices a killed last task)."""
    from types import SimpleNamespace
    for (wfn, call) in [(wf, c) for cl0 in roles.consumer_loops(ctx) for (wf, c) in cl0.wait_calls]:
        cl = SimpleNamespace(fn=wfn)
        t = kwarg(call, 'timeout_seconds', 0)
        g = ctx.cfg(cl.fn)
        def values_of(x: ast.AST, f, depth: int = 0) -> list:
            """Every expression the name may stand for: assignments in f or an enclosing function; for a parameter of a
            local closure, its default and what each call site passes."""
            if not isinstance(x, ast.Name) or depth > 4:
                return [x]
            h = f
            while h is not None:
                params = h.node.args.posonlyargs + h.node.args.args + h.node.args.kwonlyargs
                if x.id in [a.arg for a in params]:
                    out = []
                    pos = [a.arg for a in h.node.args.posonlyargs + h.node.args.args]
                    dflt = None
                    if x.id in pos:
                        i = pos.index(x.id) - (len(pos) - len(h.node.args.defaults))
                        if i >= 0:
                            dflt = h.node.args.defaults[i]
                    else:
                        kws = [a.arg for a in h.node.args.kwonlyargs]
                        dflt = h.node.args.kw_defaults[kws.index(x.id)]
                    omitted = False
                    sites = 0
                    for caller in ctx.P.all_functions():
                        for c in calls_in(caller.node):
                            if h.qualname in ctx.P.resolve_call(c, caller, by_name=False):
                                sites += 1
                                v = kwarg(c, x.id, pos.index(x.id) if x.id in pos else None)
                                if v is None:
                                    omitted = True
                                else:
                                    out.extend(values_of(v, caller, depth + 1))
                    if (omitted or not sites) and dflt is not None:
                        out.extend(values_of(dflt, h.parent, depth + 1) if h.parent is not None else [dflt])
                    elif omitted or not sites:
                        out.append(None)
                    return out
                assigns = [n.value for n in walk_local(h.node) if isinstance(n, ast.Assign) and len(n.targets) == 1
                           and isinstance(n.targets[0], ast.Name) and n.targets[0].id == x.id]
                if assigns:
                    out = []
                    for v in assigns:
                        out.extend(values_of(v, h, depth + 1))
                    return out
                h = h.parent
            return [None]

        def finite(x):
            if x is None:
                return False
            if isinstance(x, ast.Constant):
                return isinstance(x.value, (int, float)) and not isinstance(x.value, bool) and x.value > 0
            if isinstance(x, ast.IfExp):
                return finite(x.body) and finite(x.orelse)
            return False
        vals = values_of(t, cl.fn) if t is not None else [None]
        e = next((v for v in vals if not finite(v)), vals[0] if vals else None)
        ok = bool(vals) and all(finite(v) for v in vals)
        yield ctx.ob('C11.WAIT-TIMEOUT', ok, cl.fn, call, 'runner.wait(timeout_seconds=<finite positive constant>)',
                     '' if ok else f'runner.wait is called with timeout `{src(e) if e is not None else "?"}`: with an unbounded wait a task process that is '
                     'killed outright as the last executing task is never noticed and run_tasks hangs')


SIGNAL_API = {'signal.signal', 'signal.pthread_sigmask', 'signal.set_wakeup_fd', 'signal.siginterrupt', 'signal.setitimer', 'signal.alarm'}


@rule('C14.WHO-MAY-SET-SIGNALS', ['C14', 'C13', 'C11', 'C10'])
def who_may_set_signals(ctx: Ctx):
    """Signal dispositions are changed in one place only: the worker entry function, in the child.  The calling process never
    ignores, masks or re-routes SIGINT - not even briefly around process creation: an ignored signal is discarded by the
    kernel, not deferred, so a Ctrl-C that lands in such a window is lost and run_tasks carries on as if nothing happened."""
    we = roles.worker_entry(ctx)
    child_side = {f.qualname for f in ctx.P.closure([we], include_nested=True)}
    n = 0
    for fn in ctx.P.all_functions():
        for call in calls_in(fn.node):
            d = dotted(call.func) or ''
            r = ctx.P.resolve_dotted(fn.module, d) if d and not ctx.P._is_local_name(d.split('.')[0], fn) else None
            if r not in SIGNAL_API:
                continue
            n += 1
            ok = fn.qualname == we.qualname
            yield ctx.ob('C14.WHO-MAY-SET-SIGNALS', ok, fn, call, f'{r} in {fn.short}',
                         '' if ok else f'`{src(call)[:60]}` changes signal handling outside the worker entry function '
                         f'({"child-side helper" if fn.qualname in child_side else "runs in the calling process"}): a Ctrl-C delivered while SIGINT is '
                         'ignored or masked there is lost, and the previous handler may not be restored on every path')
    if n < 1:
        raise AnalysisError('no signal.signal call found in the package (the worker entry is expected to ignore SIGINT)')


@rule('C14.WHO-MAY-CANCEL', ['C14', 'C10', 'C11'])
def who_may_cancel(ctx: Ctx):
    """runner.cancel() and runner.stop() are called from the KeyboardInterrupt handlers of TaskCoordinator.run only (close()
    belongs to the finally).  In particular the function that consumes outcomes - which is also the body of the drain after the
    first Ctrl-C - never cancels, stops or raises an error of its own: a deadline, a retry or a budget check placed there turns
    a graceful drain into a kill, or surfaces another exception than the KeyboardInterrupt."""
    run = ctx.P.func('lab.TaskCoordinator.run')
    found = _ki_handlers(ctx, run)
    targets = {f.qualname for name in ('cancel', 'stop') for f in roles.impls(ctx, roles.RUNNER, name)}
    n = 0
    for fn in ctx.P.all_functions():
        if fn.module.name.startswith(f'{PKG}.runners'):
            continue
        for call in calls_in(fn.node):
            if not (set(ctx.P.resolve_call(call, fn, by_name=False)) & targets):
                continue
            if not (isinstance(call.func, ast.Attribute) and call.func.attr in ('cancel', 'stop')):
                continue
            n += 1
            ok = False
            if found is not None and fn.qualname == run.qualname:
                t1, h1, t2, h2 = found
                ok = any(x is call for x in ast.walk(h1)) or any(x is call for x in ast.walk(h2))
            yield ctx.ob('C14.WHO-MAY-CANCEL', ok, fn, call, f'runner.{call.func.attr}() inside a KeyboardInterrupt handler of run()',
                         '' if ok else f'`{src(call)[:50]}` cancels / stops tasks outside the interrupt handlers of TaskCoordinator.run: running tasks are '
                         'killed (or pending ones dropped) without a Ctrl-C, or during the graceful drain')
    # the consumer function raises nothing of its own besides the unexpected-outcome-type guard
    for cl in roles.consumer_loops(ctx):
        raises = [r for r in walk_local(cl.fn.node) if isinstance(r, ast.Raise) and r.exc is not None]
        inside = [r for r in raises if any(x is r for x in ast.walk(cl.loop))]
        outside = [r for r in raises if r not in inside]
        bad = outside
        for r in inside:
            c = None
            try:
                from ..engine import cond_in_loop, formula_of
                from ..formula import implies, f_not, f_or
                c = cond_in_loop(ctx, cl.fn, cl.loop, r)
                known = f_or(formula_of(ctx, cl.fn, f'isinstance({cl.res_var}, BaseException)'), formula_of(ctx, cl.fn, f'isinstance({cl.res_var}, ResultMeta)'))
                if not implies(c, f_not(known)):
                    bad.append(r)
            except Exception:
                bad.append(r)
        yield ctx.ob('C14.WHO-MAY-CANCEL', not bad, cl.fn, bad[0] if bad else cl.loop, 'the outcome consumer raises nothing of its own',
                     '' if not bad else f'`{src(bad[0])[:60]}` raises from the function that also drains after the first Ctrl-C: run_tasks can end with that '
                     'error instead of the KeyboardInterrupt, leaving running tasks behind')
    if n < 2:
        raise AnalysisError(f'only {n} runner.cancel()/stop() calls found outside the runners')
