"""Rules over the small supporting abstractions the properties silently rely on: OrderedSet, Future,
is_task / is_task_type, the result-queue routing of the executor, the whitespace filter of the
stdout/stderr proxy."""
from __future__ import annotations

import ast

from .. import roles
from ..dataflow import expand_locals
from ..engine import (Ctx, calls_in, cond_from_entry, cond_in_loop, early_exits, field_writes, formula_of, kwarg, memo_decorators, rule,
                      same_expr)
from ..formula import TRUE, equivalent, f_not, implies, show
from ..model import PKG, AnalysisError, dotted, src, walk_local


def _single_return(fn):
    rets = [n for n in walk_local(fn.node) if isinstance(n, ast.Return)]
    return rets[0].value if len(rets) == 1 else None


@rule('SUPPORT.ORDEREDSET', ['C03', 'C04', 'C05', 'C17', 'C02'])
def orderedset(ctx: Ctx):
    """OrderedSet is an equality-deduplicated, insertion-ordered set over one dict: add stores the item as
    key, remove deletes that key (KeyError if absent), `in` / iteration / len are those of the dict."""
    c = ctx.P.cls('utils.OrderedSet')
    init = c.methods.get('__init__')
    flds = [w.field for w in field_writes(init) if w.kind == 'rebind']
    if len(flds) != 1:
        raise AnalysisError('OrderedSet.__init__ does not initialise exactly one backing field')
    F = flds[0]
    sn = 'self'
    checks = []
    add = c.methods.get('add')
    ws = [w for w in field_writes(add) if w.field == F] if add else []
    ok = len(ws) == 1 and ws[0].kind == 'item_store' and isinstance(ws[0].target.slice, ast.Name) \
        and ws[0].target.slice.id == [a.arg for a in add.params][1] and cond_from_entry(ctx, add, ws[0].node) == TRUE
    yield ctx.ob('SUPPORT.ORDEREDSET', ok, add, add.node if add else None, 'add: values[item] = ... unconditionally',
                 '' if ok else 'OrderedSet.add does not store the item as a key of the backing dict', construct='add')
    rem = c.methods.get('remove')
    ws = [w for w in field_writes(rem) if w.field == F] if rem else []
    ok = len(ws) == 1 and ws[0].kind == 'item_delete' and isinstance(ws[0].target.slice, ast.Name) \
        and ws[0].target.slice.id == [a.arg for a in rem.params][1] and cond_from_entry(ctx, rem, ws[0].node) == TRUE
    yield ctx.ob('SUPPORT.ORDEREDSET', ok, rem, rem.node if rem else None, 'remove: del values[item] unconditionally',
                 '' if ok else 'OrderedSet.remove does not delete exactly the given item', construct='remove')
    for (m, want) in (('__contains__', f'item in {sn}.{F}'), ('__iter__', f'iter({sn}.{F})'), ('__len__', f'len({sn}.{F})')):
        fn = c.methods.get(m)
        v = _single_return(fn) if fn else None
        if m == '__contains__' and fn is not None:
            want = f'{[a.arg for a in fn.params][1]} in {sn}.{F}'
        ok = v is not None and same_expr(v, ast.parse(want, mode='eval').body)
        yield ctx.ob('SUPPORT.ORDEREDSET', ok, fn, fn.node if fn else None, f'{m} = {want}', '' if ok else
                     f'OrderedSet.{m} is not `{want}`', construct=m)
    # initial items are all added
    lp = [n for n in walk_local(init.node) if isinstance(n, ast.For)]
    ok = bool(lp) and not early_exits(lp[0], allow_raise=True, allow_continue=False) and \
        any(isinstance(x.func, ast.Attribute) and x.func.attr == 'add' for x in calls_in(lp[0]))
    yield ctx.ob('SUPPORT.ORDEREDSET', ok, init, init.node, '__init__ adds every given item', '' if ok else
                 'OrderedSet(items) does not add every item', construct='init')


@rule('SUPPORT.FUTURE-CLASS', ['C11', 'C10', 'C02', 'C14'])
def future_class(ctx: Ctx):
    """Future: done == FINISHED or CANCELLED; set_result / set_exception refuse a done future and move to
    FINISHED; cancel moves to CANCELLED; result() requires FINISHED and raises the stored exception."""
    c = ctx.P.cls('runners.process.Future')
    done = c.methods.get('done')
    v = _single_return(done)
    ok = False
    if isinstance(v, ast.Compare) and len(v.ops) == 1 and isinstance(v.ops[0], ast.In) and isinstance(v.comparators[0], (ast.Set, ast.Tuple, ast.List)):
        names = sorted((dotted(e) or '').split('.')[-1] for e in v.comparators[0].elts)
        ok = names == ['CANCELLED', 'FINISHED'] and src(v.left).endswith('_state')
    yield ctx.ob('SUPPORT.FUTURE-CLASS', ok, done, done.node, 'done == state in {FINISHED, CANCELLED}', '' if ok else
                 'Future.done is not "FINISHED or CANCELLED": done futures are not recognised (or pending ones are)', construct='done')
    canc = c.methods.get('cancelled')
    v = _single_return(canc)
    ok = isinstance(v, ast.Compare) and isinstance(v.ops[0], ast.Eq) and (dotted(v.comparators[0]) or '').endswith('CANCELLED')
    yield ctx.ob('SUPPORT.FUTURE-CLASS', ok, canc, canc.node, 'cancelled == (state == CANCELLED)', '' if ok else
                 'Future.cancelled is not "state == CANCELLED"', construct='cancelled')
    for name, fld in (('set_result', '_result'), ('set_exception', '_ex')):
        m = c.methods.get(name)
        g = ctx.cfg(m)
        ws = field_writes(m)
        st = [w for w in ws if w.field == '_state']
        val = [w for w in ws if w.field == fld]
        raises = [n for n in walk_local(m.node) if isinstance(n, ast.Raise)]
        ok = len(st) == 1 and (dotted(st[0].node.value) or '').endswith('FINISHED') and len(val) == 1 \
            and isinstance(val[0].node.value, ast.Name) and val[0].node.value.id == [a.arg for a in m.params][1]
        guard = bool(raises) and equivalent(cond_from_entry(ctx, m, raises[0]), formula_of(ctx, m, 'self.done'))
        okc = ok and guard and implies(cond_from_entry(ctx, m, st[0].node), f_not(formula_of(ctx, m, 'self.done')))
        yield ctx.ob('SUPPORT.FUTURE-CLASS', bool(okc), m, m.node, f'{name}: refuse when done, store the value, state = FINISHED',
                     '' if okc else f'Future.{name} does not (only) move a not-done future to FINISHED with the given value', construct=name)
    cm = c.methods.get('cancel')
    st = [w for w in field_writes(cm) if w.field == '_state']
    ok = len(st) == 1 and (dotted(st[0].node.value) or '').endswith('CANCELLED') and cond_from_entry(ctx, cm, st[0].node) == TRUE
    yield ctx.ob('SUPPORT.FUTURE-CLASS', ok, cm, cm.node, 'cancel: state = CANCELLED', '' if ok else 'Future.cancel does not set CANCELLED', construct='cancel')
    rm = c.methods.get('result')
    g = ctx.cfg(rm)
    rets = [n for n in walk_local(rm.node) if isinstance(n, ast.Return)]
    raises = [n for n in walk_local(rm.node) if isinstance(n, ast.Raise)]
    ex_raise = [r for r in raises if r.exc is not None and src(r.exc) == 'self._ex']
    ok = len(rets) == 1 and src(rets[0].value) == 'self._result' and len(ex_raise) == 1
    if ok:
        cr = cond_from_entry(ctx, rm, rets[0])
        ce = cond_from_entry(ctx, rm, ex_raise[0])
        fin = formula_of(ctx, rm, 'self._state == FutureState.FINISHED')
        has_ex = formula_of(ctx, rm, 'self._ex is not None')
        from ..formula import f_and
        ok = equivalent(ce, f_and(fin, has_ex)) and equivalent(cr, f_and(fin, f_not(has_ex)))
    yield ctx.ob('SUPPORT.FUTURE-CLASS', ok, rm, rm.node, 'result(): FINISHED required; stored exception raised, else stored result returned',
                 '' if ok else 'Future.result does not raise the stored exception / return the stored result exactly for a FINISHED future',
                 construct='result')
    hm, em = c.methods.get('__hash__'), c.methods.get('__eq__')
    ok = hm is not None and em is not None and src(_single_return(hm) or ast.Constant(value=0)) == 'hash(self.id)'
    yield ctx.ob('SUPPORT.FUTURE-CLASS', ok, hm or rm, (hm or rm).node, 'futures hash by their unique id', '' if ok else
                 'Future.__hash__ is not hash(self.id)', construct='hash')


@rule('SUPPORT.QUEUE-ROUTING', ['C01', 'C10', 'C11'])
def queue_routing(ctx: Ctx):
    """The child reports (its own future_id, outcome of its own thunk); the consumer completes the future
    registered under the received id with the received payload."""
    tgt = ctx.P.func('runners.process._subprocess_target')
    puts = [c for c in calls_in(tgt.node) if isinstance(c.func, ast.Attribute) and c.func.attr == 'put']
    g = ctx.cfg(tgt)
    rd = ctx.rd(tgt)
    ok = len(puts) == 2
    for p in puts:
        a = p.args[0] if p.args else None
        ok = ok and isinstance(a, ast.Tuple) and len(a.elts) == 2 and isinstance(a.elts[0], ast.Name) and a.elts[0].id == 'future_id' \
            and same_expr(p.func.value, ast.parse('result_queue', mode='eval').body)
    succ = [p for p in puts if not any(isinstance(h, ast.ExceptHandler) and any(x is p for x in ast.walk(h)) for h in walk_local(tgt.node))]
    oks = False
    if len(succ) == 1:
        v = succ[0].args[0].elts[1]
        if isinstance(v, ast.Name):
            d = rd.single_def(g.primary(succ[0]), v.id)
            dv = rd.def_value(d, v.id) if d is not None else None
            oks = bool(dv and dv[0] == 'value' and isinstance(dv[1], ast.Call) and isinstance(dv[1].func, ast.Name) and dv[1].func.id == 'thunk')
    yield ctx.ob('SUPPORT.QUEUE-ROUTING', ok and oks, tgt, tgt.node, 'child puts (future_id, thunk()) / (future_id, ex) on its result queue',
                 '' if ok and oks else 'the child does not report its own id together with the outcome of its own thunk')
    from .executor import executor, queue_consumer
    ex = executor(ctx)
    cons, _host, _thread = queue_consumer(ctx)
    g = ctx.cfg(cons)
    rd = ctx.rd(cons)
    get = [c for c in calls_in(cons.node) if isinstance(c.func, ast.Attribute) and c.func.attr == 'get' and 'result_queue' in src(c.func.value)][0]
    unpack = None
    for n in walk_local(cons.node):
        if isinstance(n, ast.Assign) and n.value is get and isinstance(n.targets[0], ast.Tuple) and len(n.targets[0].elts) == 2:
            unpack = n
    okr = False
    if unpack is not None:
        idv, pv = (e.id for e in unpack.targets[0].elts)
        sets = [c for c in calls_in(cons.node) if isinstance(c.func, ast.Attribute) and c.func.attr in ('set_result', 'set_exception')]
        lookups = [n for n in walk_local(cons.node) if isinstance(n, ast.Assign) and isinstance(n.value, ast.Subscript)
                   and same_expr(n.value.value, ast.parse(f'self.{ex.running}', mode='eval').body)
                   and isinstance(n.value.slice, ast.Name) and n.value.slice.id == idv]
        fv = lookups[0].targets[0].elts[0].id if lookups and isinstance(lookups[0].targets[0], ast.Tuple) else None
        okr = bool(lookups) and fv is not None and len(sets) == 2 and all(
            isinstance(s.func.value, ast.Name) and s.func.value.id == fv and s.args and isinstance(s.args[0], ast.Name) and s.args[0].id == pv
            and rd.same_binding(g.primary(unpack), g.primary(s), pv) is not None for s in sets)
        # exception payloads go to set_exception, others to set_result
        se = [s for s in sets if s.func.attr == 'set_exception']
        sr = [s for s in sets if s.func.attr == 'set_result']
        if okr and se and sr:
            lp = roles.enclosing_loop_of(cons.node, se[0])
            ce = cond_in_loop(ctx, cons, lp, se[0]) if lp is not None else cond_from_entry(ctx, cons, se[0])
            cr = cond_in_loop(ctx, cons, lp, sr[0]) if lp is not None else cond_from_entry(ctx, cons, sr[0])
            isex = formula_of(ctx, cons, f'isinstance({pv}, BaseException)')
            nd = formula_of(ctx, cons, f'not {fv}.done')
            from ..formula import f_and
            okr = equivalent(ce, f_and(nd, isex)) and equivalent(cr, f_and(nd, f_not(isex)))
    yield ctx.ob('SUPPORT.QUEUE-ROUTING', okr, cons, get, 'consumer completes running[received id] with the received payload (exception -> set_exception)',
                 '' if okr else 'the result consumer does not complete exactly the future registered under the received id with the received outcome')


@rule('SUPPORT.IS-TASK', ['C15', 'C02', 'C07'])
def is_task_rule(ctx: Ctx):
    """is_task_type(cls) == isclass(cls) and isinstance(getattr(cls, '_lt', None), TaskInfo);
    is_task(obj) == is_task_type(type(obj)) and hasattr(obj, '_is_task')."""
    itt = ctx.P.func('types.is_task_type')
    it = ctx.P.func('types.is_task')
    v = _single_return(itt)
    fb = ctx.fb(itt)
    saved = fb.inline_bound
    fb.inline_bound = 0
    try:
        ok = v is not None and equivalent(fb.build(v), fb.build(ast.parse("isclass(cls) and isinstance(getattr(cls, '_lt', None), TaskInfo)", mode='eval').body))
    finally:
        fb.inline_bound = saved
    yield ctx.ob('SUPPORT.IS-TASK', ok, itt, itt.node, "is_task_type = isclass and '_lt' is a TaskInfo", '' if ok else
                 'is_task_type no longer tests exactly "a class carrying a TaskInfo in _lt"', construct='is_task_type')
    v = _single_return(it)
    fb2 = ctx.fb(it)
    saved = fb2.inline_bound
    fb2.inline_bound = 0
    try:
        ok = v is not None and equivalent(fb2.build(v), fb2.build(ast.parse("is_task_type(type(obj)) and hasattr(obj, '_is_task')", mode='eval').body))
    finally:
        fb2.inline_bound = saved
    yield ctx.ob('SUPPORT.IS-TASK', ok, it, it.node, "is_task = is_task_type(type(obj)) and has '_is_task'", '' if ok else
                 'is_task no longer tests exactly "instance of a task type that went through __post_init__"', construct='is_task')


@rule('SUPPORT.PROXY-FILTER', ['C19'])
def proxy_filter(ctx: Ctx):
    """LoggerFileProxy drops a written fragment only when it consists of whitespace entirely."""
    c = ctx.P.cls('utils.LoggerFileProxy')
    v = c.consts.get('whitespace_only_re')
    ok = False
    pat = None
    if isinstance(v, ast.Call) and dotted(v.func) == 're.compile' and v.args and isinstance(v.args[0], ast.Constant):
        pat = v.args[0].value
        try:
            import re._parser as sp  # type: ignore
            tree = sp.parse(pat)
            items = list(tree)
            if len(items) == 1 and str(items[0][0]) in ('MAX_REPEAT', 'MIN_REPEAT'):
                lo, hi, sub = items[0][1]
                sub = list(sub)
                if len(sub) == 1 and str(sub[0][0]) == 'IN':
                    ok = all(str(k) == 'CATEGORY' and str(val) == 'CATEGORY_SPACE' for k, val in sub[0][1])
                elif len(sub) == 1 and str(sub[0][0]) == 'CATEGORY':
                    ok = str(sub[0][1]) == 'CATEGORY_SPACE'
        except Exception:
            ok = False
    yield ctx.ob('SUPPORT.PROXY-FILTER', ok, None, None, f'whitespace filter pattern {pat!r} matches whitespace only', '' if ok else
                 f'the fragment filter {pat!r} of LoggerFileProxy can match (and drop) non-whitespace output', construct='pattern', path='labtech/utils.py')
    wr = c.methods.get('write')
    bp = [a.arg for a in wr.params if a.arg != wr.self_name][0]
    apps = [w for w in field_writes(wr) if w.kind in ('mutcall:append', 'mutcall:extend')]
    okf = False
    if apps:
        cnd = cond_from_entry(ctx, wr, apps[0].node)
        need = f_not(formula_of(ctx, wr, f'{wr.self_name}.whitespace_only_re.fullmatch({bp})'))
        okf = equivalent(cnd, need)
    yield ctx.ob('SUPPORT.PROXY-FILTER', okf, wr, apps[0].node if apps else wr.node, 'write() keeps a fragment iff fullmatch(whitespace) fails', '' if okf else
                 'write() does not keep exactly the fragments that are not entirely whitespace (fullmatch on the whole fragment)', construct='fullmatch')


MUTABLE_CTORS = {'dict', 'list', 'set', 'deque', 'collections.deque', 'defaultdict', 'collections.defaultdict', 'OrderedSet', 'Counter',
                 'collections.Counter', 'OrderedDict', 'collections.OrderedDict'}


_CLASS_STATE_SCOPES = [
    ('lab', ['C03', 'C01', 'C04', 'C05', 'C11', 'C17', 'C02', 'C10']),
    ('runners', ['C03', 'C01', 'C04', 'C05', 'C11', 'C17', 'C02', 'C10', 'C16', 'C19']),
    ('diagram', ['C20']),
    ('cache', ['C06', 'C08', 'C09']),
    ('storage', ['C06', 'C08', 'C18']),
    ('serialization', ['C07', 'C09']),
    ('utils', ['C19', 'C03', 'C17']),
    ('monitor', ['C10', 'C11']),
]


@rule('SUPPORT.STATE-PER-INSTANCE', ['C03', 'C01', 'C04', 'C05', 'C11', 'C17', 'C02', 'C10', 'C16', 'C19', 'C20', 'C06', 'C08', 'C09', 'C18', 'C07'])
def state_per_instance(ctx: Ctx):
    """Scheduler / runner / executor bookkeeping is per instance: no class-level mutable container in the classes
    of lab.py and runners/ (a class attribute is shared by every run in the process)."""
    n = 0
    for c in ctx.P.classes.values():
        mod = c.module.name.split('.', 1)[-1]
        props = next((ps for pre, ps in _CLASS_STATE_SCOPES if mod.startswith(pre)), [])
        if ctx.pid is not None and ctx.pid not in props:
            continue
        decos = [dotted(d.func if isinstance(d, ast.Call) else d) or '' for d in c.node.decorator_list]
        for name, v in c.consts.items():
            mutable = isinstance(v, (ast.Dict, ast.List, ast.Set, ast.DictComp, ast.ListComp, ast.SetComp)) or \
                (isinstance(v, ast.Call) and dotted(v.func) in MUTABLE_CTORS)
            if not mutable:
                continue
            n += 1
            yield ctx.ob('SUPPORT.STATE-PER-INSTANCE', False, None, None, f'{c.name}.{name} is a class-level mutable container',
                         f'{c.name}.{name} = {src(v)[:40]} is shared by all instances: work queued or recorded by one run_tasks call leaks into the next',
                         construct=f'{c.name}.{name}', path=c.module.path)
    yield ctx.ob('SUPPORT.STATE-PER-INSTANCE', True, None, None, f'classes scanned, {n} class-level mutable containers',
                 construct='scan', path='labtech/')


def _tail_name(e: ast.AST):
    if isinstance(e, ast.Name):
        return e.id
    if isinstance(e, ast.Attribute):
        return e.attr.lstrip('_')
    return None


@rule('SUPPORT.ARG-NAME-AGREE', ['C01', 'C03', 'C04', 'C05', 'C06', 'C08', 'C10', 'C16', 'C15', 'C19'])
def arg_name_agree(ctx: Ctx):
    """Sweep over every call to a package function / constructor: an argument that is a plain variable (or
    attribute) named like one of the callee's parameters must be bound to that parameter - passing `storage` as
    `context`, `max_workers` as `max_parallel`, `bust_cache` as `disable_progress` is a mix-up of same-typed
    pass-through configuration."""
    n = 0
    for fn in ctx.P.all_functions():
        for call in calls_in(fn.node):
            cs = [q for q in ctx.P.resolve_call(call, fn, by_name=False) if q in ctx.P.funcs or q in ctx.P.classes]
            if len(cs) < 1:
                continue
            callees = []
            for q in cs:
                if q in ctx.P.funcs:
                    callees.append(ctx.P.funcs[q])
                else:
                    c = ctx.P.classes[q]
                    init = ctx.P.find_method(c, '__init__')
                    if init is not None:
                        callees.append(init)
                    elif c.annotations:
                        callees.append(c)     # dataclass-style constructor: fields are the parameters
            for cal in callees:
                if hasattr(cal, 'params'):
                    pos = [a.arg for a in cal.node.args.posonlyargs + cal.node.args.args]
                    attached = any(cal.qualname == a.qualname for a in ctx.P.attachments.values())
                    if ((cal.cls is not None and not cal.is_static) or (attached and isinstance(call.func, ast.Attribute))) and pos:
                        pos = pos[1:]
                    names = pos + [a.arg for a in cal.node.args.kwonlyargs]
                else:
                    pos = list(cal.annotations)
                    names = list(pos)
                bound = {}
                for i, a in enumerate(call.args):
                    if isinstance(a, ast.Starred) or i >= len(pos):
                        break
                    bound[pos[i]] = a
                for kw in call.keywords:
                    if kw.arg is not None:
                        bound[kw.arg] = kw.value
                for pname, a in bound.items():
                    tn = _tail_name(a)
                    if tn is None or tn == pname or tn not in names:
                        continue
                    # the same-named parameter exists but receives something else (or nothing)
                    other = bound.get(tn)
                    if other is not None and _tail_name(other) == tn:
                        continue
                    n += 1
                    yield ctx.ob('SUPPORT.ARG-NAME-AGREE', False, fn, call, f'argument `{src(a)}` bound to parameter `{pname}`',
                                 f'`{src(call)[:70]}` passes `{src(a)}` as `{pname}` although the callee has a parameter `{tn}`: '
                                 'two pass-through arguments are mixed up')
    yield ctx.ob('SUPPORT.ARG-NAME-AGREE', True, None, None, f'all package call sites scanned, {n} mix-ups', construct='scan', path='labtech/')


@rule('SUPPORT.CONFIG-FLOW', ['C03', 'C04', 'C05', 'C06', 'C08', 'C10', 'C16', 'C01', 'C15'])
def config_flow(ctx: Ctx):
    """Configuration reaches its consumer unchanged: constructor parameters are stored under their own name and
    read back from there (Lab: continue_on_failure / max_workers / context / storage; TaskCoordinator: lab /
    bust_cache; runners: context / storage; task decorator -> TaskInfo)."""
    def stores(fnq: str, wanted: dict[str, str]):
        f = ctx.P.func(fnq)
        sn = f.self_name
        g = ctx.cfg(f)
        rd = ctx.rd(f)
        for fld, param in wanted.items():
            ws = [n for n in walk_local(f.node) if isinstance(n, ast.Assign) and isinstance(n.targets[0], ast.Attribute)
                  and isinstance(n.targets[0].value, ast.Name) and n.targets[0].value.id == sn and n.targets[0].attr == fld]
            ok = False
            if len(ws) == 1:
                v = ws[0].value
                # the parameter itself, possibly after documented defaulting / conversion of the same name
                names = {x.id for x in ast.walk(v) if isinstance(x, ast.Name)}
                ok = param in names and not (names - {param, 'is_ipython'})
            elif len(ws) > 1:
                # one store per case of a defaulting / conversion chain (`if isinstance(p, str): self.f = Conv(p) elif p is None:
                # self.f = Default() else: self.f = p`): exactly one store on every normal path, every stored value is built from the
                # parameter alone (or is a parameterless default), and the plain parameter is among them
                one_each = all(not (g.reachable([g.primary(w)], exc=False, include_starts=False) & {g.primary(o) for o in ws if o is not w}) for w in ws) \
                    and g.on_all_paths_to_exit(g.entry, [g.primary(w) for w in ws], exc=False)
                vals_ok = all(not ({x.id for x in ast.walk(w.value) if isinstance(x, ast.Name) and not (isinstance(w.value, ast.Call) and x is w.value.func)}
                                   - {param, 'is_ipython'}) for w in ws)
                plain = any(isinstance(w.value, ast.Name) and w.value.id == param for w in ws)
                ok = one_each and vals_ok and plain
            yield ctx.ob('SUPPORT.CONFIG-FLOW', ok, f, ws[0] if ws else f.node, f'{f.short}: self.{fld} <- {param}',
                         '' if ok else f'{f.short} does not store its `{param}` argument in self.{fld}')
    yield from stores('lab.Lab.__init__', {'continue_on_failure': 'continue_on_failure', 'max_workers': 'max_workers',
                                           'context': 'context', '_storage': 'storage', 'runner_backend': 'runner_backend'})
    yield from stores('lab.TaskCoordinator.__init__', {'lab': 'lab', 'bust_cache': 'bust_cache'})
    yield from stores('runners.serial.SerialRunner.__init__', {'context': 'context', 'storage': 'storage'})
    yield from stores('runners.process.SpawnProcessRunner.__init__', {'context': 'context', 'storage': 'storage'})
    # Lab.run_tasks -> TaskCoordinator(self, bust_cache=bust_cache, ...)
    rt = ctx.P.func('lab.Lab.run_tasks')
    for call in calls_in(rt.node):
        if f'{PKG}.lab.TaskCoordinator' in ctx.P.resolve_call(call, rt):
            kws = {k.arg: k.value for k in call.keywords}
            ok = isinstance(kws.get('bust_cache'), ast.Name) and kws['bust_cache'].id == 'bust_cache' and call.args \
                and isinstance(call.args[0], ast.Name) and call.args[0].id == rt.self_name
            yield ctx.ob('SUPPORT.CONFIG-FLOW', ok, rt, call, 'run_tasks -> TaskCoordinator(self, bust_cache=bust_cache)',
                         '' if ok else 'run_tasks does not hand its bust_cache argument (and itself) to the coordinator')
    # coordinator -> build_runner(context=self.lab.context, max_workers=self.lab.max_workers, storage=self.lab._storage)
    run = ctx.P.func('lab.TaskCoordinator.run')
    for call in calls_in(run.node):
        if isinstance(call.func, ast.Attribute) and call.func.attr == 'build_runner':
            kws = {k.arg: src(k.value) for k in call.keywords}
            sn = run.self_name
            ok = kws == {'context': f'{sn}.lab.context', 'max_workers': f'{sn}.lab.max_workers', 'storage': f'{sn}.lab._storage'} \
                and same_expr(call.func.value, ast.parse(f'{sn}.lab.runner_backend', mode='eval').body)
            yield ctx.ob('SUPPORT.CONFIG-FLOW', ok, run, call, 'runner built from the Lab\'s backend, context, max_workers and storage',
                         '' if ok else f'build_runner receives {kws}: not the Lab\'s own context / max_workers / storage')
    # process runner -> executor(max_workers=max_workers)
    pri = ctx.P.func('runners.process.ProcessRunner.__init__')
    for call in calls_in(pri.node):
        if any(q.endswith('ProcessExecutor') for q in ctx.P.resolve_call(call, pri)):
            mw = kwarg(call, 'max_workers', 1)
            ok = isinstance(mw, ast.Name) and mw.id == 'max_workers'
            yield ctx.ob('SUPPORT.CONFIG-FLOW', ok, pri, call, 'executor built with the runner\'s max_workers',
                         '' if ok else 'the executor does not receive the runner\'s max_workers')
    # handle_failure reads self.lab.continue_on_failure (checked by C10.HANDLE-FAILURE-TRUTH); decorator -> TaskInfo
    deco = ctx.P.func('tasks.task.<locals>.decorator')
    for call in calls_in(deco.node):
        if any(q.endswith('types.TaskInfo') for q in ctx.P.resolve_call(call, deco)):
            kws = {k.arg: k.value for k in call.keywords}
            ok = isinstance(kws.get('max_parallel'), ast.Name) and kws['max_parallel'].id == 'max_parallel' \
                and isinstance(kws.get('mlflow_run'), ast.Name) and kws['mlflow_run'].id == 'mlflow_run' \
                and isinstance(kws.get('orig_post_init'), ast.Name) and kws['orig_post_init'].id == 'post_init' \
                and any(isinstance(x, ast.Name) and x.id == 'cache' for x in ast.walk(kws.get('cache', ast.Constant(value=None))))
            yield ctx.ob('SUPPORT.CONFIG-FLOW', ok, deco, call, 'TaskInfo(cache, orig_post_init=post_init, max_parallel, mlflow_run) from the decorator arguments',
                         '' if ok else 'the task decorator does not record its own arguments in TaskInfo')
    # post_init is read before dataclass() replaces attributes, from the user's class
    okp = any(isinstance(n, ast.Assign) and isinstance(n.targets[0], ast.Name) and n.targets[0].id == 'post_init'
              and isinstance(n.value, ast.Call) and dotted(n.value.func) == 'getattr' and len(n.value.args) == 3
              and isinstance(n.value.args[1], ast.Constant) and n.value.args[1].value == 'post_init' for n in walk_local(deco.node))
    yield ctx.ob('SUPPORT.CONFIG-FLOW', okp, deco, deco.node, "post_init = getattr(cls, 'post_init', None)", '' if okp else
                 'the decorator does not pick up the task type\'s post_init method', construct='post-init-lookup')


# Module-level mutable containers that exist on purpose, with the reason; anything else that functions write to is
# process-global state that survives from one run_tasks call (one Lab, one runner) to the next.
SANCTIONED_GLOBALS = {
    'runners.process._RUNNER_FORK_MEMORY': 'fork hand-over registry: keyed by a per-runner uuid, entry removed by the runner that created it (C16.FORK-MEMORY)',
}


def _fork_registry(ctx: Ctx):
    """The sanctioned registry by role (its name is private and may change): the module-level name the fork runner's
    __init__ stores its hand-over record into under `self.uuid`."""
    try:
        fr = ctx.P.cls('runners.process.ForkProcessRunner')
    except AnalysisError:
        return None
    init = fr.methods.get('__init__')
    if init is None:
        return None
    for n in walk_local(init.node):
        if isinstance(n, ast.Assign) and isinstance(n.targets[0], ast.Subscript) and isinstance(n.targets[0].value, ast.Name) \
                and n.targets[0].value.id in init.module.consts and 'uuid' in src(n.targets[0].slice):
            return ('runners.process', n.targets[0].value.id)
    return None


@rule('SUPPORT.NO-PROCESS-GLOBAL-STATE', ['C01', 'C02', 'C03', 'C04', 'C05', 'C06', 'C08', 'C10', 'C11', 'C16', 'C17'])
def no_process_global_state(ctx: Ctx):
    """Scheduler, runner, executor and cache objects are created per run and die with it: no module-level container in lab.py,
    runners/, cache.py, storage.py, serialization.py or tasks.py is written to by a function (a registry that memoises an
    executor, a runner or results keeps the first run's configuration - max_workers, context, storage - and its leftovers for
    every later run in the process)."""
    n = 0
    mods = ('lab', 'runners', 'cache', 'storage', 'serialization', 'tasks')
    for m in ctx.P.modules.values():
        rel = m.name.split('.', 1)[-1] if '.' in m.name else m.name
        if not rel.startswith(mods):
            continue
        for name, v in m.consts.items():
            mutable = isinstance(v, (ast.Dict, ast.List, ast.Set, ast.DictComp, ast.ListComp, ast.SetComp)) or \
                (isinstance(v, ast.Call) and (dotted(v.func) or '').split('.')[-1] in
                 {'dict', 'list', 'set', 'defaultdict', 'deque', 'OrderedDict', 'Counter', 'WeakValueDictionary', 'WeakKeyDictionary', 'OrderedSet'})
            if not mutable or name.startswith('__'):
                continue
            writers = []
            for fn in ctx.P.all_functions():
                if fn.module is not m and name not in fn.module.imports:
                    continue
                if ctx.P._is_local_name(name, fn) and not any(isinstance(x, ast.Global) and name in x.names for x in walk_local(fn.node)):
                    continue
                for x in walk_local(fn.node):
                    if isinstance(x, (ast.Assign, ast.AugAssign, ast.Delete)):
                        tgts = x.targets if isinstance(x, (ast.Assign, ast.Delete)) else [x.target]
                        if any(isinstance(t, ast.Subscript) and isinstance(t.value, ast.Name) and t.value.id == name for t in tgts):
                            writers.append((fn, x))
                    elif isinstance(x, ast.Call) and isinstance(x.func, ast.Attribute) and isinstance(x.func.value, ast.Name) \
                            and x.func.value.id == name and x.func.attr in MUTATORS_ALL:
                        writers.append((fn, x))
            if not writers:
                continue
            n += 1
            key = f'{rel}.{name}'
            ok = key in SANCTIONED_GLOBALS or (rel, name) == _fork_registry(ctx)
            yield ctx.ob('SUPPORT.NO-PROCESS-GLOBAL-STATE', ok, writers[0][0], writers[0][1], f'module-level `{name}` written by {writers[0][0].short}',
                         '' if ok else f'`{name}` is a module-level container that `{src(writers[0][1])[:60]}` fills at run time: what one run (one Lab / runner / '
                         'executor configuration) leaves there is seen by every later run in the process', construct=f'global:{key}')
    yield ctx.ob('SUPPORT.NO-PROCESS-GLOBAL-STATE', True, None, None, f'{n} written module-level containers', construct='scan', path='labtech/')


MUTATORS_ALL = {'append', 'extend', 'insert', 'add', 'update', 'setdefault', 'pop', 'popitem', 'remove', 'discard', 'clear', 'appendleft', 'popleft'}


@rule('SUPPORT.BACKEND-STATELESS', ['C10', 'C04', 'C05', 'C11', 'C16', 'C01', 'C03'])
def backend_stateless(ctx: Ctx):
    """A RunnerBackend is a factory the Lab keeps for its whole life: every build_runner() returns a runner (and through it an
    executor, queues, result map) constructed in that call from its arguments; the backend itself stores nothing (no attribute
    of self is written outside __init__, nothing is memoised).  A backend that hands out a kept executor or runner carries the
    queued work, results and limits of an aborted run into the next run_tasks call."""
    from .. import roles
    n = 0
    for c in ctx.P.subclasses(roles.RUNNER_BACKEND):
        for m in c.methods.values():
            if m.is_abstract:
                continue
            n += 1
            ws = [w for w in field_writes(m)] if m.name != '__init__' else []
            md = memo_decorators(m)
            ok = not ws and not md
            yield ctx.ob('SUPPORT.BACKEND-STATELESS', ok, m, ws[0].node if ws else m.node, f'{c.name}.{m.name} keeps nothing on the backend',
                         '' if ok else (f'`{src(ws[0].node)[:60]}` stores state on the runner backend' if ws else f'{m.name} is memoised ({md})') +
                         ': the Lab reuses the backend for every run_tasks call, so queued tasks / results / limits of one run leak into the next')
        br = ctx.P.find_method(c, 'build_runner')
        if br is None or br.is_abstract:
            continue
        rets = [r for r in walk_local(br.node) if isinstance(r, ast.Return) and r.value is not None]
        g = ctx.cfg(br)
        rd = ctx.rd(br)
        okr = bool(rets)
        for r in rets:
            from ..dataflow import expand_locals as _xl
            v = _xl(g, rd, r.value, g.primary(r))
            fresh = isinstance(v, ast.Call) and any(q in ctx.P.classes for q in ctx.P.resolve_call(v, br, by_name=False))
            # every keyword / argument comes from build_runner's own parameters (or constants)
            params = {a.arg for a in br.params}
            if fresh:
                for a in list(v.args) + [k.value for k in v.keywords]:
                    for x in ast.walk(a):
                        if isinstance(x, ast.Attribute) and isinstance(x.value, ast.Name) and x.value.id == br.self_name:
                            fresh = False
            okr = okr and fresh
        yield ctx.ob('SUPPORT.BACKEND-STATELESS', okr, br, rets[0] if rets else br.node, f'{c.name}.build_runner returns a runner built in this call from its arguments',
                     '' if okr else f'{c.name}.build_runner does not return a freshly constructed runner fed only by its own arguments (a kept executor / '
                     'runner / queue is handed out again)', construct=f'{c.name}:fresh-runner')
    if n == 0:
        raise AnalysisError('no RunnerBackend implementation found')
