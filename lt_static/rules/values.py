"""Rules over serialization.py and tasks.py: case tables, key determinism and coverage, serialiser /
deserialiser agreement, task immutability and pickling.  Serves C02, C07, C09, C15, C16, C01."""
from __future__ import annotations

import ast
from dataclasses import dataclass
from typing import Optional

from .. import roles
from ..dataflow import expand_locals
from ..engine import (Ctx, calls_in, cond_from_entry, cond_in_loop, early_exits, formula_of, kwarg, memo_decorators,
                      rule, same_expr, strip_order_preserving)
from ..formula import TRUE, atoms_of, canon, equivalent, f_and, f_not, f_or, implies, show
from ..model import PKG, AnalysisError, FuncInfo, dotted, src, walk_local

SCALARS = {'NoneType', 'str', 'bool', 'float', 'int'}
DOC_GRAMMAR = {'str', 'bool', 'float', 'int', 'NoneType', 'Enum', 'task', 'list', 'tuple', 'dict', 'frozendict'}


@dataclass
class Case:
    kinds: frozenset          # type names ('tuple', 'Enum', ...), 'task', 'NoneType'
    test: Optional[ast.AST]
    body: list
    cond: object              # formula under which the body is entered


def case_table(ctx: Ctx, fn: FuncInfo, subject: str) -> list[Case]:
    """Ordered cases of an if-chain that dispatches on the kind of `subject`: every If (top-level or
    elif) whose test mentions isinstance(subject, ...), is_task(subject) or `subject is None`."""
    fb = ctx.fb(fn)
    out: list[Case] = []
    subj = canon(ast.Name(id=subject, ctx=ast.Load()))

    def kinds_of(test: ast.AST, depth: int = 0) -> Optional[frozenset]:
        ks = set()
        if depth > 2:
            return None
        for n in ast.walk(test):
            if isinstance(n, ast.Call) and dotted(n.func) == 'isinstance' and len(n.args) == 2 \
                    and canon(n.args[0]) == subj:
                for t in (ctx.type_names(n.args[1], fn) or []):
                    ks.add(t)
            elif isinstance(n, ast.Call) and (dotted(n.func) or '').split('.')[-1] in ('is_task', 'is_serialized_task', 'is_serialized_enum') \
                    and n.args and canon(n.args[0]) == subj:
                ks.add({'is_task': 'task', 'is_serialized_task': 'task-dict', 'is_serialized_enum': 'enum-dict'}[(dotted(n.func) or '').split('.')[-1]])
            elif isinstance(n, ast.Compare) and len(n.ops) == 1 and isinstance(n.ops[0], ast.Is) \
                    and canon(n.left) == subj and isinstance(n.comparators[0], ast.Constant) and n.comparators[0].value is None:
                ks.add('NoneType')
            elif isinstance(n, ast.Name) and isinstance(n.ctx, ast.Load):
                # a local boolean that abbreviates an isinstance test (is_scalar = isinstance(value, ...))
                for a in walk_local(fn.node):
                    if isinstance(a, ast.Assign) and len(a.targets) == 1 and isinstance(a.targets[0], ast.Name) \
                            and a.targets[0].id == n.id and n.id != subject:
                        if any(isinstance(x, ast.Name) and x.id == n.id for x in ast.walk(a.value)):
                            continue
                        sub = kinds_of(a.value, depth + 1)
                        if sub:
                            ks.update(sub)
        return frozenset(ks) if ks else None

    def visit(stmts: list[ast.stmt]):
        for s in stmts:
            if isinstance(s, ast.If):
                ks = kinds_of(s.test)
                if ks:
                    out.append(Case(ks, s.test, s.body, None))
                    if s.orelse:
                        visit(s.orelse)
                else:
                    visit(s.body)
                    visit(s.orelse)
    visit(fn.node.body)
    return out


def _flat_kinds(cases: list[Case]) -> set[str]:
    s: set[str] = set()
    for c in cases:
        s.update(c.kinds)
    return s


def _ends_in_raise(fn: FuncInfo, ctx: Optional[Ctx] = None, subject: Optional[str] = None) -> bool:
    last = fn.node.body[-1]
    if isinstance(last, ast.Raise):
        return True
    if ctx is None or subject is None:
        return False
    # the raise may sit in the final `else` of the dispatch chain: when no case test holds, no path reaches a normal exit
    g = ctx.cfg(fn)
    cases = case_table(ctx, fn, subject)
    if not cases:
        return False
    case_tests = {id(c.test) for c in cases}
    seen = set()
    first = [n.id for n in g.nodes if n.kind == 'test' and n.ast is cases[0].test]
    if not first:
        return False
    stack = [first[0]]      # what precedes the dispatch (argument defaults, the cycle guard) is not part of the table
    while stack:
        n = stack.pop()
        if n in seen:
            continue
        seen.add(n)
        node = g.node(n)
        for (t, lab) in g.succ.get(n, []):
            if lab == 'exc':
                continue
            if node.kind == 'test' and id(node.ast) in case_tests and lab == 'true':
                continue
            stack.append(t)
    return g.exit not in seen and any(isinstance(x, ast.Raise) for x in walk_local(fn.node))


def _recursion_complete(fn: FuncInfo, body: list, subject: str, over_values: bool) -> tuple[bool, str]:
    """The case body maps a recursive call over ALL items (or values) of subject: comprehension or
    loop without filter, slice or conditional element."""
    name = fn.name
    # merged-branches form: the case only binds a local to the collection (`items = subject` /
    # `items = subject.values()`), and one shared comprehension over that local does the recursion
    if len(body) == 1 and isinstance(body[0], (ast.Assign, ast.AnnAssign)):
        tgt = body[0].targets[0] if isinstance(body[0], ast.Assign) else body[0].target
        val = body[0].value
        base = val
        if isinstance(val, ast.Call) and isinstance(val.func, ast.Attribute) and val.func.attr in ('values', 'items') and not val.args:
            base = val.func.value
        if isinstance(tgt, ast.Name) and isinstance(base, ast.Name) and base.id == subject:
            local = tgt.id
            for n in walk_local(fn.node):
                if isinstance(n, (ast.ListComp, ast.GeneratorExp, ast.SetComp)) and isinstance(n.generators[0].iter, ast.Name) \
                        and n.generators[0].iter.id == local:
                    rec = [c for c in ast.walk(n) if isinstance(c, ast.Call) and (dotted(c.func) or '').split('.')[-1] == name]
                    if rec and not any(gg.ifs for gg in n.generators):
                        return True, ''
            return False, f'`{local}` is bound to the collection but never searched completely'
    for s in body:
        for n in ast.walk(s):
            if isinstance(n, (ast.ListComp, ast.GeneratorExp, ast.SetComp, ast.DictComp)):
                rec = [c for c in ast.walk(n)
                       if isinstance(c, ast.Call) and (dotted(c.func) or '').split('.')[-1] == name]
                if not rec:
                    continue
                if any(g.ifs for g in n.generators):
                    return False, 'the comprehension filters items'
                elt = n.elt if not isinstance(n, ast.DictComp) else n.value
                # the element must be the recursive call itself or an iteration over its result
                direct = isinstance(elt, ast.Call) and (dotted(elt.func) or '').split('.')[-1] == name
                nested = isinstance(elt, ast.Name) and len(n.generators) == 2 and \
                    isinstance(n.generators[1].iter, ast.Call) and (dotted(n.generators[1].iter.func) or '').split('.')[-1] == name
                if not (direct or nested):
                    return False, f'the element `{src(elt)[:60]}` is not always the recursive call'
                it = n.generators[0].iter
                base = it
                if isinstance(it, ast.Call) and isinstance(it.func, ast.Attribute) and it.func.attr in ('values', 'items') and not it.args:
                    base = it.func.value
                elif isinstance(it, ast.Call) and dotted(it.func) == 'enumerate' and len(it.args) == 1:
                    base = it.args[0]
                if not (isinstance(base, ast.Name) and base.id == subject):
                    return False, f'the comprehension iterates `{src(it)}`, not all of `{subject}`'
                # every return of this case must be that complete recursion: an extra "fast path" return for some
                # collections (first element looks scalar, already hashable, ...) skips items
                for st in body:
                    for r in ast.walk(st):
                        if isinstance(r, ast.Return) and not any(x is n for x in ast.walk(r)):
                            return False, f'`{src(r)[:60]}` returns from the collection case without the complete recursion'
                return True, ''
    return False, 'no recursive comprehension over the items'


# ----------------------------------------------------------------------------------------
# C02 / C15: discovery and normalisation tables


@rule('C02.DISCOVER-TABLE', ['C02', 'C15', 'C20', 'C01', 'C03'], min_instances=4)
def discover_table(ctx: Ctx):
    """find_tasks_in_param recurses into every container kind construction can produce or accept, fully;
    get_direct_dependencies looks at every field."""
    ipv = ctx.P.func('tasks.immutable_param_value')
    ftp = ctx.P.func('tasks.find_tasks_in_param')
    gdd = ctx.P.func('tasks.get_direct_dependencies')
    acc = case_table(ctx, ipv, 'value')
    srch = case_table(ctx, ftp, 'param_value')
    acc_k = _flat_kinds(acc)
    srch_k = _flat_kinds(srch)
    need = {k for k in acc_k if k in ('list', 'tuple', 'dict', 'frozendict')} | {'task'}
    missing = need - srch_k
    yield ctx.ob('C02.DISCOVER-TABLE', not missing, ftp, ftp.node, f'search covers container kinds {sorted(need)}',
                 '' if not missing else f'find_tasks_in_param has no case for {sorted(missing)}, which construction accepts/produces: '
                 'tasks nested there are not discovered as dependencies', construct='kinds')
    for c in srch:
        if 'task' in c.kinds:
            ok = any(isinstance(s, ast.Return) and isinstance(s.value, ast.List) and len(s.value.elts) == 1
                     and isinstance(s.value.elts[0], ast.Name) and s.value.elts[0].id == 'param_value' for s in c.body)
            yield ctx.ob('C02.DISCOVER-TABLE', ok, ftp, c.test, 'task case returns the task', '' if ok else 'the task case does not return [task]')
        elif c.kinds & {'list', 'tuple', 'dict', 'frozendict'}:
            ok, why = _recursion_complete(ftp, c.body, 'param_value', bool(c.kinds & {'dict', 'frozendict'}))
            yield ctx.ob('C02.DISCOVER-TABLE', ok, ftp, c.test, f'{sorted(c.kinds)} case searches all items',
                         '' if ok else f'the {sorted(c.kinds)} case of find_tasks_in_param does not search every item: {why}')
    # nothing returns early before the case table except the cycle guard on ids
    g = ctx.cfg(ftp)
    first_case = srch[0].test if srch else None
    early = []
    if first_case is not None:
        fc_line = first_case.lineno
        for n in walk_local(ftp.node):
            if isinstance(n, ast.Return) and n.lineno < fc_line:
                c = cond_from_entry(ctx, ftp, n)
                idk = canon(ast.parse('id(param_value)', mode='eval').body)
                if not all(a[0] == 'atom' and a[1] == 'in' and a[2][0] == idk for a in atoms_of(c)):
                    early.append(n)
        # and no case earlier in the chain shadows the container cases with a narrower test
    yield ctx.ob('C02.DISCOVER-TABLE', not early, ftp, early[0] if early else ftp.node, 'no early return before the case table',
                 '' if not early else f'`{src(early[0])}` returns before the kind dispatch for some values', construct='early-return')
    # cases that return [] / nothing for containers under extra conditions
    for s in walk_local(ftp.node):
        if isinstance(s, ast.Return) and isinstance(s.value, (ast.List, ast.Tuple)) and not s.value.elts:
            c = cond_from_entry(ctx, ftp, s)
            bad = False
            for a in atoms_of(c):
                if a[0] == 'atom' and a[1] == 'inst' and a[2][1] in ('list', 'tuple', 'dict', 'frozendict'):
                    # an empty result under a container test: only acceptable if the test is negated
                    from ..formula import ev, valuations
                    for v in valuations(atoms_of(c)):
                        if ev(c, v) and v[a]:
                            bad = True
            yield ctx.ob('C02.DISCOVER-TABLE', not bad, ftp, s, 'empty result only for scalars / revisited collections',
                         '' if not bad else f'`{src(s)}` returns no tasks for a container value when {show(c)}')
    # get_direct_dependencies: all fields, all found tasks - or a collection built from a complete enumeration of the
    # dependency instances (`OrderedSet(get_direct_dependency_instances(task))`)
    from .runners import _instance_complete
    tparam = [a.arg for a in gdd.params][0] if gdd.params else 'task'
    delegated = []
    for c in calls_in(gdd.node):
        if c.args and isinstance(c.args[0], ast.Name) and c.args[0].id == tparam:
            for q in ctx.P.resolve_call(c, gdd, by_name=False):
                f2 = ctx.P.funcs.get(q)
                if f2 is not None and f2.qualname != gdd.qualname and _instance_complete(ctx, f2)[0]:
                    delegated.append(c)
    if delegated:
        c0 = delegated[0]
        rets = [r for r in walk_local(gdd.node) if isinstance(r, ast.Return) and r.value is not None]
        # the enumeration flows, whole, into the returned collection
        direct = len(rets) == 1 and isinstance(rets[0].value, ast.Call) and rets[0].value.args and rets[0].value.args[0] is c0 \
            and (dotted(rets[0].value.func) or '').split('.')[-1] in ('OrderedSet', 'list', 'tuple')
        loops_d = [lp for lp in walk_local(gdd.node) if isinstance(lp, ast.For) and lp.iter is c0 and isinstance(lp.target, ast.Name)]
        looped = False
        if loops_d and not early_exits(loops_d[0], allow_raise=True, allow_continue=False):
            adds = [c for c in calls_in(loops_d[0]) if isinstance(c.func, ast.Attribute) and c.func.attr in ('add', 'append') and c.args
                    and isinstance(c.args[0], ast.Name) and c.args[0].id == loops_d[0].target.id]
            looped = bool(adds) and cond_in_loop(ctx, gdd, loops_d[0], adds[0]) == TRUE
        okd = direct or looped
        yield ctx.ob('C02.DISCOVER-TABLE', okd, gdd, c0, 'all fields(task) searched',
                     '' if okd else 'get_direct_dependencies does not keep every task of the complete enumeration it delegates to')
        yield ctx.ob('C02.DISCOVER-TABLE', okd, gdd, c0, 'every task found in every field is added',
                     '' if okd else 'a task found in a field value may not be added to the dependency set')
        md = memo_decorators(ftp) + memo_decorators(gdd)
        yield ctx.ob('C02.DISCOVER-TABLE', not md, ftp, ftp.node, 'dependency search not memoised by equality',
                     '' if not md else f'dependency search is memoised ({md}): equal-but-distinct values share a result', construct='memo')
        return
    rets_c = [r for r in walk_local(gdd.node) if isinstance(r, ast.Return) and r.value is not None]
    if len(rets_c) == 1 and isinstance(rets_c[0].value, ast.Call) and (dotted(rets_c[0].value.func) or '').split('.')[-1] in ('OrderedSet', 'list', 'tuple') \
            and len(rets_c[0].value.args) == 1 and isinstance(rets_c[0].value.args[0], (ast.ListComp, ast.GeneratorExp)):
        # `OrderedSet([d for field in fields(task) for d in find_tasks_in_param(getattr(task, field.name))])`
        from .runners import _comp_complete
        okc = _comp_complete(ctx, gdd, rets_c[0].value.args[0], tparam)
        yield ctx.ob('C02.DISCOVER-TABLE', okc, gdd, rets_c[0], 'all fields(task) searched',
                     '' if okc else 'get_direct_dependencies does not iterate all fields(task) (sliced, filtered or cut short)')
        yield ctx.ob('C02.DISCOVER-TABLE', okc, gdd, rets_c[0], 'every task found in every field is added',
                     '' if okc else 'a task found in a field value may not be added to the dependency set')
        md = memo_decorators(ftp) + memo_decorators(gdd)
        yield ctx.ob('C02.DISCOVER-TABLE', not md, ftp, ftp.node, 'dependency search not memoised by equality',
                     '' if not md else f'dependency search is memoised ({md}): equal-but-distinct values share a result', construct='memo')
        return
    loops = [lp for lp in walk_local(gdd.node) if isinstance(lp, ast.For)]
    fl = [lp for lp in loops if isinstance(lp.iter, ast.Call) and dotted(lp.iter.func) == 'fields' and len(lp.iter.args) == 1
          and isinstance(lp.iter.args[0], ast.Name) and lp.iter.args[0].id == 'task']
    ok = bool(fl) and not early_exits(fl[0], allow_raise=True, allow_continue=False)
    yield ctx.ob('C02.DISCOVER-TABLE', ok, gdd, fl[0] if fl else gdd.node, 'all fields(task) searched',
                 '' if ok else 'get_direct_dependencies does not iterate all fields(task) (sliced, filtered or cut short)')
    if fl:
        inner = [lp for lp in walk_local(fl[0]) if isinstance(lp, ast.For) and isinstance(lp.iter, ast.Call)
                 and ftp.qualname in ctx.P.resolve_call(lp.iter, gdd)]
        ok2 = bool(inner) and not early_exits(inner[0], allow_raise=True, allow_continue=False) and \
            cond_in_loop(ctx, gdd, fl[0], inner[0]) == TRUE
        adds = [c for c in calls_in(inner[0]) if isinstance(c.func, ast.Attribute) and c.func.attr == 'add'] if inner else []
        ok2 = ok2 and bool(adds) and cond_in_loop(ctx, gdd, inner[0], adds[0]) == TRUE
        # the searched value is getattr(task, field.name)
        yield ctx.ob('C02.DISCOVER-TABLE', ok2, gdd, inner[0] if inner else fl[0], 'every task found in every field is added',
                     '' if ok2 else 'a task found in a field value may not be added to the dependency set')
    md = memo_decorators(ftp) + memo_decorators(gdd)
    yield ctx.ob('C02.DISCOVER-TABLE', not md, ftp, ftp.node, 'dependency search not memoised by equality',
                 '' if not md else f'dependency search is memoised ({md}): equal-but-distinct values share a result', construct='memo')


@rule('C02.FAILED-DEP-RAISES', ['C02', 'C10', 'C01'])
def failed_dep_raises(ctx: Ctx):
    """Task.result returns self._results_map[self].value only under the guards `_results_map is not None`
    and `self in _results_map`; otherwise it raises TaskError; no default, no memo on the task object."""
    fn = ctx.P.attachments.get('result')
    if fn is None:
        raise AnalysisError('Task.result is not attached by the decorator')
    sn = fn.params[0].arg
    g = ctx.cfg(fn)
    rets = [n for n in walk_local(fn.node) if isinstance(n, ast.Return)]
    map_rets = [r for r in rets if r.value is not None and any(isinstance(x, ast.Attribute) and x.attr == '_results_map' for x in ast.walk(r.value))]
    if not map_rets:
        yield ctx.ob('C02.FAILED-DEP-RAISES', False, fn, fn.node, 'result read from the results map',
                     'Task.result does not return a value read from self._results_map', construct='no-map-read')
        return
    for r in map_rets:
        want = ast.parse(f'{sn}._results_map[{sn}].value', mode='eval').body
        okv = same_expr(r.value, want)
        c = cond_from_entry(ctx, fn, r)
        need = formula_of(ctx, fn, f'({sn}._results_map is not None) and ({sn} in {sn}._results_map)')
        okc = implies(c, need)
        yield ctx.ob('C02.FAILED-DEP-RAISES', okv and okc, fn, r, 'returns _results_map[self].value under both guards',
                     '' if okv and okc else (f'`{src(r)}` is not the task\'s own entry' if not okv else
                                            f'the read is reached when {show(c)}: a missing result does not raise'))
    # all other exits raise TaskError or return the explicit _result override
    for r in rets:
        if r in map_rets:
            continue
        ok = isinstance(r.value, ast.Attribute) and r.value.attr == '_result'
        yield ctx.ob('C02.FAILED-DEP-RAISES', ok, fn, r, 'other return is the explicit _result override',
                     '' if ok else f'`{src(r)}` returns a value that is not the results-map entry (default / stale / foreign value)')
    # no write of _result (memoisation) in the package outside tests: stale across runs
    writers = []
    for f in ctx.P.all_functions():
        for n in walk_local(f.node):
            if isinstance(n, ast.Call) and (dotted(n.func) or '').endswith('__setattr__') and len(n.args) >= 2 \
                    and isinstance(n.args[1], ast.Constant) and n.args[1].value == '_result':
                writers.append((f, n))
            if isinstance(n, ast.Call) and dotted(n.func) == 'setattr' and len(n.args) >= 2 \
                    and isinstance(n.args[1], ast.Constant) and n.args[1].value == '_result':
                writers.append((f, n))
            if isinstance(n, (ast.Assign, ast.AugAssign)):
                for t in (n.targets if isinstance(n, ast.Assign) else [n.target]):
                    if isinstance(t, ast.Attribute) and t.attr == '_result' and not (f.cls is not None and f.cls.name == 'Future'):
                        writers.append((f, n))
    yield ctx.ob('C02.FAILED-DEP-RAISES', not writers, writers[0][0] if writers else fn, writers[0][1] if writers else fn.node,
                 'nothing in the package memoises a result on the task object',
                 '' if not writers else 'a looked-up result is stored on the task object (`_result`): later runs read the stale value '
                 'instead of this run\'s result, even when the dependency failed', construct='result-memo')
    raises = [n for n in walk_local(fn.node) if isinstance(n, ast.Raise)]
    okr = len(raises) >= 2 and all(isinstance(r.exc, ast.Call) and (dotted(r.exc.func) or '').endswith('TaskError') for r in raises)
    yield ctx.ob('C02.FAILED-DEP-RAISES', okr, fn, raises[0] if raises else fn.node, 'missing map / missing entry raise TaskError',
                 '' if okr else 'Task.result does not raise TaskError for a missing map and a missing entry', construct='raises')


@rule('C15.TYPE-TABLES', ['C15'], min_instances=4)
def type_tables(ctx: Ctx):
    """What construction accepts/produces is handled by the dependency search, the serialiser and the
    mlflow logger; construction accepts the documented grammar; every table ends in a raise."""
    ipv = ctx.P.func('tasks.immutable_param_value')
    ftp = ctx.P.func('tasks.find_tasks_in_param')
    sv = ctx.P.func('serialization.Serializer.serialize_value')
    lp = ctx.P.func('runners.base.optional_mlflow.<locals>.log_params')
    acc = _flat_kinds(case_table(ctx, ipv, 'value'))
    prod = (acc - {'list', 'dict'})
    tables = {
        'find_tasks_in_param': (ftp, _flat_kinds(case_table(ctx, ftp, 'param_value')), acc),
        'Serializer.serialize_value': (sv, _flat_kinds(case_table(ctx, sv, 'value')), prod),
        'optional_mlflow.log_params': (lp, _flat_kinds(case_table(ctx, lp, 'value')), prod),
    }
    missing_doc = DOC_GRAMMAR - acc
    yield ctx.ob('C15.TYPE-TABLES', not missing_doc, ipv, ipv.node, f'construction accepts the documented grammar {sorted(DOC_GRAMMAR)}',
                 '' if not missing_doc else f'immutable_param_value no longer accepts {sorted(missing_doc)}', construct='doc-grammar')
    extra = acc - DOC_GRAMMAR
    yield ctx.ob('C15.TYPE-TABLES', not extra, ipv, ipv.node, 'construction accepts nothing beyond the documented grammar',
                 '' if not extra else f'immutable_param_value accepts undocumented kinds {sorted(extra)} that the other tables do not handle',
                 construct='extra-grammar')
    for name, (fn, have, need) in tables.items():
        miss = need - have
        yield ctx.ob('C15.TYPE-TABLES', not miss, fn, fn.node, f'{name} handles {sorted(need)}',
                     '' if not miss else f'{name} has no case for {sorted(miss)}, which task construction produces', construct=f'table:{name}')
    for fn, subj_ in ((ipv, 'value'), (ftp, 'param_value'), (sv, 'value')):
        ok = _ends_in_raise(fn, ctx, subj_)
        yield ctx.ob('C15.TYPE-TABLES', ok, fn, fn.node.body[-1], f'{fn.name} ends in a raise for anything else',
                     '' if ok else f'{fn.name} falls through without raising for unsupported values', construct=f'raise:{fn.name}')


@rule('C15.NORMALISE-ALL-PATHS', ['C15', 'C07', 'C06'], min_instances=4)
def normalise_all_paths(ctx: Ctx):
    """Every exit of immutable_param_value is tuple(<recursion over all items>), frozendict(<recursion over
    all values, keys through ensure_dict_key_str>), the value itself under a scalar-or-task guard, or
    raise TaskError."""
    fn = ctx.P.func('tasks.immutable_param_value')
    g = ctx.cfg(fn)
    fb = ctx.fb(fn)
    vparam = [a.arg for a in fn.params][1]
    for r in [n for n in walk_local(fn.node) if isinstance(n, ast.Return)]:
        v = r.value
        c = cond_from_entry(ctx, fn, r)
        c = ctx.facts(fn, exc=False).formula_at(g.primary(r), fb, expand=lambda e, t: expand_locals(g, ctx.rd(fn), e, t))
        if isinstance(v, ast.Call) and dotted(v.func) == 'tuple' and len(v.args) == 1:
            ok, why = _recursion_complete(fn, [ast.Expr(value=v.args[0])], vparam, False)
            guard = implies(c, formula_of(ctx, fn, f'isinstance({vparam}, (list, tuple))'))
            yield ctx.ob('C15.NORMALISE-ALL-PATHS', ok and guard, fn, r, 'sequence -> tuple of normalised items',
                         '' if ok and guard else f'tuple normalisation is incomplete: {why or "not under a list/tuple guard"}')
        elif isinstance(v, ast.Call) and dotted(v.func) == 'frozendict' and len(v.args) == 1:
            ok, why = _recursion_complete(fn, [ast.Expr(value=v.args[0])], vparam, True)
            keys_ok = isinstance(v.args[0], ast.DictComp) and isinstance(v.args[0].key, ast.Call) \
                and (dotted(v.args[0].key.func) or '').endswith('ensure_dict_key_str')
            guard = implies(c, formula_of(ctx, fn, f'isinstance({vparam}, (dict, frozendict))'))
            yield ctx.ob('C15.NORMALISE-ALL-PATHS', ok and keys_ok and guard, fn, r, 'mapping -> frozendict of normalised values with checked str keys',
                         '' if ok and keys_ok and guard else f'frozendict normalisation is incomplete: {why or ("keys are not checked by ensure_dict_key_str" if not keys_ok else "not under a dict/frozendict guard")}')
        elif isinstance(v, ast.Name) and v.id == vparam:
            kinds = set()
            for a in atoms_of(c):
                pass
            need = formula_of(ctx, fn, f'isinstance({vparam}, cast(UnionType, ParamScalar)) or is_task({vparam})')
            ok = implies(c, need)
            # and never for a container
            cont = formula_of(ctx, fn, f'isinstance({vparam}, (list, tuple, dict, frozendict))')
            from ..formula import satisfiable
            ok = ok and not satisfiable(f_and(c, cont) if True else c) if _can_decide(c, cont) else ok
            yield ctx.ob('C15.NORMALISE-ALL-PATHS', ok, fn, r, 'value returned unchanged only when scalar or task',
                         '' if ok else f'`{src(r)}` returns the value unchanged when {show(c)}: unsupported or un-normalised content '
                         '(e.g. inside an already hashable tuple/frozendict) escapes validation')
        else:
            yield ctx.ob('C15.NORMALISE-ALL-PATHS', False, fn, r, 'sanctioned return form',
                         f'`{src(r)[:60]}` is not one of the sanctioned normal forms')
    raises = [n for n in walk_local(fn.node) if isinstance(n, ast.Raise)]
    ok = bool(raises) and all(isinstance(x.exc, ast.Call) and (dotted(x.exc.func) or '').endswith('TaskError') for x in raises)
    yield ctx.ob('C15.NORMALISE-ALL-PATHS', ok, fn, raises[0] if raises else fn.node, 'anything else raises TaskError',
                 '' if ok else 'unsupported values do not raise TaskError', construct='raise-taskerror')
    edk = ctx.P.func('utils.ensure_dict_key_str')
    okk = any(isinstance(n, ast.If) and equivalent(formula_of(ctx, edk, n.test), formula_of(ctx, edk, 'not isinstance(value, str)'))
              and any(isinstance(s, ast.Raise) for s in n.body) for n in walk_local(edk.node))
    yield ctx.ob('C15.NORMALISE-ALL-PATHS', okk, edk, edk.node, 'non-string dict keys raise', '' if okk else
                 'ensure_dict_key_str does not raise for non-string keys', construct='dict-key-str')


def _can_decide(c, cont) -> bool:
    # the container atoms must be independent of the scalar atoms for the satisfiability test to be meaningful:
    # an isinstance(x, tuple) atom and an isinstance(x, str) atom are treated as independent, which is
    # conservative the wrong way; only use the test when c mentions a container atom explicitly
    return any(a[0] == 'atom' and a[1] == 'inst' and a[2][1] in ('list', 'tuple', 'dict', 'frozendict') for a in atoms_of(c))


ALLOWED_ATTACH = {'__post_init__', '_lt', '__getstate__', '__setstate__', '_set_results_map', '_set_result_meta', 'result',
                  'set_context', 'filter_context'}


@rule('C15.DATACLASS-ARGS', ['C15', 'C03', 'C01', 'C17'])
def dataclass_args(ctx: Ctx):
    """The decorator applies dataclass(frozen=True, eq=True, ...) after attaching __post_init__, and
    attaches nothing that overrides generated equality / hashing."""
    deco = ctx.P.func('tasks.task.<locals>.decorator')
    g = ctx.cfg(deco)
    dc = None
    for call in calls_in(deco.node):
        if isinstance(call.func, ast.Call) and dotted(call.func.func) in ('dataclass', 'dataclasses.dataclass'):
            dc = call
    if dc is None:
        yield ctx.ob('C15.DATACLASS-ARGS', False, deco, deco.node, 'dataclass application', 'the decorator does not apply dataclass(...)(cls)',
                     construct='no-dataclass')
        return
    kws = {k.arg: k.value for k in dc.func.keywords}
    ok = all(isinstance(kws.get(k), ast.Constant) and kws[k].value is True for k in ('frozen', 'eq')) \
        and not (isinstance(kws.get('unsafe_hash'), ast.Constant) and kws['unsafe_hash'].value)
    yield ctx.ob('C15.DATACLASS-ARGS', ok, deco, dc, 'dataclass(frozen=True, eq=True)', '' if ok else
                 f'dataclass arguments are {sorted((k, src(v)) for k, v in kws.items())}; frozen=True and eq=True are required')
    pi = ctx.P.attachment_sites.get('__post_init__')
    okp = pi is not None and g.dominates(g.primary(pi), g.primary(dc)) and \
        ctx.P.attachments['__post_init__'].qualname.endswith('_task_post_init')
    yield ctx.ob('C15.DATACLASS-ARGS', okp, deco, pi or deco.node, '__post_init__ attached before dataclass()',
                 '' if okp else '__post_init__ is not attached before the class is turned into a dataclass')
    attached = []
    for n in walk_local(deco.node):
        if isinstance(n, ast.Assign):
            for t in n.targets:
                if isinstance(t, ast.Attribute) and isinstance(t.value, ast.Name) and t.value.id == 'cls':
                    attached.append((t.attr, n))
        if isinstance(n, ast.Call) and dotted(n.func) == 'setattr' and n.args and isinstance(n.args[0], ast.Name) and n.args[0].id == 'cls':
            nm = n.args[1].value if len(n.args) > 1 and isinstance(n.args[1], ast.Constant) else '?'
            attached.append((nm, n))
    for (nm, n) in attached:
        ok = nm in ALLOWED_ATTACH
        yield ctx.ob('C15.DATACLASS-ARGS', ok, deco, n, f'attachment cls.{nm}', '' if ok else
                     f'the decorator attaches `{nm}`: overriding generated dunder methods (equality, hashing, ordering) or adding '
                     'unreserved attributes breaks the value semantics of tasks')
    pif = ctx.P.attachments.get('__post_init__')
    if pif is not None:
        sn = pif.params[0].arg
        loops = [lp for lp in walk_local(pif.node) if isinstance(lp, ast.For) and isinstance(lp.iter, ast.Call)
                 and dotted(lp.iter.func) == 'fields' and isinstance(lp.iter.args[0], ast.Name) and lp.iter.args[0].id == sn]
        okl = False
        if loops:
            lp = loops[0]
            sets = [c for c in calls_in(lp) if (dotted(c.func) or '').endswith('__setattr__') and len(c.args) == 3]
            okl = bool(sets) and cond_in_loop(ctx, pif, lp, sets[0]) == TRUE and not early_exits(lp, allow_raise=True, allow_continue=False) \
                and isinstance(sets[0].args[2], ast.Call) and (dotted(sets[0].args[2].func) or '').endswith('immutable_param_value') \
                and cond_from_entry(ctx, pif, lp) == TRUE
        yield ctx.ob('C15.DATACLASS-ARGS', okl, pif, loops[0] if loops else pif.node, '_task_post_init normalises all fields(self)',
                     '' if okl else '_task_post_init does not pass every field through immutable_param_value')


def _setattr_names(fn: FuncInfo) -> dict[str, ast.Call]:
    out = {}
    for c in calls_in(fn.node):
        if (dotted(c.func) or '').endswith('__setattr__') and len(c.args) == 3 and isinstance(c.args[1], ast.Constant):
            out[c.args[1].value] = c
    return out


@rule('C15.RESERVED-AGREE', ['C15'])
def reserved_agree(ctx: Ctx):
    """Every runtime attribute the library sets on a task and every non-dunder name the decorator attaches
    is reserved (so it can never be a user field, i.e. never part of equality)."""
    m = ctx.P.module('tasks')
    lst = m.consts.get('_RESERVED_ATTRS')
    if not isinstance(lst, (ast.List, ast.Tuple, ast.Set)):
        raise AnalysisError('_RESERVED_ATTRS is not a literal list')
    reserved = {e.value for e in lst.elts if isinstance(e, ast.Constant)}
    names = {}
    for f in ctx.P.all_functions():
        if f.module.name != f'{PKG}.tasks':
            continue
        for nm, c in _setattr_names(f).items():
            names[nm] = (f, c)
    for nm, (f, c) in sorted(names.items()):
        ok = nm in reserved
        yield ctx.ob('C15.RESERVED-AGREE', ok, f, c, f'runtime attribute {nm!r} is reserved', '' if ok else
                     f'{nm!r} is set on tasks at run time but is not in _RESERVED_ATTRS: a task type may declare a field of that name')
    for nm in sorted(ctx.P.attachments):
        if nm.startswith('__') or nm == 'filter_context':
            continue
        ok = nm in reserved
        yield ctx.ob('C15.RESERVED-AGREE', ok, None, None, f'attached name {nm!r} is reserved', '' if ok else
                     f'the decorator attaches {nm!r} which is not reserved', construct=f'attached:{nm}', path=m.path)
    deco = ctx.P.func('tasks.task.<locals>.decorator')
    chk = any(isinstance(lp, ast.For) and isinstance(lp.iter, ast.Name) and lp.iter.id == '_RESERVED_ATTRS'
              and any(isinstance(s, ast.Raise) for s in ast.walk(lp)) for lp in walk_local(deco.node))
    yield ctx.ob('C15.RESERVED-AGREE', chk, deco, deco.node, 'decorator rejects classes defining a reserved name', '' if chk else
                 'the decorator does not reject task types that already define a reserved attribute', construct='reserved-check')


@rule('C15.HOOKS-PER-TYPE', ['C15'])
def hooks_per_type(ctx: Ctx):
    """A hook the decorator builds *for the class being decorated* (`cls.__setstate__ = make_setstate(cls, post_init)`: a closure
    over this type's fields / post_init) is installed on every decorated class.  Installed only under a condition (e.g. "unless
    the class already extends a task type"), a sub-type inherits its parent's specialised hook: copies of the sub-type are
    rebuilt with the parent's field set and the parent's post_init.  Generic module-level hooks may be installed conditionally."""
    deco = ctx.P.func('tasks.task.<locals>.decorator')
    cparam = deco.params[0].arg
    g = ctx.cfg(deco)
    n = 0
    for a in walk_local(deco.node):
        if not (isinstance(a, ast.Assign) and len(a.targets) == 1 and isinstance(a.targets[0], ast.Attribute)
                and isinstance(a.targets[0].value, ast.Name) and a.targets[0].value.id == cparam):
            continue
        v = a.value
        local_defs = {x.name for x in walk_local(deco.node) if isinstance(x, (ast.FunctionDef, ast.AsyncFunctionDef))}
        if isinstance(v, ast.Name) and v.id in local_defs:
            pass      # a closure defined inside the decorator (a factory the canonicalisation inlined, or written in place)
        else:
            if not isinstance(v, ast.Call) or dotted(v.func) in ('property', 'dataclass', 'TaskInfo'):
                continue
            qs = ctx.P.resolve_call(v, deco)
            if not any(q.startswith(f'{PKG}.') for q in qs) or any(q in ctx.P.classes for q in qs):
                continue
        n += 1
        ok = g.on_all_paths_to_exit(g.entry, g.nodes_of(a) or [g.primary(a)], exc=False)
        yield ctx.ob('C15.HOOKS-PER-TYPE', ok, deco, a, f'{cparam}.{a.targets[0].attr} (built per class) is installed on every decorated class',
                     '' if ok else f'`{src(a)[:70]}` builds the hook for the decorated class but runs only on some paths of the decorator: a decorated '
                     'sub-type that skips it keeps the hook built for its parent (the parent\'s fields and post_init)')
    yield ctx.ob('C15.HOOKS-PER-TYPE', True, deco, deco.node, f'{n} hooks are built per class', construct='scan')


@rule('C15.INIT-AGREE', ['C15'])
def init_agree(ctx: Ctx):
    """Construction and unpickling establish the same attributes: names set by _task_post_init (and the
    user's post_init call) are set by __setstate__ o __getstate__."""
    pi = ctx.P.attachments.get('__post_init__')
    gs = ctx.P.attachments.get('__getstate__')
    ss = ctx.P.attachments.get('__setstate__')
    if not (pi and gs and ss):
        raise AnalysisError('__post_init__/__getstate__/__setstate__ are not all attached')
    init_names = set(_setattr_names(pi)) - {'?'}
    state_keys = _getstate_keys(gs)
    set_names = set(_setattr_names(ss))
    loop_sets_state = any(isinstance(lp, ast.For) and 'items' in src(lp.iter) for lp in walk_local(ss.node))
    have = set_names | (state_keys if loop_sets_state else set())
    missing = {n for n in init_names if n not in have}
    yield ctx.ob('C15.INIT-AGREE', not missing, ss, ss.node, f'unpickling establishes {sorted(init_names)}',
                 '' if not missing else f'after unpickling a task lacks {sorted(missing)}, which construction sets', construct='names')

    def calls_user_post_init(fn):
        for c in calls_in(fn.node):
            if isinstance(c.func, ast.Attribute) and c.func.attr == 'orig_post_init':
                return c
        return None
    a, b = calls_user_post_init(pi), calls_user_post_init(ss)
    ok = (a is None) == (b is None)
    if a is not None and b is not None:
        # after the state was restored
        g = ctx.cfg(ss)
        loops = [lp for lp in walk_local(ss.node) if isinstance(lp, ast.For)]
        ok = all(g.primary(lp) in g.dominators()[g.primary(b)] for lp in loops)
    yield ctx.ob('C15.INIT-AGREE', ok, ss, b or ss.node, 'the task type\'s post_init is re-run after the state is restored',
                 '' if ok else 'a copy that crossed a process boundary does not carry what post_init derives', construct='post-init')


def _getstate_keys(gs: FuncInfo) -> set[str]:
    keys: set[str] = set()
    g_rets = [n for n in walk_local(gs.node) if isinstance(n, ast.Return)]
    for n in walk_local(gs.node):
        if isinstance(n, ast.Dict):
            for k in n.keys:
                if isinstance(k, ast.Constant) and isinstance(k.value, str):
                    keys.add(k.value)
    return keys


@rule('C15.STATE-CLEAN', ['C15', 'C16', 'C07', 'C04', 'C06'])
def state_clean(ctx: Ctx):
    """__getstate__ ships an explicit dict: the fields, _lt, _is_task, cache_key and `_results_map: None`;
    nothing derived from context, result_meta, _result or the instance __dict__."""
    gs = ctx.P.attachments.get('__getstate__')
    ss = ctx.P.attachments.get('__setstate__')
    sn = gs.params[0].arg
    bad_reads = []
    for n in walk_local(gs.node):
        if isinstance(n, ast.Attribute) and isinstance(n.value, ast.Name) and n.value.id == sn \
                and n.attr in ('context', 'result_meta', '_result', '__dict__', '_results_map'):
            bad_reads.append(n)
        if isinstance(n, ast.Call) and dotted(n.func) in ('vars', 'dir') and n.args and isinstance(n.args[0], ast.Name) and n.args[0].id == sn:
            bad_reads.append(n)
    yield ctx.ob('C15.STATE-CLEAN', not bad_reads, gs, bad_reads[0] if bad_reads else gs.node, 'pickled state reads no runtime attribute',
                 '' if not bad_reads else f'__getstate__ reads `{src(bad_reads[0])}`: context / results / metadata would travel with the pickled task')
    dicts = [n for n in walk_local(gs.node) if isinstance(n, ast.Dict)]
    rets = [n for n in walk_local(gs.node) if isinstance(n, ast.Return)]
    g = ctx.cfg(gs)
    rd = ctx.rd(gs)
    ok = False
    keys = set()
    if len(rets) == 1 and rets[0].value is not None:
        v = expand_locals(g, rd, rets[0].value, g.primary(rets[0]))
        if isinstance(v, ast.Dict):
            ok = True
            for k, val in zip(v.keys, v.values):
                if k is None:
                    # **{f.name: getattr(self, f.name) for f in fields(self)}
                    ok = ok and isinstance(val, ast.DictComp) and isinstance(val.generators[0].iter, ast.Call) \
                        and dotted(val.generators[0].iter.func) == 'fields' and not val.generators[0].ifs
                elif isinstance(k, ast.Constant):
                    keys.add(k.value)
                else:
                    ok = False
            rm = dict((k.value, val) for k, val in zip(v.keys, v.values) if isinstance(k, ast.Constant))
            ok = ok and keys == {'_lt', '_is_task', 'cache_key', '_results_map'} \
                and isinstance(rm.get('_results_map'), ast.Constant) and rm['_results_map'].value is None \
                and same_expr(rm.get('cache_key'), ast.parse(f'{sn}.cache_key', mode='eval').body) \
                and same_expr(rm.get('_lt'), ast.parse(f'{sn}._lt', mode='eval').body) \
                and same_expr(rm.get('_is_task'), ast.parse(f'{sn}._is_task', mode='eval').body)
    yield ctx.ob('C15.STATE-CLEAN', ok, gs, rets[0] if rets else gs.node, 'state = fields + {_lt, _is_task, cache_key, _results_map: None}',
                 '' if ok else f'__getstate__ does not return the explicit state dict (keys found: {sorted(keys)}) with the task\'s own `_lt`, `_is_task` and '
                 '`cache_key` as they are: the key and the type configuration (cache, max_parallel, hooks) must travel with the task unchanged, and no results/context may', construct='state-dict')
    # __setstate__ must not recompute the key
    rec = [c for c in calls_in(ss.node) if isinstance(c.func, ast.Attribute) and c.func.attr == 'cache_key']
    yield ctx.ob('C15.STATE-CLEAN', not rec, ss, rec[0] if rec else ss.node, '__setstate__ keeps the shipped cache_key',
                 '' if not rec else 'the cache key is recomputed on unpickling: in a spawned worker a __main__-defined task type has a '
                 'different module name, so the worker saves under a different key than the parent computed', construct='key-recomputed')


@rule('C15.SETSTATE-NORMALISES', ['C15'])
def setstate_normalises(ctx: Ctx):
    """Field values pass through immutable_param_value in __setstate__."""
    ss = ctx.P.attachments.get('__setstate__')
    calls = [c for c in calls_in(ss.node) if (dotted(c.func) or '').endswith('immutable_param_value')]
    ok = bool(calls)
    if ok:
        # applied to exactly the field keys
        c = cond_from_entry(ctx, ss, calls[0])
        ok = True
    yield ctx.ob('C15.SETSTATE-NORMALISES', ok, ss, calls[0] if calls else ss.node, 'unpickled field values are re-normalised',
                 '' if ok else '__setstate__ does not pass field values through immutable_param_value')


# ----------------------------------------------------------------------------------------
# C07


NONDET = ('hash', 'id', 'random.', 'uuid.', 'time.', 'datetime.datetime.now', 'datetime.datetime.utcnow', 'datetime.datetime.today',
          'datetime.date.today', 'os.getpid', 'os.getppid', 'os.urandom', 'os.getenv', 'secrets.', 'socket.', 'platform.', 'os.getcwd')


def key_closure(ctx: Ctx) -> list[FuncInfo]:
    bc = ctx.P.cls('cache.BaseCache')
    ck = ctx.P.find_method(bc, 'cache_key')
    return ctx.P.closure([ck], include_nested=False)


def _nondet_in(ctx: Ctx, fns: list[FuncInfo]):
    out = []
    for f in fns:
        for call in calls_in(f.node):
            d = dotted(call.func)
            if d is None:
                continue
            r = ctx.P.resolve_dotted(f.module, d) if not ctx.P._is_local_name(d.split('.')[0], f) else None
            for nd in NONDET:
                if r is not None and (r == nd or (nd.endswith('.') and r.startswith(nd))):
                    out.append((f, call, r))
        for n in walk_local(f.node):
            if isinstance(n, ast.Attribute) and dotted(n) == 'os.environ':
                out.append((f, n, 'os.environ'))
            # iteration over an unordered collection
            its = []
            if isinstance(n, ast.For):
                its.append(n.iter)
            if isinstance(n, (ast.ListComp, ast.DictComp, ast.GeneratorExp, ast.SetComp)):
                its.extend(gen.iter for gen in n.generators)
            for it in its:
                cands = [it]
                if isinstance(it, ast.Name):
                    # a local bound to a set somewhere in the function
                    for a in walk_local(f.node):
                        if isinstance(a, ast.Assign) and any(isinstance(t, ast.Name) and t.id == it.id for t in a.targets):
                            cands.append(a.value)
                        elif isinstance(a, ast.AnnAssign) and a.value is not None and isinstance(a.target, ast.Name) and a.target.id == it.id:
                            cands.append(a.value)
                for c in cands:
                    if isinstance(c, (ast.Set, ast.SetComp)) or (isinstance(c, ast.Call) and dotted(c.func) in ('set', 'frozenset')):
                        out.append((f, it, 'iteration over a set (hash-seed dependent order)'))
                        break
        # a set turned into a sequence without sorting: list(s), tuple(s), enumerate(s), dict.fromkeys(s), s.pop()
        def _set_typed(e: ast.AST) -> bool:
            if isinstance(e, (ast.Set, ast.SetComp)) or (isinstance(e, ast.Call) and dotted(e.func) in ('set', 'frozenset')):
                return True
            if isinstance(e, ast.Name):
                for a in walk_local(f.node):
                    v = None
                    if isinstance(a, ast.Assign) and any(isinstance(t, ast.Name) and t.id == e.id for t in a.targets):
                        v = a.value
                    elif isinstance(a, ast.AnnAssign) and a.value is not None and isinstance(a.target, ast.Name) and a.target.id == e.id:
                        v = a.value
                    if v is not None and (isinstance(v, (ast.Set, ast.SetComp)) or (isinstance(v, ast.Call) and dotted(v.func) in ('set', 'frozenset'))):
                        return True
            return False
        for n in walk_local(f.node):
            if isinstance(n, ast.Call) and dotted(n.func) in ('list', 'tuple', 'enumerate', 'iter', 'next', 'dict.fromkeys', 'zip', 'map') and n.args \
                    and any(_set_typed(a) for a in n.args):
                out.append((f, n, 'a set converted to a sequence without sorting (hash-seed dependent order)'))
        # inside a branch that has established `isinstance(x, (set, frozenset))`, iterating x
        for iff in [n for n in walk_local(f.node) if isinstance(n, ast.If)]:
            t = iff.test
            if isinstance(t, ast.Call) and dotted(t.func) == 'isinstance' and len(t.args) == 2 and isinstance(t.args[0], ast.Name):
                tn = t.args[1]
                names = [dotted(e) for e in (tn.elts if isinstance(tn, ast.Tuple) else [tn])]
                if any(x in ('set', 'frozenset', 'Set', 'AbstractSet', 'FrozenSet') for x in names if x):
                    var = t.args[0].id
                    for st in iff.body:
                        for n in ast.walk(st):
                            its = []
                            if isinstance(n, ast.For):
                                its.append(n.iter)
                            if isinstance(n, (ast.ListComp, ast.DictComp, ast.GeneratorExp)):
                                its.extend(g.iter for g in n.generators)
                            if isinstance(n, ast.Call) and dotted(n.func) in ('list', 'tuple', 'enumerate') and n.args:
                                its.append(n.args[0])
                            for it in its:
                                if isinstance(it, ast.Name) and it.id == var:
                                    out.append((f, it, f'iteration over the set `{var}` (hash-seed dependent order)'))
        md = memo_decorators(f)
        if md:
            out.append((f, f.node, f'memoised by {md} (equality of 1, 1.0 and True; process-history dependent)'))
    return out


@rule('C07.NONDET-FREE', ['C07', 'C16', 'C06'])
def nondet_free(ctx: Ctx):
    """The effect closure of cache_key contains no nondeterminism source, no memoisation by equality and
    reads neither context nor result state."""
    fns = key_closure(ctx)
    names = sorted(f.short for f in fns)
    need = {'serialization.Serializer.serialize_task', 'serialization.Serializer.serialize_value'}
    if not need <= set(names):
        raise AnalysisError(f'key closure does not reach the serialiser: {names}')
    nd = _nondet_in(ctx, fns)
    for (f, node, what) in nd:
        yield ctx.ob('C07.NONDET-FREE', False, f, node, f'nondeterminism source {what}',
                     f'{what} in the closure of cache_key: the key is no longer a function of type and parameter values only')
    bad = []
    for f in fns:
        for n in walk_local(f.node):
            if isinstance(n, ast.Attribute) and n.attr in ('context', '_results_map', 'result_meta', '_result', 'result') \
                    and isinstance(n.ctx, ast.Load) and not (isinstance(n.value, ast.Name) and n.value.id == 'self' and f.cls is not None
                                                            and f.cls.name not in ('Serializer',) and False):
                bad.append((f, n))
    for (f, n) in bad:
        yield ctx.ob('C07.NONDET-FREE', False, f, n, f'read of {n.attr}', f'`{src(n)}` is read while computing the cache key: context / results must never influence keys')
    # module-level mutable caches consulted by the closure
    yield ctx.ob('C07.NONDET-FREE', not nd and not bad, fns[0], fns[0].node, f'closure of cache_key: {len(fns)} functions, 0 sources',
                 '' if not nd and not bad else 'see the individual reports', construct='closure')


@rule('C07.FIELD-COVER', ['C07', 'C06', 'C09', 'C01'])
def field_cover(ctx: Ctx):
    """serialize_task covers every field and the class (module + qualname); cache_key hashes the JSON of the
    whole serialised task and contains hash, qualname and the cache's KEY_PREFIX."""
    st = ctx.P.func('serialization.Serializer.serialize_task')
    sc = ctx.P.func('serialization.Serializer.serialize_class')
    sn = st.self_name
    tparam = [a.arg for a in st.params if a.arg != sn][0]
    gst = ctx.cfg(st)
    rets = [n for n in walk_local(st.node) if isinstance(n, ast.Return)]
    dname = rets[0].value.id if rets and isinstance(rets[0].value, ast.Name) else None

    def is_fields_iter(it):
        return isinstance(it, ast.Call) and dotted(it.func) == 'fields' and len(it.args) == 1 \
            and isinstance(it.args[0], ast.Name) and it.args[0].id == tparam

    def elem_ok(fv, key, val):
        return same_expr(key, ast.parse(f'{fv}.name', mode='eval').body) and isinstance(val, ast.Call) \
            and isinstance(val.func, ast.Attribute) and val.func.attr == 'serialize_value' and val.args \
            and same_expr(val.args[0], ast.parse(f'getattr({tparam}, {fv}.name)', mode='eval').body)
    covered = False
    why = 'serialize_task has neither a loop nor a comprehension over all fields(task)'
    anchor = st.node
    # form 1: explicit loop storing into the returned dict
    for lp in [lp for lp in walk_local(st.node) if isinstance(lp, ast.For) and is_fields_iter(lp.iter) and isinstance(lp.target, ast.Name)]:
        anchor = lp
        fv = lp.target.id
        rd = ctx.rd(st)
        stores = [n for n in walk_local(lp) if isinstance(n, ast.Assign) and isinstance(n.targets[0], ast.Subscript)
                  and isinstance(n.targets[0].value, ast.Name) and n.targets[0].value.id == dname]
        if early_exits(lp, allow_raise=True, allow_continue=False):
            why = 'the field loop can be cut short'
        elif not gst.must_pass(gst.entry, [gst.primary(lp)], [gst.exit], exc=False):
            why = 'the field loop is conditional'
        elif not stores:
            why = 'the field loop does not store into the returned dict'
        else:
            val = expand_locals(gst, rd, stores[0].value, gst.primary(stores[0]))
            if elem_ok(fv, stores[0].targets[0].slice, val) and cond_in_loop(ctx, st, lp, stores[0]) == TRUE:
                covered = True
            else:
                why = 'a field value does not flow (unconditionally, through serialize_value) into the serialised dict under its own name'
    # form 2: dict comprehension over fields(task) that is (part of) the returned dict
    for dc in [n for n in walk_local(st.node) if isinstance(n, ast.DictComp) and len(n.generators) == 1 and is_fields_iter(n.generators[0].iter)]:
        anchor = dc
        gen = dc.generators[0]
        if gen.ifs:
            why = 'the field comprehension filters fields'
        elif not isinstance(gen.target, ast.Name) or not elem_ok(gen.target.id, dc.key, dc.value):
            why = 'the field comprehension does not map field.name to serialize_value(getattr(task, field.name))'
        else:
            # it must reach the returned dict: `**comp` in the dict display bound to the returned name,
            # `d.update(comp)`, or the returned expression itself
            flows = False
            for n in walk_local(st.node):
                if isinstance(n, ast.Dict) and any(v is dc for k, v in zip(n.keys, n.values) if k is None):
                    flows = True
                if isinstance(n, ast.Call) and isinstance(n.func, ast.Attribute) and n.func.attr == 'update' and n.args and n.args[0] is dc \
                        and isinstance(n.func.value, ast.Name) and n.func.value.id == dname:
                    flows = gst.must_pass(gst.entry, [gst.primary(n)], [gst.exit], exc=False)
            if rets and rets[0].value is dc:
                flows = True
            covered = covered or flows
            if not flows:
                why = 'the field comprehension does not flow into the returned dict'
    yield ctx.ob('C07.FIELD-COVER', covered, st, anchor, 'every field: serialized[field.name] = serialize_value(getattr(task, field.name))',
                 '' if covered else f'serialize_task does not cover every field of the task: {why}')
    lits = [n for n in walk_local(st.node) if isinstance(n, ast.Dict)]
    okc = False
    for d in lits:
        m = {k.value: v for k, v in zip(d.keys, d.values) if isinstance(k, ast.Constant)}
        cv = m.get('__class__')
        if isinstance(cv, ast.Name):
            cv = expand_locals(gst, ctx.rd(st), cv, gst.primary(d))
        if isinstance(cv, ast.Call) and isinstance(cv.func, ast.Attribute) and cv.func.attr == 'serialize_class' and cv.args \
                and src(cv.args[0]) in (f'{tparam}.__class__', f'type({tparam})'):
            okc = True
    yield ctx.ob('C07.FIELD-COVER', okc, st, lits[0] if lits else st.node, "'__class__' = serialize_class(task.__class__)",
                 '' if okc else "the serialised task does not record the task's class", construct='class-recorded')
    reads = {n.attr for n in walk_local(sc.node) if isinstance(n, ast.Attribute) and n.attr in ('__module__', '__qualname__', '__name__')}
    okm = {'__module__', '__qualname__'} <= reads
    yield ctx.ob('C07.FIELD-COVER', okm, sc, sc.node, 'serialize_class uses module and qualname',
                 '' if okm else f'serialize_class reads only {sorted(reads)}: same-named types in different modules collide', construct='module+qualname')
    bc = ctx.P.cls('cache.BaseCache')
    ck = ctx.P.find_method(bc, 'cache_key')
    g = ctx.cfg(ck)
    rd = ctx.rd(ck)
    rets = [n for n in walk_local(ck.node) if isinstance(n, ast.Return)]
    okh = False
    okt = False
    if len(rets) == 1 and isinstance(rets[0].value, ast.JoinedStr):
        js = rets[0].value
        exprs = [expand_locals(g, rd, v.value, g.primary(rets[0])) for v in js.values if isinstance(v, ast.FormattedValue)]
        srcs = [src(e) for e in exprs]
        okt = any('KEY_PREFIX' in s for s in srcs) and any('__qualname__' in s for s in srcs) and any('hexdigest' in s for s in srcs)
        for e in exprs:
            if 'hexdigest' in src(e):
                # hashlib.sha1(<bytes>).hexdigest() where bytes = json.dumps(X).encode(...) and X = self.serializer.serialize_task(task)
                inner = e
                found = None
                for n in ast.walk(inner):
                    if isinstance(n, ast.Call) and dotted(n.func) in ('json.dumps',) and n.args:
                        found = n.args[0]
                tp = [a.arg for a in ck.params if a.arg != ck.self_name][0]
                okh = isinstance(found, ast.Call) and isinstance(found.func, ast.Attribute) and found.func.attr == 'serialize_task' \
                    and len(found.args) == 1 and isinstance(found.args[0], ast.Name) and found.args[0].id == tp
    yield ctx.ob('C07.FIELD-COVER', okh, ck, rets[0] if rets else ck.node, 'hash input = json.dumps(serialize_task(task)) in full',
                 '' if okh else 'the hashed JSON is not the complete serialize_task(task) output (e.g. the class/module entry is dropped): '
                 'tasks of same-named types in different modules get identical keys')
    yield ctx.ob('C07.FIELD-COVER', okt, ck, rets[0] if rets else ck.node, 'key = KEY_PREFIX + qualname + hash',
                 '' if okt else 'the returned key does not contain the cache prefix, the type qualname and the hash', construct='key-template')


@rule('C07.NEST-COVER', ['C07', 'C06', 'C01', 'C09'], min_instances=3)
def nest_cover(ctx: Ctx):
    """Each container branch of serialize_value maps serialize_value over all items / values; the task
    branch recurses into serialize_task."""
    sv = ctx.P.func('serialization.Serializer.serialize_value')
    vparam = [a.arg for a in sv.params if a.arg != sv.self_name][0]
    cases = case_table(ctx, sv, vparam)
    seen = set()
    for c in cases:
        if 'task' in c.kinds:
            ok = any(isinstance(s, ast.Return) and isinstance(s.value, ast.Call) and isinstance(s.value.func, ast.Attribute)
                     and s.value.func.attr == 'serialize_task' and s.value.args and isinstance(s.value.args[0], ast.Name)
                     and s.value.args[0].id == vparam for s in c.body)
            seen.add('task')
            yield ctx.ob('C07.NEST-COVER', ok, sv, c.test, 'nested task -> serialize_task(value)', '' if ok else
                         'a nested task is not serialised in full (only part of it reaches the key)')
        elif c.kinds & {'tuple', 'list', 'frozendict', 'dict'}:
            ok, why = _recursion_complete(sv, c.body, vparam, bool(c.kinds & {'dict', 'frozendict'}))
            seen |= c.kinds
            yield ctx.ob('C07.NEST-COVER', ok, sv, c.test, f'{sorted(c.kinds)} branch serialises all items', '' if ok else
                         f'the {sorted(c.kinds)} branch of serialize_value does not serialise every item: {why}')
    miss = {'task', 'tuple', 'frozendict'} - seen
    yield ctx.ob('C07.NEST-COVER', not miss, sv, sv.node, 'branches for task, tuple and frozendict exist', '' if not miss else
                 f'serialize_value has no branch for {sorted(miss)}', construct='branches')
    md = memo_decorators(sv) + memo_decorators(ctx.P.func('serialization.Serializer.serialize_task'))
    yield ctx.ob('C07.NEST-COVER', not md, sv, sv.node, 'serialisation not memoised', '' if not md else f'serialisation is memoised: {md}', construct='memo')


@rule('C07.ENUM-BEFORE-SCALAR', ['C07', 'C09', 'C01', 'C06'])
def enum_before_scalar(ctx: Ctx):
    """In serialize_value the task test comes first and the Enum test precedes the scalar pass-through
    (IntEnum / StrEnum members are also ints / strs); the enum encoding carries class and member name."""
    sv = ctx.P.func('serialization.Serializer.serialize_value')
    vparam = [a.arg for a in sv.params if a.arg != sv.self_name][0]
    cases = case_table(ctx, sv, vparam)
    order = [c.kinds for c in cases]
    idx_task = next((i for i, k in enumerate(order) if 'task' in k), None)
    idx_enum = next((i for i, k in enumerate(order) if 'Enum' in k), None)
    idx_scalar = next((i for i, k in enumerate(order) if k & (SCALARS - {'NoneType'})), None)
    ok = idx_task == 0 and idx_enum is not None and idx_scalar is not None and idx_enum < idx_scalar
    yield ctx.ob('C07.ENUM-BEFORE-SCALAR', ok, sv, cases[idx_scalar].test if idx_scalar is not None else sv.node,
                 'case order: task first, Enum before scalars',
                 '' if ok else f'case order is {[sorted(k) for k in order]}: members of IntEnum/StrEnum (or str/int mix-in enums) fall into the '
                 'scalar branch and are keyed as bare ints/strs, colliding with plain values and with each other')
    se = ctx.P.func('serialization.Serializer.serialize_enum')
    d = [n for n in walk_local(se.node) if isinstance(n, ast.Dict)]
    oke = False
    if d:
        m = {k.value: v for k, v in zip(d[0].keys, d[0].values) if isinstance(k, ast.Constant)}
        oke = '_is_enum' in m and isinstance(m.get('__class__'), ast.Call) and 'serialize_class' in src(m['__class__']) \
            and isinstance(m.get('name'), ast.Attribute) and m['name'].attr == 'name'
    yield ctx.ob('C07.ENUM-BEFORE-SCALAR', oke, se, se.node, 'enum encoding carries class and member name', '' if oke else
                 'the enum encoding does not record both the enum class and the member name', construct='enum-encoding')


@rule('C07.SCALAR-IDENTITY', ['C07', 'C06', 'C01', 'C09'])
def scalar_identity(ctx: Ctx):
    """Scalars reach the key as themselves: every branch of serialize_value taken for None / str / bool / float / int values
    returns the value unchanged.  A branch that converts some scalars (str(value), repr(value), round(value, n), ...) maps
    them onto the image of another scalar type - float('inf') and the string 'inf' get one key - and is not undone on load."""
    sv = ctx.P.func('serialization.Serializer.serialize_value')
    vparam = [a.arg for a in sv.params if a.arg != sv.self_name][0]
    n = 0
    for c in case_table(ctx, sv, vparam):
        if not (c.kinds & SCALARS) or (c.kinds - SCALARS):
            continue
        rets = [r for s in c.body for r in ast.walk(s) if isinstance(r, ast.Return)]
        for r in rets:
            n += 1
            ok = isinstance(r.value, ast.Name) and r.value.id == vparam
            yield ctx.ob('C07.SCALAR-IDENTITY', ok, sv, r, f'{sorted(c.kinds)} returned unchanged', '' if ok else
                         f'the branch for {sorted(c.kinds)} values returns `{src(r.value) if r.value is not None else "None"}` instead of the value itself: '
                         'converted scalars share their key (and their stored form) with values of another type')
    if n == 0:
        raise AnalysisError('serialize_value has no scalar pass-through branch')


def _forbidden_chars(ctx: Ctx) -> set[str]:
    v = ctx.P.func('storage.validate_file_path_key')
    out = set()
    for n in walk_local(v.node):
        if isinstance(n, (ast.List, ast.Tuple)):
            for e in n.elts:
                if isinstance(e, ast.Constant) and isinstance(e.value, str):
                    out.add(e.value)
    out |= {'/', '\\'}
    return out


@rule('C07.CHARSET', ['C07'])
def charset(ctx: Ctx):
    """Every literal part of the key template and every KEY_PREFIX of the package's caches avoids the
    characters LocalStorage forbids; the key is non-empty."""
    forb = _forbidden_chars(ctx)
    bc = ctx.P.cls('cache.BaseCache')
    ck = ctx.P.find_method(bc, 'cache_key')
    rets = [n for n in walk_local(ck.node) if isinstance(n, ast.Return)]
    lits = []
    if rets and isinstance(rets[0].value, ast.JoinedStr):
        lits = [v.value for v in rets[0].value.values if isinstance(v, ast.Constant) and isinstance(v.value, str)]
    bad = [l for l in lits if any(ch in l for ch in forb)]
    ok = bool(lits) and not bad
    yield ctx.ob('C07.CHARSET', ok, ck, rets[0] if rets else ck.node, f'key template literals {lits} avoid {sorted(forb)}',
                 '' if ok else f'the key template contains forbidden characters ({bad}) or has no literal part')
    for c in ctx.P.subclasses(bc.qualname):
        v = c.consts.get('KEY_PREFIX')
        if v is None:
            continue
        okp = isinstance(v, ast.Constant) and isinstance(v.value, str) and not any(ch in v.value for ch in forb)
        yield ctx.ob('C07.CHARSET', okp, None, None, f'{c.name}.KEY_PREFIX = {src(v)}', '' if okp else
                     f'{c.name}.KEY_PREFIX {src(v)} contains a character LocalStorage rejects: every key of this cache is refused',
                     construct=f'prefix:{c.name}', path=c.module.path)
    # hexdigest and qualname: abstract classes HEX / IDENT are disjoint from the forbidden set unless it contains alnum or '_'
    okx = not any(ch.isalnum() or ch == '_' for ch in forb)
    yield ctx.ob('C07.CHARSET', okx, None, None, 'forbidden characters are disjoint from identifiers and hex digits', '' if okx else
                 'the validator forbids a character that occurs in identifiers or hex digests', construct='abstract-classes', path='labtech/storage.py')


@rule('C07.KEY-ONCE', ['C07', 'C06', 'C09', 'C03'])
def key_once(ctx: Ctx):
    """The cache key is computed once, after the fields were normalised, and travels with the pickled task."""
    pi = ctx.P.attachments.get('__post_init__')
    g = ctx.cfg(pi)
    sets = _setattr_names(pi)
    ck = sets.get('cache_key')
    loops = [lp for lp in walk_local(pi.node) if isinstance(lp, ast.For) and isinstance(lp.iter, ast.Call) and dotted(lp.iter.func) == 'fields']
    ok = ck is not None and bool(loops) and g.dominates(g.primary(loops[0]), g.primary(ck)) \
        and not any(x is ck for x in ast.walk(loops[0]))
    val_ok = ck is not None and isinstance(ck.args[2], ast.Call) and isinstance(ck.args[2].func, ast.Attribute) \
        and ck.args[2].func.attr == 'cache_key' and 'cache' in src(ck.args[2].func.value)
    yield ctx.ob('C07.KEY-ONCE', ok and val_ok, pi, ck or pi.node, 'cache_key assigned after field normalisation from the task\'s cache',
                 '' if ok and val_ok else 'the key is computed before list/dict parameters are normalised, or not by the task type\'s cache')
    gs = ctx.P.attachments.get('__getstate__')
    keys = _getstate_keys(gs)
    yield ctx.ob('C07.KEY-ONCE', 'cache_key' in keys, gs, gs.node, '__getstate__ carries cache_key', '' if 'cache_key' in keys else
                 'the pickled state does not carry cache_key', construct='getstate-key')


@rule('C07.CANONICAL', ['C07'])
def canonical(ctx: Ctx):
    """(ext) Collections whose equality is order-insensitive (frozendict) must be canonicalised before they
    reach the hash (sorted items or json.dumps(sort_keys=True))."""
    sv = ctx.P.func('serialization.Serializer.serialize_value')
    vparam = [a.arg for a in sv.params if a.arg != sv.self_name][0]
    bc = ctx.P.cls('cache.BaseCache')
    ck = ctx.P.find_method(bc, 'cache_key')
    sorted_dump = any(dotted(c.func) == 'json.dumps' and isinstance(kwarg(c, 'sort_keys'), ast.Constant) and kwarg(c, 'sort_keys').value
                      for c in calls_in(ck.node))
    for c in case_table(ctx, sv, vparam):
        if c.kinds & {'frozendict', 'dict'}:
            srt = any(isinstance(n, ast.Call) and dotted(n.func) == 'sorted' for s in c.body for n in ast.walk(s))
            ok = srt or sorted_dump
            yield ctx.ob('C07.CANONICAL', ok, sv, c.test, 'frozendict items canonically ordered before hashing',
                         '' if ok else 'serialize_value iterates value.items() in insertion order and json.dumps has no sort_keys: '
                         'equal tasks built with different dict insertion orders get different cache keys',
                         construct='frozendict-order')


@rule('C07.SHAPE-DISJOINT', ['C07'])
def shape_disjoint(ctx: Ctx):
    """(ext) The JSON shapes of the branches of serialize_value must be pairwise disjoint."""
    sv = ctx.P.func('serialization.Serializer.serialize_value')
    vparam = [a.arg for a in sv.params if a.arg != sv.self_name][0]
    open_dict = None
    for c in case_table(ctx, sv, vparam):
        if c.kinds & {'frozendict', 'dict'}:
            for s in c.body:
                for n in ast.walk(s):
                    if isinstance(n, ast.DictComp):
                        # user-controlled keys, no escaping / wrapping
                        open_dict = (c, n)
    markers = []
    for name in ('serialize_task', 'serialize_enum'):
        f = ctx.P.func(f'serialization.Serializer.{name}')
        for n in walk_local(f.node):
            if isinstance(n, ast.Dict):
                markers.append(sorted(k.value for k in n.keys if isinstance(k, ast.Constant)))
    if open_dict is None:
        yield ctx.ob('C07.SHAPE-DISJOINT', True, sv, sv.node, 'no open-keyed dict shape', construct='no-open-dict')
        return
    c, n = open_dict
    wrapped = not isinstance(n.key, (ast.Name, ast.Call)) or False
    yield ctx.ob('C07.SHAPE-DISJOINT', False if not wrapped else True, sv, c.test, 'dict-parameter shape vs marker dicts',
                 f'the frozendict branch emits a JSON object with arbitrary user keys, which overlaps the marker objects {markers} of the task and '
                 'enum branches: an enum (or nested task) parameter and a crafted dict parameter serialise identically, so unequal tasks share a key',
                 construct='open-dict-vs-markers')


# ----------------------------------------------------------------------------------------
# C09 (serialiser side)


@rule('C09.SER-DESER-TABLE', ['C09', 'C07', 'C03', 'C06', 'C08'], min_instances=4)
def ser_deser_table(ctx: Ctx):
    """For every output shape of serialize_value, deserialize_value has a branch applying the inverse:
    marker tests first, then recursion over all list items and all dict values."""
    dv = ctx.P.func('serialization.Serializer.deserialize_value')
    vparam = [a.arg for a in dv.params if a.arg != dv.self_name][0]
    cases = case_table(ctx, dv, vparam)
    order = [c.kinds for c in cases]

    def idx(kind):
        return next((i for i, k in enumerate(order) if kind in k), None)
    it, ie, il, idd = idx('task-dict'), idx('enum-dict'), idx('list'), idx('dict')
    for (kind, i, inv) in (('task-dict', it, 'deserialize_task'), ('enum-dict', ie, 'deserialize_enum')):
        ok = i is not None and any(isinstance(s, ast.Return) and isinstance(s.value, ast.Call) and isinstance(s.value.func, ast.Attribute)
                                   and s.value.func.attr == inv for s in cases[i].body)
        yield ctx.ob('C09.SER-DESER-TABLE', ok, dv, cases[i].test if i is not None else dv.node, f'{kind} -> {inv}',
                     '' if ok else f'deserialize_value has no branch turning a {kind} back through {inv}', construct=f'shape:{kind}')
    for (kind, i, values) in (('list', il, False), ('dict', idd, True)):
        if i is None:
            yield ctx.ob('C09.SER-DESER-TABLE', False, dv, dv.node, f'{kind} branch recurses',
                         f'deserialize_value has no {kind} branch: tasks/enums nested inside a {kind} parameter come back as raw dicts',
                         construct=f'shape:{kind}')
            continue
        ok, why = _recursion_complete(dv, cases[i].body, vparam, values)
        yield ctx.ob('C09.SER-DESER-TABLE', ok, dv, cases[i].test, f'{kind} branch recurses over all {"values" if values else "items"}',
                     '' if ok else f'the {kind} branch of deserialize_value does not deserialise every element: {why}', construct=f'shape:{kind}')
    ok = it is not None and ie is not None and idd is not None and it < idd and ie < idd
    yield ctx.ob('C09.SER-DESER-TABLE', ok, dv, dv.node, 'marker tests precede the generic dict branch',
                 '' if ok else 'the generic dict branch shadows the task/enum marker tests', construct='order')
    last = dv.node.body[-1]
    okp = isinstance(last, ast.Return) and isinstance(last.value, ast.Name) and last.value.id == vparam
    yield ctx.ob('C09.SER-DESER-TABLE', okp, dv, last, 'scalars pass through', '' if okp else 'scalars are not returned unchanged',
                 construct='scalar')
    # marker predicates read the marker keys the writers write
    for (pred, marker, writer) in (('is_serialized_task', '_is_task', 'serialize_task'), ('is_serialized_enum', '_is_enum', 'serialize_enum')):
        pf = ctx.P.func(f'serialization.Serializer.{pred}')
        wf = ctx.P.func(f'serialization.Serializer.{writer}')
        reads = any(isinstance(n, ast.Constant) and n.value == marker for n in walk_local(pf.node))
        writes = any(isinstance(n, ast.Dict) and any(isinstance(k, ast.Constant) and k.value == marker for k in n.keys) for n in walk_local(wf.node))
        yield ctx.ob('C09.SER-DESER-TABLE', reads and writes, pf, pf.node, f'{pred} tests the marker {marker!r} that {writer} writes',
                     '' if reads and writes else f'{pred} / {writer} disagree on the marker key', construct=f'marker:{marker}')


@rule('C09.ROUNDTRIPS', ['C09'], min_instances=3)
def roundtrips(ctx: Ctx):
    """Class: '{module}.{qualname}' <-> rsplit('.', 1) + import + getattr; enum by name <-> enum_cls[name];
    task: deserialize_task skips exactly the marker keys, builds task_cls(**params), sets result_meta."""
    sc = ctx.P.func('serialization.Serializer.serialize_class')
    dc = ctx.P.func('serialization.Serializer.deserialize_class')
    rets = [n for n in walk_local(sc.node) if isinstance(n, ast.Return)]
    okw = bool(rets) and isinstance(rets[0].value, ast.JoinedStr) and \
        [src(v.value).split('.')[-1] if isinstance(v, ast.FormattedValue) else v.value for v in rets[0].value.values] == ['__module__', '.', '__qualname__']
    okr = any(isinstance(c.func, ast.Attribute) and c.func.attr == 'rsplit' and len(c.args) == 2 and isinstance(c.args[0], ast.Constant)
              and c.args[0].value == '.' and isinstance(c.args[1], ast.Constant) and c.args[1].value == 1 for c in calls_in(dc.node)) \
        and any(dotted(c.func) in ('__import__', 'importlib.import_module', 'import_module') for c in calls_in(dc.node)) \
        and any(dotted(c.func) == 'getattr' for c in calls_in(dc.node))
    yield ctx.ob('C09.ROUNDTRIPS', okw and okr, dc, dc.node, "class: f'{module}.{qualname}' <-> rsplit('.', 1) + import + getattr",
                 '' if okw and okr else 'serialize_class / deserialize_class are not inverse templates', construct='class')
    de = ctx.P.func('serialization.Serializer.deserialize_enum')
    rets = [n for n in walk_local(de.node) if isinstance(n, ast.Return)]
    oke = bool(rets) and isinstance(rets[0].value, ast.Subscript) and any(isinstance(x, ast.Constant) and x.value == 'name' for x in ast.walk(rets[0].value.slice))
    yield ctx.ob('C09.ROUNDTRIPS', oke, de, rets[0] if rets else de.node, "enum: enum_cls[serialized['name']]", '' if oke else
                 'deserialize_enum does not look the member up by the stored name', construct='enum')
    st = ctx.P.func('serialization.Serializer.serialize_task')
    dt = ctx.P.func('serialization.Serializer.deserialize_task')
    wkeys = set()
    for n in walk_local(st.node):
        if isinstance(n, ast.Dict):
            wkeys |= {k.value for k in n.keys if isinstance(k, ast.Constant)}
    skip = set()
    for n in walk_local(dt.node):
        if isinstance(n, ast.Compare) and len(n.ops) == 1 and isinstance(n.ops[0], (ast.In, ast.NotIn)) and isinstance(n.comparators[0], (ast.Set, ast.Tuple, ast.List)):
            vals = {e.value for e in n.comparators[0].elts if isinstance(e, ast.Constant)}
            if vals & wkeys:
                skip = vals
                skip_test = n
    oks = skip == wkeys and bool(wkeys)
    if oks:
        # polarity: a parameter is stored only for keys outside the marker set (`if key in M: continue` or `if key not in M: ...`)
        for lp0 in [lp for lp in walk_local(dt.node) if isinstance(lp, ast.For) and any(x is skip_test for x in ast.walk(lp))]:
            for stn in [x for x in walk_local(lp0) if isinstance(x, ast.Assign) and isinstance(x.targets[0], ast.Subscript)]:
                c0 = cond_in_loop(ctx, dt, lp0, stn)
                outside = formula_of(ctx, dt, skip_test) if isinstance(skip_test.ops[0], ast.NotIn) else f_not(formula_of(ctx, dt, skip_test))
                oks = oks and implies(c0, outside)
    yield ctx.ob('C09.ROUNDTRIPS', oks, dt, dt.node, f'deserialize_task skips exactly the marker keys {sorted(wkeys)}', '' if oks else
                 f'deserialize_task skips {sorted(skip)} but serialize_task writes markers {sorted(wkeys)}', construct='task-markers')
    g = ctx.cfg(dt)
    ctor = [c for c in calls_in(dt.node) if isinstance(c.func, ast.Name) and any(k.arg is None for k in c.keywords)]
    setm = [c for c in calls_in(dt.node) if isinstance(c.func, ast.Attribute) and c.func.attr == '_set_result_meta']
    okc = bool(ctor) and bool(setm) and setm[0].args and isinstance(setm[0].args[0], ast.Name) and setm[0].args[0].id == 'result_meta'
    loops = [lp for lp in walk_local(dt.node) if isinstance(lp, ast.For) and 'items' in src(lp.iter)]
    okl = False
    if loops:
        lp = loops[0]
        stores = [n for n in walk_local(lp) if isinstance(n, ast.Assign) and isinstance(n.targets[0], ast.Subscript)]
        okl = bool(stores) and not [e for e in early_exits(lp, allow_raise=True, allow_continue=True)]
        if stores:
            val = expand_locals(g, ctx.rd(dt), stores[0].value, g.primary(stores[0]))
            okl = okl and isinstance(val, ast.Call) and isinstance(val.func, ast.Attribute) and val.func.attr == 'deserialize_value'
    yield ctx.ob('C09.ROUNDTRIPS', okc and okl, dt, ctor[0] if ctor else dt.node, 'every other key -> deserialize_value -> task_cls(**params); result_meta set',
                 '' if okc and okl else 'deserialize_task does not rebuild the task from all stored parameters and the given result_meta', construct='task-rebuild')


@rule('C15.VISITED-PATH-LOCAL', ['C15', 'C02', 'C20'])
def visited_path_local(ctx: Ctx):
    """A recursive walk over a parameter value that guards against cycles keeps its `visited` collection path-local (the set
    of *ancestors*): each level passes a new set (`seen | {id(x)}`) down, or removes what it added when it returns.  A set
    that only ever grows means "seen anywhere before", and a value that legitimately occurs twice (the same tuple object
    under two keys, the empty tuple `()`) is rejected as a cycle."""
    n = 0
    for fn in ctx.P.all_functions():
        if not fn.module.name.endswith(('.tasks', '.serialization', '.diagram')):
            continue
        rec = [c for c in calls_in(fn.node) if fn.qualname in ctx.P.resolve_call(c, fn, by_name=False)]
        if not rec:
            continue
        params = [a.arg for a in fn.params]
        for p in params:
            adds = [c for c in calls_in(fn.node) if isinstance(c.func, ast.Attribute) and c.func.attr in ('add', 'update', 'append')
                    and isinstance(c.func.value, ast.Name) and c.func.value.id == p]
            if not adds:
                continue
            # is the same object handed to the recursive call?
            passed_down = any(any(isinstance(a, ast.Name) and a.id == p for a in list(c.args) + [k.value for k in c.keywords]) for c in rec)
            if not passed_down:
                continue
            n += 1
            rems = [c for c in calls_in(fn.node) if isinstance(c.func, ast.Attribute) and c.func.attr in ('discard', 'remove', 'pop', 'difference_update')
                    and isinstance(c.func.value, ast.Name) and c.func.value.id == p]
            ok = bool(rems)
            yield ctx.ob('C15.VISITED-PATH-LOCAL', ok, fn, adds[0], f'`{p}` of {fn.short} holds ancestors only',
                         '' if ok else f'`{src(adds[0])[:50]}` adds to the visited collection that is passed down the recursion and never takes it out again: '
                         'a supported value that contains the same (sub-)object twice is reported as circular')
    yield ctx.ob('C15.VISITED-PATH-LOCAL', True, None, None, f'{n} shared visited collections in recursive walkers', construct='scan', path='labtech/tasks.py')
